/* linked into the ordinary executables of the "fuzz" flavour (rescomp, stand-alone tools) */
#include <stdio.h>
#include <stdlib.h>
int   tool_main(int, char**);
void  vf_exit(int c) { exit(c); }
FILE* vf_fopen(const char* p, const char* m) { return fopen(p, m); }
int   vf_fclose(FILE* f) { return fclose(f); }
int   main(int c, char** v) { return tool_main(c, v); }
