/* libFuzzer harness: calls <tool>_main in-process.  Build: -DVF_TOOL="p2bin" -DVF_INPUT="in.p"
   Input layout: byte 0 selects an option line of fuzz/options_<tool>.txt, the rest is the file. */
#include <stdio.h>
#include <stdlib.h>
#include <string.h>
#include <setjmp.h>
#include <stdint.h>
#include <unistd.h>
#include <sys/stat.h>
#include <sys/resource.h>
#include <signal.h>

int tool_main(int, char**);

static jmp_buf jb;
static int     in_tool;
#define MAXF 256
static FILE* open_files[MAXF];

void vf_exit(int c) {
    if (in_tool) {
        longjmp(jb, 1);
    }
    _exit(c);
}

FILE* vf_fopen(const char* p, const char* m) {
    FILE* f = fopen(p, m);
    int   i;
    if (f) {
        for (i = 0; i < MAXF; i++) {
            if (!open_files[i]) { open_files[i] = f; break; }
        }
    }
    return f;
}

int vf_fclose(FILE* f) {
    int i;
    for (i = 0; i < MAXF; i++) {
        if (open_files[i] == f) { open_files[i] = NULL; break; }
    }
    return fclose(f);
}

#define MAXOPT 64
static char  optlines[MAXOPT][256];
static int   nopt;
static char  dir[256], inpath[320], outpath[320];

static void init(void) {
    char  path[512];
    FILE* f;
    struct rlimit rl;
    snprintf(dir, sizeof(dir), "/dev/shm/vf-fz-%s-%d", VF_TOOL, (int)getpid());
    mkdir(dir, 0700);
    snprintf(inpath, sizeof(inpath), "%s/%s", dir, VF_INPUT);
    snprintf(outpath, sizeof(outpath), "%s/out", dir);
    snprintf(path, sizeof(path), "%s/options_%s.txt", VF_FUZZDIR, VF_TOOL);
    f = fopen(path, "r");
    nopt = 0;
    if (f) {
        while (nopt < MAXOPT && fgets(optlines[nopt], sizeof(optlines[0]), f)) {
            optlines[nopt][strcspn(optlines[nopt], "\n")] = 0;
            nopt++;
        }
        fclose(f);
    }
    if (!nopt) { optlines[0][0] = 0; nopt = 1; }
    rl.rlim_cur = rl.rlim_max = 64u << 20;     /* outputs stay small */
    setrlimit(RLIMIT_FSIZE, &rl);
    signal(SIGXFSZ, SIG_IGN);                  /* a too large output is an I/O error for the tool */
    if (!freopen("/dev/null", "w", stdout)) {}
}

int LLVMFuzzerTestOneInput(const uint8_t* data, size_t size) {
    static int inited;
    char*      argv[40];
    char       opts[256];
    int        argc = 0, i;
    FILE*      f;
    char*      tok;

    if (!inited) { init(); inited = 1; }
    if (size < 1) return 0;
    f = fopen(inpath, "wb");
    if (!f) return 0;
    fwrite(data + 1, 1, size - 1, f);
    fclose(f);

    argv[argc++] = (char*)VF_TOOL;
    strcpy(opts, optlines[data[0] % nopt]);
#ifdef VF_ARGS_BEFORE
    for (tok = strtok(opts, " "); tok && argc < 30; tok = strtok(NULL, " ")) argv[argc++] = tok;
#endif
    argv[argc++] = inpath;
#ifdef VF_OUTPUT
    argv[argc++] = outpath;
#endif
#ifndef VF_ARGS_BEFORE
    for (tok = strtok(opts, " "); tok && argc < 30; tok = strtok(NULL, " ")) argv[argc++] = tok;
#endif
    argv[argc] = NULL;

    in_tool = 1;
    if (!setjmp(jb)) {
        tool_main(argc, argv);
    }
    in_tool = 0;
    for (i = 0; i < MAXF; i++) {
        if (open_files[i]) { fclose(open_files[i]); open_files[i] = NULL; }
    }
    return 0;
}
