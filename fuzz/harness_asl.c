/* libFuzzer harness for asl itself: every input is assembled in a forked child.

   asl's main() is not re-entrant (one-time initialisation, tables freed by UnsetCPU), so the tool is never
   called twice in one process: the parent (libFuzzer) forks, the child runs tool_main() once and _exit()s.
   Coverage feedback survives the fork because the inline 8-bit counters (section __sancov_cntrs) are
   remapped MAP_SHARED in LLVMFuzzerInitialize: the child's counter updates land in the parent's memory.
   (Only whole pages inside the section are remapped - the first and last partial page keep their private
   mapping, so no other variable is ever shared between parent and child.)

   A child that dies from a sanitizer report or a signal writes the artifact itself through the libFuzzer
   handlers it inherited; a child that is killed by its CPU limit is saved by the parent as crash-cpu-*.
   All artifacts are candidates only: checks/c03_robust.py replays each one stand-alone.

   Input layout: byte 0 selects a line of fuzz/options_asl.txt, the rest is the source text t.asm. */
#include <stdio.h>
#include <stdlib.h>
#include <string.h>
#include <stdint.h>
#include <unistd.h>
#include <fcntl.h>
#include <signal.h>
#include <errno.h>
#include <sys/mman.h>
#include <sys/stat.h>
#include <sys/wait.h>
#include <sys/time.h>
#include <sys/resource.h>

int tool_main(int, char**);
extern char __start___sancov_cntrs[], __stop___sancov_cntrs[];

void  vf_exit(int c) { _exit(c); }
FILE* vf_fopen(const char* p, const char* m) { return fopen(p, m); }
int   vf_fclose(FILE* f) { return fclose(f); }

#define MAXOPT 128
static char optlines[MAXOPT][256];
static int  nopt;
static char dir[256], inpath[320], artdir[512];
static long nexec, ncpu;

int LLVMFuzzerInitialize(int* argc, char*** argv) {
    uintptr_t a = (uintptr_t)__start___sancov_cntrs, b = (uintptr_t)__stop___sancov_cntrs;
    uintptr_t pa = (a + 4095) & ~(uintptr_t)4095, pb = b & ~(uintptr_t)4095;
    char      path[512];
    FILE*     f;
    int       i;
    if (pb > pa) {
        if (mmap((void*)pa, pb - pa, PROT_READ | PROT_WRITE, MAP_SHARED | MAP_ANONYMOUS | MAP_FIXED, -1, 0)
            == MAP_FAILED) {
            perror("harness_asl: mmap of the counter section");
            _exit(3);
        }
    }
    snprintf(dir, sizeof(dir), "/dev/shm/vf-fz-asl-%d", (int)getpid());
    mkdir(dir, 0700);
    snprintf(inpath, sizeof(inpath), "%s/t.asm", dir);
    artdir[0] = 0;
    for (i = 1; i < *argc; i++) {
        if (!strncmp((*argv)[i], "-artifact_prefix=", 17)) {
            snprintf(artdir, sizeof(artdir), "%s", (*argv)[i] + 17);
        }
    }
    snprintf(path, sizeof(path), "%s/options_asl.txt", VF_FUZZDIR);
    f = fopen(path, "r");
    if (f) {
        while (nopt < MAXOPT && fgets(optlines[nopt], sizeof(optlines[0]), f)) {
            optlines[nopt][strcspn(optlines[nopt], "\n")] = 0;
            nopt++;
        }
        fclose(f);
    }
    if (!nopt) { strcpy(optlines[0], "-q"); nopt = 1; }
    return 0;
}

static volatile int ticks;
static void         on_tick(int sig) {
    char buf[128];
    int  fd, n;
    long pages = 0, rss = 0;
    (void)sig;
    if (++ticks > 300) _exit(98);                      /* 30 s wall clock: blocked, not computing */
    fd = open("/proc/self/statm", O_RDONLY);
    if (fd >= 0) {
        n = (int)read(fd, buf, sizeof(buf) - 1);
        close(fd);
        if (n > 0) {
            buf[n] = 0;
            sscanf(buf, "%ld %ld", &pages, &rss);
            if (rss > (3L << 30) / 4096) _exit(99);    /* memory bomb: not a finding of this target */
        }
    }
}

static void save(const char* kind, const uint8_t* data, size_t size) {
    char     path[700];
    uint32_t h = 2166136261u;
    size_t   i;
    FILE*    f;
    if (!artdir[0]) return;
    for (i = 0; i < size; i++) h = (h ^ data[i]) * 16777619u;
    snprintf(path, sizeof(path), "%scrash-%s-%08x", artdir, kind, (unsigned)h);
    f = fopen(path, "wb");
    if (f) { fwrite(data, 1, size, f); fclose(f); }
}

int LLVMFuzzerTestOneInput(const uint8_t* data, size_t size) {
    char* argv[40];
    char  opts[256];
    int   argc = 0, st = 0;
    FILE* f;
    char* tok;
    pid_t pid;

    if (size < 1) return 0;
    f = fopen(inpath, "wb");
    if (!f) return 0;
    fwrite(data + 1, 1, size - 1, f);
    fclose(f);
    nexec++;

    pid = fork();
    if (pid < 0) return 0;
    if (pid == 0) {
        struct rlimit    rl;
        struct itimerval it;
        int              fd;
        rl.rlim_cur = 8; rl.rlim_max = 9;
        setrlimit(RLIMIT_CPU, &rl);
        rl.rlim_cur = rl.rlim_max = 64u << 20;
        setrlimit(RLIMIT_FSIZE, &rl);
        signal(SIGXFSZ, SIG_IGN);
        signal(SIGXCPU, SIG_DFL);
        signal(SIGALRM, on_tick);
        memset(&it, 0, sizeof(it));
        it.it_interval.tv_usec = it.it_value.tv_usec = 100000;
        setitimer(ITIMER_REAL, &it, NULL);
        if (chdir(dir)) _exit(97);
        fd = open("/dev/null", O_RDWR);
        if (fd >= 0) { dup2(fd, 0); dup2(fd, 1); }
        argv[argc++] = (char*)"asl";
        strcpy(opts, optlines[data[0] % nopt]);
        for (tok = strtok(opts, " "); tok && argc < 30; tok = strtok(NULL, " ")) {
            argv[argc++] = strcmp(tok, "@INC@") ? tok : (char*)VF_INCDIR;
        }
        argv[argc++] = (char*)"t.asm";
        argv[argc]   = NULL;
        tool_main(argc, argv);
        _exit(0);
    }
    while (waitpid(pid, &st, 0) < 0 && errno == EINTR) {}
    if (WIFSIGNALED(st) && WTERMSIG(st) == SIGXCPU) {
        ncpu++;
        save("cpu", data, size);
    }
    return 0;
}
