/* force-included into every translation unit of the "fuzz" build flavour (no source edit):
   exit/fopen/fclose/main are redirected so that a tool's main() can be called in-process
   again and again by the libFuzzer harness. */
#ifndef VF_SHIM_H
#define VF_SHIM_H
#include <stdio.h>
#include <stdlib.h>
extern void  vf_exit(int) __attribute__((noreturn));
extern FILE* vf_fopen(const char*, const char*);
extern int   vf_fclose(FILE*);
extern int   tool_main(int, char**);
#define exit   vf_exit
#define fopen  vf_fopen
#define fclose vf_fclose
#define main   tool_main
#endif
