"""C02  Exit status, code file and reported errors always agree.

Generated domain: 1-2 source files built from good / error / warning / fatal lines (counts from
small numbers and the 2^8 / 2^16 boundary family) x option sets.  Oracle: an independent
diagnostic-count model predicting exit status, existence of each code file, number of diagnostic
lines on the selected channel and the summary totals; the biconditional is checked both ways.
"""
import re
from vf import engine, run
from vf.gen import composite

ID = "C02"
RULE = ("case = 1-2 sources of shuffled good lines and lines with a known diagnostic class (error: unknown "
        "mnemonic, operand count, range overflow, ERROR; warning: WARNING; fatal: FATAL, missing include; "
        "undefined symbol only in otherwise clean files) with counts from {0,1,2,3,10} and the boundary family "
        "{255,256,257,65535,65536,65537} (via REPT blocks) x options -Werror, -maxerrors n, -x, -x -x, -n, -q, "
        "-E !1|!2|file|<none>, -gnuerrors; non-trivial = some error, or warnings with -Werror, or a count at a "
        "2^8/2^16 boundary, or a fatal; distinct by (diagnostic class vector bucketed, option set)")
ASSUMPTIONS = [
    "programs are single-pass (no forward references) except the undefined-symbol class, which contains no "
    "warning lines because warnings of pass 1 are printed again in pass 2 while the summary counts one pass",
    "-w is not part of the property and is not varied",
]

BOUNDARY = [255, 256, 257, 65535, 65536, 65537]
ERR_LINES = ["\txyzzy", "\tlda #300", "\terror \"e\"", "\tnop 1,2,3"]
GOOD_LINES = ["\tnop", "\tlda #1", "\tsta $10", "lbl%d:\tinx", "\tmessage \"m\""]


# diagnostics of the end of the pass: kind -> (lines appended to the file, is a warning)
TAILS = {"tailpushv": (["tw\tset 1", "\tpushv ,tw"], True), "tailif": (["\tif 1", "\tnop"], False),
         "tailsection": (["\tsection ts", "\tnop"], False), "tailrept": (["\trept 2", "\tnop"], False),
         "tailmacro": (["tm\tmacro", "\tnop"], False)}
TAIL = sorted(TAILS)


def budget(tier):
    return dict(examples=8000 if tier == "quick" else 40000, shards=16)


def gen_file(d, name, allow_big, idx):
    """a file is a list of blocks: [kind, count] ; kind in good/err0..3/warn/fatal/finc/undef"""
    blocks = []
    nblocks = d.int(1, 7)
    cls = d.weighted([(3, "mixed"), (2, "clean"), (1, "warnonly"), (1, "undef"), (1, "fatal")])
    for _ in range(nblocks):
        if cls == "clean":
            kind = "good"
        elif cls == "warnonly":
            kind = d.choice(["good", "warn"])
        elif cls == "undef":
            kind = d.choice(["good", "good", "undef"])
        else:
            kind = d.choice(["good", "good", "err0", "err1", "err2", "err3", "warn"])
        cnt = d.weighted([(4, 1), (2, 2), (2, 3), (1, 10), (1, 0)])
        if allow_big and kind != "good" and kind != "undef" and d.bool(0.25):
            cnt = d.choice(BOUNDARY)
            allow_big = False
        blocks.append([kind, cnt])
    if cls == "fatal":
        blocks.insert(d.int(0, len(blocks)), [d.choice(["fatal", "finc"]), 1])
    if cls not in ("clean", "undef") and d.bool(0.3):
        # a diagnostic that is only raised when the pass ends (open construct, symbol stack left filled)
        blocks.append([d.choice(TAIL), 1])
    return dict(name=name, blocks=blocks)


LAYOUT_N = [0, 5, 40, 41, 42, 43, 44, 50, 62, 63, 64, 65, 70]


def gen_layout_file(d, name):
    """multi-pass 6502 source: short branches over statements that shrink once a forward symbol is known
    (`lda fw`: 3 bytes while fw is unknown, 2 bytes when it turns out to lie in the zero page).  Whether a branch
    is in reach can differ between the passes; whatever AS decides, status, code file, printed errors and the
    summary must tell the same story."""
    blocks = []
    for _ in range(d.int(1, 4)):
        k = d.weighted([(4, "bfwd"), (3, "bback"), (2, "good"), (1, "err"), (1, "move")])
        if k in ("bfwd", "bback"):
            blocks.append([k, d.choice(LAYOUT_N), d.choice(["fw", "fw", "zp", "ab"])])
        elif k == "good":
            blocks.append(["good", d.int(1, 3)])
        elif k == "err":
            blocks.append(["err", d.int(1, 2)])
        else:
            blocks.append(["move", d.int(1, 3)])
    f = dict(name=name, blocks=blocks, fwzp=d.bool(0.8))
    if d.bool(0.3):
        # an error that is only raised when a pass ends (open construct), in every pass or in the first one only
        f["tail"] = [d.choice(LTAILS_K), d.choice(["all", "first"])]
    return f


# errors of the end of a pass for multi-pass sources
LTAILS = {"if": "\tif 1", "section": "\tsection ts", "save": "\tsave", "struct": "tst\tstruct", "switch": "\tswitch 1"}
LTAILS_K = sorted(LTAILS)


def render_layout(f):
    L = ["\tcpu 6502", "\torg $200", "zp\tequ $20", "ab\tequ $1234"]
    for i, b in enumerate(f["blocks"]):
        if b[0] == "bfwd":
            L += ["\tbne t%d" % i] + ["\tlda %s" % b[2]] * b[1] + ["t%d:\tnop" % i]
        elif b[0] == "bback":
            L += ["t%d:\tnop" % i] + ["\tlda %s" % b[2]] * b[1] + ["\tbne t%d" % i]
        elif b[0] == "good":
            L += ["\tinx"] * b[1]
        elif b[0] == "err":
            L += ["\tlda #300"] * b[1]
        else:
            L += ["\tlda fw"] * b[1] + ["m%d:\tnop" % i, "\tjmp m%d" % i]
    L.append("fw\tequ %s" % ("$10" if f["fwzp"] else "$1010"))
    if f.get("tail"):
        if f["tail"][1] == "first":
            L += ["\tif mompass=1", LTAILS[f["tail"][0]], "\tendif"] if f["tail"][0] not in ("if", "switch") else \
                ["\tif mompass=1", "\tsave", "\tendif"]
        else:
            L.append(LTAILS[f["tail"][0]])
    return "\n".join(L) + "\n"


def execute_rerun(case):
    """the edit / re-assemble cycle in one directory with the same error target: what the second run leaves in the -E
    target has to describe the second run"""
    o = case["opts"]
    classes = ["rerun", "E:" + o["E"]]
    key = "rerun|%s|%s" % (o["E"], ",".join(sorted(k for k, v in o.items() if v and k not in ("E", "x"))))
    f1, f2 = case["first"], case["second"]
    argv = argv_of(o, [f1])
    target = "errs.txt" if o["E"] == "file" else f1["name"] + ".log"
    with run.Work("c02r") as d:
        run.write_files(d, {f1["name"] + ".asm": render(f1)})
        r1 = run.run(argv, d, timeout=60, cpu=30)
        log1 = (run.read(d, target) or b"").decode("latin-1")
        run.write_files(d, {f1["name"] + ".asm": render(f2)})
        r2 = run.run(argv, d, timeout=60, cpu=30)
        log2 = run.read(d, target)
        p2 = run.read(d, f1["name"] + ".p")
    if r1.timed_out or r2.timed_out:
        return engine.inconclusive("timeout", classes)
    detail = dict(argv=argv, status1=r1.status, status2=r2.status, log1=log1[:400], log2=(log2 or b"").decode("latin-1")[:400])
    rx = GNU if o["gnu"] else NATIVE
    if r1.status != 2 or not rx.search(log1):
        return engine.bad("first run (faulty source): status %s, %d diagnostics in the -E target"
                          % (r1.status, len(rx.findall(log1))), key, classes, **detail)
    if r2.status != 0 or p2 is None:
        return engine.bad("second run (clean source): status %s, code file %s" % (r2.status, "missing" if p2 is None else "there"),
                          key, classes, **detail)
    if log2 is not None and rx.search(log2.decode("latin-1")):
        return engine.bad("the -E target still holds %d diagnostics after a run without any message"
                          % len(rx.findall(log2.decode("latin-1"))), key, classes, **detail)
    return engine.ok(key, classes)


@composite
def strategy_(d, tier):
    if d.int(0, 99) < 4:
        o = dict(x=d.weighted([(3, 0), (1, 1), (1, 2)]), n=d.bool(0.3), q=d.bool(0.5), E=d.choice(["file", "file", "bare"]),
                 gnu=d.bool(0.3))
        first = dict(name="s0", blocks=[["good", d.int(1, 2)], [d.choice(["err0", "err1", "err2", "err3"]), d.int(1, 3)],
                                        ["good", 1]])
        second = dict(name="s0", blocks=[["good", d.int(1, 3)]] + ([["warn", 1]] if False else []))
        return dict(kind="rerun", first=first, second=second, opts=o)
    if d.int(0, 99) < 14:
        nfiles = d.weighted([(3, 1), (2, 2)])
        o = dict(x=d.weighted([(3, 0), (1, 1)]), n=d.bool(0.3), q=d.bool(0.5), E=d.weighted([(3, "default"), (1, "!1"), (1, "file")]),
                 gnu=d.bool(0.2))
        if d.bool(0.2):
            o["werror"] = True
        if d.bool(0.25):
            # default target from the command line, with and without (unknown) arguments behind the name
            o["cpuopt"] = d.choice(["6502", "Z80", "ATMEGA8", "6502:foo=1", "ATMEGA8:foo=1", "ATMEGA8:CODESEGSIZE=0"])
        return dict(kind="layout", files=[gen_layout_file(d, "s%d" % i) for i in range(nfiles)], opts=o)
    nfiles = d.weighted([(3, 1), (1, 2)])
    big = d.bool(0.35)
    files = [gen_file(d, "s%d" % i, big and i == 0, i) for i in range(nfiles)]
    o = {}
    if d.bool(0.35):
        o["werror"] = True
    if d.bool(0.25):
        o["maxerrors"] = d.choice([1, 2, 3, 5, 10, 256, 65536])
    o["x"] = d.weighted([(3, 0), (1, 1), (1, 2)])
    o["n"] = d.bool(0.3)
    o["q"] = d.bool(0.5)
    o["E"] = d.weighted([(3, "default"), (2, "!1"), (1, "!2"), (2, "file"), (1, "bare")])
    o["gnu"] = d.bool(0.25)
    return dict(files=files, opts=o)


def strategy(tier):
    return strategy_(tier)


def render(f):
    lines = ["\tcpu 6502"]
    k = 0
    for kind, cnt in f["blocks"]:
        if kind == "good":
            body = GOOD_LINES[k % len(GOOD_LINES)]
            k += 1
            if "%d" in body:
                body = body % k
                cnt = min(cnt, 1)
        elif kind.startswith("err"):
            body = ERR_LINES[int(kind[3])]
        elif kind == "warn":
            body = "\twarning \"w\""
        elif kind == "fatal":
            body = "\tfatal \"f\""
        elif kind == "finc":
            body = "\tinclude \"nofile.inc\""
        elif kind == "undef":
            body = "\tlda undefd%d" % k
            k += 1
            cnt = min(cnt, 3)
        elif kind in TAILS:
            lines += TAILS[kind][0]
            continue
        if cnt >= 200:
            lines += ["\trept %d" % cnt, body, "\tendm"]
        else:
            lines += [body] * cnt
    return "\n".join(lines) + "\n"


def model(case):
    """per file: (errors, warnings, stopped) in run order; returns dict"""
    o = case["opts"]
    per = []
    fatal = False
    total_diag = 0
    for f in case["files"]:
        if fatal:
            per.append(None)
            continue
        e = w = 0
        stopped = None
        for kind, cnt in f["blocks"]:
            if kind == "good":
                continue
            if kind == "undef":
                cnt = min(cnt, 3)
            for _ in range(cnt):
                if (kind == "warn" or kind in TAILS and TAILS[kind][1]) and not o.get("werror"):
                    w += 1
                elif kind in ("fatal", "finc"):
                    e += 1
                    stopped = "fatal"
                else:
                    e += 1
                if stopped is None and o.get("maxerrors") and e >= o["maxerrors"]:
                    stopped = "maxerrors"
                if stopped:
                    break
            if stopped:
                break
        per.append(dict(e=e, w=w, stopped=stopped))
        total_diag += e + w
        if stopped:
            fatal = True
    status = 3 if fatal else (2 if any(p and p["e"] for p in per) else 0)
    return dict(per=per, status=status, total=total_diag)


NATIVE = re.compile(r"^> > > (?:INTERNAL|\S+\(\d+\)[^\n]*?): (error|warning)( #\d+)?: ", re.M)
GNU = re.compile(r"^(?:INTERNAL|[^\s:>]+:\d+(:\d+)?)( #\d+)?: ", re.M)


def argv_of(o, files):
    argv = ["asl"]
    if o["q"]:
        argv.append("-q")
    if o.get("werror"):
        argv.append("-Werror")
    if o.get("maxerrors"):
        argv += ["-maxerrors", str(o["maxerrors"])]
    argv += ["-x"] * o["x"]
    if o.get("cpuopt"):
        argv += ["-cpu", o["cpuopt"]]
    if o["n"]:
        argv.append("-n")
    if o["gnu"]:
        argv.append("-gnuerrors")
    if o["E"] in ("!1", "!2"):
        argv += ["-E", o["E"]]
    elif o["E"] == "file":
        argv += ["-E", "errs.txt"]
    argv += [f["name"] + ".asm" for f in files]
    if o["E"] == "bare":
        argv.append("-E")
    return argv


ERRLINE_N = re.compile(r"^> > > (\S+?)\((\d+)\)[^\n]*?: error( #\d+)?: ", re.M)
ERRLINE_G = re.compile(r"^([^\s:>]+):(\d+)(?::\d+)?( #\d+)?: (?!warning)", re.M)     # GNU style: errors carry no keyword


def execute_layout(case):
    """no count model: the four witnesses of one run must agree with each other, per source file"""
    o = case["opts"]
    files = case["files"]
    classes = ["layout", "E:" + o["E"]]
    argv = argv_of(o, files)
    with run.Work("c02") as d:
        run.write_files(d, {f["name"] + ".asm": render_layout(f) for f in files})
        r = run.run(argv, d, timeout=120, cpu=60)
        if r.timed_out or r.signal in (24, 9):
            return engine.inconclusive("timeout", classes)       # a pass livelock is property C01
        exists = {f["name"]: run.read(d, f["name"] + ".p") is not None for f in files}
        chan = (run.read(d, "errs.txt") or b"").decode("latin-1") if o["E"] == "file" else (r.out if o["E"] == "!1" else r.err)
    detail = dict(argv=argv, status=r.status, signal=r.signal, stderr=r.err[-400:], stdout=r.out[-500:], exists=exists,
                  sources={f["name"]: render_layout(f)[:1500] for f in files})
    if r.signal:
        return engine.bad("asl killed by signal %d" % r.signal, None, classes, **detail)
    per = {f["name"]: 0 for f in files}
    for m in (ERRLINE_G if o["gnu"] else ERRLINE_N).finditer(chan):
        nm = m.group(1).rsplit(".", 1)[0]
        if nm in per:
            per[nm] += 1
    nerr = sum(per.values())
    # errors without a source position (raised while the default target is set up): they belong to every source
    nint = len(re.findall(r"^(?:> > > )?INTERNAL[^\n]*?: (?!warning)", chan, re.M))
    tailed = [f["name"] for f in files if f.get("tail")]
    nsetup = len(re.findall(r"^(?:> > > )?INTERNAL:\d+[^\n]*?: (?!warning)", chan, re.M)) + \
        len(re.findall(r"^(?:> > > )?INTERNAL:\d+ #", chan, re.M))
    if nsetup:
        tailed = []         # the default target was refused: nothing is assembled at all
    if nint and tailed:
        # end-of-pass diagnostics (open construct): one per source that leaves a construct open, that source has no
        # code file, the others are judged by their own error lines, the summaries add up
        classes += ["error-without-position", "end-of-pass-error"]
        key = "layout|end-of-pass|%s|%s" % (",".join(sorted(f["tail"][0] + f["tail"][1] for f in files if f.get("tail"))),
                                             ",".join(sorted(k for k, v in o.items() if v and k not in ("E", "x"))) + o["E"])
        if r.status != 2:
            return engine.bad("exit status %s although %d end-of-pass errors were printed" % (r.status, nint), key, classes,
                              chan=chan[:600], **detail)
        if nint != len(tailed):
            return engine.bad("%d end-of-pass errors printed for %d sources that leave a construct open" % (nint, len(tailed)),
                              key, classes, chan=chan[:600], **detail)
        for f in files:
            want = per[f["name"]] == 0 and f["name"] not in tailed
            if exists[f["name"]] != want:
                return engine.bad("code file of %s %s (%d positioned errors, construct left open: %s)"
                                  % (f["name"], "exists" if exists[f["name"]] else "is missing", per[f["name"]],
                                     f["name"] in tailed), key, classes, chan=chan[:600], **detail)
        if not o["q"]:
            errs = [int(x) for x in re.findall(r"^\s*(\d+) errors?\s*$", r.out, re.M)]
            if sum(errs) != nerr + nint or len(errs) != len(files):
                return engine.bad("summaries say %s errors, %d positioned and %d end-of-pass error lines were printed"
                                  % (errs, nerr, nint), key, classes, chan=chan[:600], **detail)
        return engine.ok(key, classes)
    if tailed:
        return engine.bad("sources %s leave a construct open, no end-of-pass error was printed (status %s)"
                          % (tailed, r.status), None, classes, chan=chan[:600], **detail)
    if nint:
        classes.append("error-without-position")
        if r.status == 0 or any(exists.values()):
            return engine.bad("%d errors without source position were printed, exit status %s, code files %s"
                              % (nint, r.status, sorted(k for k, v in exists.items() if v)), None, classes,
                              chan=chan[:600], **detail)
        return engine.ok("layout|error-without-position|" + str(o.get("cpuopt") or ""), classes)
    nt = []
    if nerr:
        nt.append("errors")
    if any(b[0] in ("bfwd", "bback") and 43 <= b[1] <= 63 and b[2] == "fw" and f["fwzp"] for f in files for b in f["blocks"]):
        nt.append("reach-differs-between-passes")
    if len(files) > 1:
        nt.append("two-files")
    classes += nt
    key = "layout|" + ",".join(nt) + "|" + ",".join(sorted(k for k, v in o.items() if v and k not in ("E", "x"))) + o["E"] \
        if nt else None
    if (r.status == 0) != (nerr == 0):
        return engine.bad("exit status %s with %d error lines on the error channel" % (r.status, nerr), key, classes,
                          chan=chan[:600], **detail)
    if r.status not in (0, 2):
        return engine.bad("exit status %s" % r.status, key, classes, chan=chan[:600], **detail)
    for f in files:
        if exists[f["name"]] != (per[f["name"]] == 0):
            return engine.bad("code file of %s %s, %d errors were reported for it" %
                              (f["name"], "exists" if exists[f["name"]] else "is missing", per[f["name"]]), key, classes,
                              chan=chan[:600], **detail)
    if not o["q"]:
        errs = [int(x) for x in re.findall(r"^\s*(\d+) errors?\s*$", r.out, re.M)]
        if errs != [per[f["name"]] for f in files]:
            return engine.bad("summary says %s errors, %s error lines were printed per file" %
                              (errs, [per[f["name"]] for f in files]), key, classes, chan=chan[:600], **detail)
    return engine.ok(key, classes)


def execute(case):
    if case.get("kind") == "layout":
        return execute_layout(case)
    if case.get("kind") == "rerun":
        return execute_rerun(case)
    o = case["opts"]
    m = model(case)
    has_undef = any(k == "undef" and c for f in case["files"] for k, c in f["blocks"])
    big = any(c in BOUNDARY for f in case["files"] for k, c in f["blocks"] if k != "good")
    classes = ["status%d" % m["status"], "E:" + o["E"]]
    nt = []
    if any(p and p["e"] for p in m["per"]):
        nt.append("errors")
    if o.get("werror") and any(k == "warn" and c for f in case["files"] for k, c in f["blocks"]):
        nt.append("werror-warn")
    for f in case["files"]:
        for k, c in f["blocks"]:
            if k in TAILS:
                nt.append("end-of-pass:" + k[4:])
                if o.get("werror") and TAILS[k][1]:
                    nt.append("werror-warn")
    if big:
        nt.append("boundary")
    if m["status"] == 3:
        nt.append("fatal")
    classes += nt
    key = None
    if nt:
        key = "|".join([",".join(nt), str(len(case["files"])),
                        ",".join("%s" % min(p["e"], 4) + "/" + "%s" % min(p["w"], 3) if p else "-" for p in m["per"]),
                        ",".join(sorted(k for k, v in o.items() if v and k not in ("E", "x"))), o["E"], str(o["x"]),
                        ",".join(str(c) for f in case["files"] for k, c in f["blocks"] if c in BOUNDARY and k != "good")])
    argv = ["asl"]
    if o["q"]:
        argv.append("-q")
    if o.get("werror"):
        argv.append("-Werror")
    if o.get("maxerrors"):
        argv += ["-maxerrors", str(o["maxerrors"])]
    argv += ["-x"] * o["x"]
    if o["n"]:
        argv.append("-n")
    if o["gnu"]:
        argv.append("-gnuerrors")
    if o["E"] in ("!1", "!2"):
        argv += ["-E", o["E"]]
    elif o["E"] == "file":
        argv += ["-E", "errs.txt"]
    argv += [f["name"] + ".asm" for f in case["files"]]
    if o["E"] == "bare":
        argv.append("-E")
    with run.Work("c02") as d:
        run.write_files(d, {f["name"] + ".asm": render(f) for f in case["files"]})
        r = run.run(argv, d, timeout=120, cpu=60)
        if r.timed_out:
            return engine.inconclusive("timeout", classes)
        exists = {f["name"]: run.read(d, f["name"] + ".p") is not None for f in case["files"]}
        if o["E"] == "file":
            chan = (run.read(d, "errs.txt") or b"").decode("latin-1")
        elif o["E"] == "bare":
            chan = "".join((run.read(d, f["name"] + ".log") or b"").decode("latin-1") for f in case["files"])
        elif o["E"] == "!1":
            chan = r.out
        else:
            chan = r.err
    detail = dict(argv=argv, status=r.status, signal=r.signal, stderr=r.err[-300:], stdout=r.out[-500:],
                  model=m, exists=exists)
    if r.signal:
        return engine.bad("asl killed by signal %d" % r.signal, key, classes, **detail)
    if r.status != m["status"]:
        return engine.bad("exit status %s, expected %d" % (r.status, m["status"]), key, classes, **detail)
    for f, p in zip(case["files"], m["per"]):
        want = p is not None and p["e"] == 0 and not p["stopped"]
        if exists[f["name"]] != want:
            return engine.bad("code file of %s %s, but the file had %s" %
                              (f["name"], "exists" if exists[f["name"]] else "is missing",
                               "no errors" if want else "errors / was not assembled"), key, classes, **detail)
    ndiag = len((GNU if o["gnu"] else NATIVE).findall(chan))
    if ndiag != m["total"]:
        return engine.bad("%d diagnostic lines on the error channel, %d diagnostics predicted" % (ndiag, m["total"]),
                          key, classes, chan=chan[:600], **detail)
    if not o["q"]:
        errs = [int(x) for x in re.findall(r"^\s*(\d+) errors?\s*$", r.out, re.M)]
        warns = [int(x) for x in re.findall(r"^\s*(\d+) warnings?\s*$", r.out, re.M)]
        exp = [(p["e"], p["w"]) for p in m["per"] if p and not p["stopped"]]
        if list(zip(errs, warns)) != exp:
            return engine.bad("summary totals %s, diagnostics emitted per file %s" % (list(zip(errs, warns)), exp),
                              key, classes, **detail)
    return engine.ok(key, classes)


def show(case):
    if case.get("kind") == "rerun":
        return dict(opts=case["opts"], first=case["first"]["blocks"], second=case["second"]["blocks"])
    if case.get("kind") == "layout":
        return dict(opts=case["opts"], files=[(f["name"], f["blocks"], f["fwzp"]) for f in case["files"]])
    return dict(opts=case["opts"], files=[(f["name"], f["blocks"]) for f in case["files"]])


def fixed_cases(tier):
    out = []
    for E in ("file", "bare"):
        for gnu in (False, True):
            out.append(dict(kind="rerun", first=dict(name="s0", blocks=[["good", 1], ["err0", 2], ["good", 1]]),
                            second=dict(name="s0", blocks=[["good", 2]]), opts=dict(x=0, n=gnu, q=True, E=E, gnu=gnu)))
    base = dict(x=0, n=False, q=True, E="!2", gnu=False)
    for n in BOUNDARY:
        out.append(dict(files=[dict(name="s0", blocks=[["good", 1], ["err0", n]])], opts=dict(base)))
        out.append(dict(files=[dict(name="s0", blocks=[["good", 1], ["warn", n]])], opts=dict(base, werror=True, q=False)))
        out.append(dict(files=[dict(name="s0", blocks=[["warn", n], ["err1", 1]])], opts=dict(base, q=False)))
    out.append(dict(files=[dict(name="s0", blocks=[["err0", 65536]]), dict(name="s1", blocks=[["good", 2]])],
                    opts=dict(base)))
    out.append(dict(files=[dict(name="s0", blocks=[["good", 2]]), dict(name="s1", blocks=[["err2", 1]])],
                    opts=dict(base, E="bare")))
    for k in TAIL:
        for extra in ({}, dict(werror=True), dict(maxerrors=1), dict(gnu=True, n=True)):
            out.append(dict(files=[dict(name="s0", blocks=[["good", 2], [k, 1]]), dict(name="s1", blocks=[["good", 1]])],
                            opts=dict(base, q=False, **extra)))
    return out


KNOWN = {}
