"""C17  Code output is deterministic and independent of reporting options.

Domain: golden-corpus programs x subsets of report-only options x placement of the options (argv,
ASCMD, key file) x message language x working directory / output path.  Oracle (differential /
metamorphic): the code file is byte-identical to the one of the plain reference run (whose image is
anchored on the recorded .ori), and listing / MAP / share / macro outputs of two identical runs are
equal after masking date and time.
"""
import os, re
from vf import engine, corpus, run, asl, variants
from vf.gen import composite

ID = "C17"
RULE = ("case = (golden test, line-edited variant of one (delete / duplicate / swap / move lines; kept when its reference run is error free) or generated Z80 program with IFUSED/IFNUSED/IFDEF, forward references, SET variables, "
        "macros, sections, listing controls and warnings; subset of report options, placement argv|ASCMD|@key file via ASCMD|@key file in "
        "argv, LANG in {C,de_DE,en_US}, run from another working directory, -o into a sub directory, -q on/off); "
        "fixed cases: every test with a rotating option set so that every option and every pair class occurs, and "
        "every test with every single report option (complete test x option matrix); "
        "non-trivial = >= 2 report options or a non-argv placement or another language/cwd; distinct by "
        "(test, option set, placement, lang, cwd)")
ASSUMPTIONS = [
    "the reference run (`asl <asflags> -q`) of each golden test reproduces tests/<t>/<t>.ori (checked in every case)",
    "-h and -SPLITBYTE are only applied to sources without \\{...} stringification (as the property states)",
    "the working-directory variation is applied to tests without private include files (INCLUDE searches the "
    "current directory, so moving away from them would need the code-affecting -i option)",
    "date/time tokens are masked before report files of two identical runs are compared",
    "the Atmel object file (-g ATMEL) is not compared between runs: the property lists listing, MAP and share "
    "outputs; for byte-oriented code the format's 16-bit code field has no defined content (the pinned tree fills "
    "its upper byte from uninitialised memory, see DESIGN.md section 8)",
]

# (name, argv tokens, produces files)
OPTS = [
    ("L", ["-L"]), ("l", ["-l"]), ("OLIST", ["-L", "-OLIST", "lst.out"]), ("u", ["-u"]), ("C", ["-C"]),
    ("s", ["-s"]), ("I", ["-I"]), ("gMAP", ["-g", "MAP"]), ("gNOICE", ["-g", "NOICE"]), ("gATMEL", ["-g", "ATMEL"]),
    ("t", None), ("x", ["-x"]), ("xx", ["-x", "-x"]), ("n", ["-n"]), ("A", ["-A"]), ("r", ["-r", "1"]),
    ("E", ["-E", "errs.log"]), ("gnuerrors", ["-gnuerrors"]), ("LISTRADIX", None), ("P", ["-P"]), ("M", ["-M"]),
    ("h", ["-h"]), ("SPLITBYTE", ["-SPLITBYTE", "."]), ("noicemask", ["-g", "NOICE", "-noicemask", "255"]),
    ("noicemask2", ["-g", "NOICE", "-noicemask", "6"]), ("Lwide", ["-L", "-OLIST", "w.lst"]),
    # negated forms: a bare +OLIST empties the list of listing names (the documented way to neutralise an -OLIST that
    # comes from ASCMD or a key file); it has to be followed by another option, else the source name is its argument
    ("OLISTneg", ["-L", "-OLIST", "n.lst", "+OLIST", "-q"]), ("OLISTneg1", ["-L", "-OLIST", "n1.lst", "+OLIST", "n1.lst", "-q"]),
    ("Lneg", ["-L", "+L", "-q"]), ("gneg", ["-g", "MAP", "+g", "-q"]), ("uneg", ["-u", "+u", "-C", "+C", "-q"]),
    # the share-format switches -c/-p/-a are not in the property's list of report-only options and are not varied:
    # SHARED evaluates its symbols only when a share file is written, which marks them "used" (visible to IFUSED)
]
OPTNAMES = [o[0] for o in OPTS]
LIST_OPTS = {"u", "C", "s", "I", "t", "LISTRADIX", "SPLITBYTE", "h"}


def budget(tier):
    return dict(examples=1200 if tier == "quick" else 30000, shards=16)


GEN_ITEMS = ["lab", "call", "set", "usevar", "ifused", "ifnused", "ifdef", "macro", "listing", "page", "title",
             "macexp", "newpage", "message", "warning", "section", "shared", "rept", "data", "equfwd",
             # statements whose evaluation goes through library calls that leave errno set (number conversion at the
             # edge of the double range, probing for files that do not exist): report writers check errno
             "float", "ifexist", "reptexist", "strfn",
             # text substitution that starts in the middle of the file (#define, used at the head of the golden
             # programs t_870c / t_f2mc16): state of one pass that must not reach the next one
             "define",
             # a few hundred INCLUDE executions per run (over all passes): whatever is booked per inclusion must be
             # given back independently of the include list option
             "manyinc",
             # IFEXIST / IFNEXIST of a file that lies next to the source (found relative to the source, whatever the
             # working directory is) and of one that does not exist
             "existrel"]


def render_gen(items):
    """Z80 program exercising what report options might disturb: used-flags (IFUSED/IFNUSED), forward references,
    SET variables, macros with local labels, sections, listing controls, diagnostics without errors"""
    L = ["\tcpu z80", "\torg 256", "var\tset 1"]
    labs = [i for i, it in enumerate(items) if it[0] == "lab"]
    nl = len(labs)
    mac = False
    defd = False
    incd = False
    sec = 0
    for i, it in enumerate(items):
        k = it[0]
        a = it[1] if len(it) > 1 else 0
        if k == "lab":
            L.append("lb%d:\tnop" % labs.index(i))
        elif k == "call" and nl:
            L.append("\tcall lb%d" % (a % nl))
        elif k == "set":
            L.append("var\tset var+%d" % (a % 7 + 1))
        elif k == "usevar":
            L.append("\tdb var&255")
        elif k in ("ifused", "ifnused", "ifdef") and nl:
            what = ["lb%d" % (a % nl), "var", "never%d" % i][a % 3] if k != "ifdef" else ["lb%d" % (a % nl), "never%d" % i][a % 2]
            L += ["\t%s %s" % (k, what), "\tdb %d" % (i & 255), "\telseif", "\tdb %d,%d" % ((i * 3) & 255, 7), "\tendif"]
        elif k == "macro":
            if not mac:
                L += ["mc\tmacro p", "ml:\tdb p", "\tjr ml", "\tendm"]
                mac = True
            L.append("\tmc %d" % (a & 255))
        elif k == "listing":
            L.append("\tlisting %s" % ["off", "on", "noskipped", "purecode"][a % 4])
        elif k == "page":
            # (page length, and every other time a page width: listing lines beyond it are wrapped)
            L.append("\tpage %d" % (a % 90 + 10) if a % 2 else "\tpage %d,%d" % (a % 90 + 10, [0, 20, 40, 72, 132, 255][a % 6]))
        elif k == "title":
            L.append("\ttitle \"t%d\"" % a)
        elif k == "macexp":
            L.append("\tmacexp_dft %s" % ["off", "on", "noif", "nomacro"][a % 4])
        elif k == "newpage":
            L.append("\tnewpage")
        elif k == "message":
            L.append("\tmessage \"m%d\"" % a)
        elif k == "warning":
            L.append("\twarning \"w%d\"" % a)
        elif k == "section":
            sec += 1
            L += ["\tsection s%d" % sec, "loc:\tdb %d" % (a & 255), "\tjp loc", "\tendsection"]
        elif k == "shared" and nl:
            L.append("\tshared lb%d,var" % (a % nl))
        elif k == "rept":
            L += ["\trept %d" % (a % 3 + 1), "\tdb var&15", "\tendm"]
        elif k == "data":
            L.append("\tdb %d,%d,%d" % (a & 255, (a >> 3) & 255, i & 255))
        elif k == "define":
            # the text in front of the directive must stay valid whichever way it is read: a register name
            if not defd:
                L += ["\tld b,%d" % (a & 127), "\tld d,(hl)", "#define b c", "#define d e", "\tld b,%d" % (a & 127),
                      "\tld d,(hl)"]
                defd = True
            else:
                L += ["\tld b,%d" % (a & 127), "\tld a,d"]
        elif k == "manyinc":
            if not incd:
                L += ["\trept %d" % (100 + a % 60), "\tinclude \"gi.inc\"", "\tendm"]
                incd = True
        elif k == "existrel":
            L += ["\tifexist \"gi.inc\"", "\tdb %d" % (a & 255), "\telse", "\tdb %d,1" % (a & 255), "\tendif",
                  "\tifnexist \"gi.inc\"", "\tdb 3,%d" % (a & 127), "\tendif", "\tifexist \"gnone.inc\"", "\tdb 4", "\tendif"]
        elif k == "float":
            L.append("\t%s %s" % (["dd", "dq", "dq", "dd"][a % 4],
                                   ["1e-310", "4.94e-324,2e-320", "1.0e308,1e-308", "1e-45,1.5"][a % 4]))
        elif k == "ifexist":
            L += ["mx%d\tmacro" % i, "\tifexist nofile%d.inc" % (a % 3), "\tinclude nofile%d.inc" % (a % 3), "\tendif",
                  "\tdb %d" % (a & 255), "\tnop", "\tendm", "\tmx%d" % i]
        elif k == "reptexist":
            L += ["\trept %d" % (a % 2 + 1), "\tifnexist nofile.inc", "\tdb %d" % (a & 255), "\tendif", "\tnop", "\tendm"]
        elif k == "strfn":
            L.append("\tdb strlen(\"abc\"),val(\"%d\"),int(sqrt(%d.0))" % (a % 200, a % 90 + 1))
        elif k == "equfwd" and nl:
            L.append("e%d\tequ lb%d+%d" % (i, a % nl, a % 5))
            L.append("\tdw e%d" % i)
    return "\n".join(L) + "\n"


@composite
def strategy_(d, tier):
    names = corpus.names()
    if d.bool(0.4):
        items = [[d.choice(GEN_ITEMS), d.int(0, 999)] for _ in range(d.int(4, 30))]
        k = d.weighted([(2, 1), (4, 2), (4, 3), (3, 5)])
        chosen = []
        for _ in range(k):
            o = d.choice(OPTNAMES)
            if o not in [c[0] for c in chosen]:
                chosen.append([o, d.int(0, 511) if o == "t" else (d.choice([2, 8, 10, 16, 36]) if o == "LISTRADIX" else None)])
        return dict(gen=items, opts=chosen, place=d.weighted([(4, "argv"), (2, "ascmd"), (2, "keyenv"), (2, "keyargv")]),
                    lang=d.weighted([(3, "C"), (1, "de_DE"), (1, "en_US")]), cwd=d.bool(0.25), outdir=d.bool(0.25),
                    quiet=d.bool(0.7))
    name = names[d.int(0, len(names) - 1)]
    k = d.weighted([(2, 1), (4, 2), (4, 3), (3, 5), (1, 8)])
    chosen = []
    for _ in range(k):
        o = d.choice(OPTNAMES)
        if o not in [c[0] for c in chosen]:
            arg = None
            if o == "t":
                arg = d.int(0, 511)
            elif o == "LISTRADIX":
                arg = d.choice([2, 8, 10, 16, 36, d.int(2, 36)])
            chosen.append([o, arg])
    if any(c[0] in LIST_OPTS for c in chosen) and not any(c[0] in ("L", "l", "OLIST") for c in chosen) and d.bool(0.8):
        chosen.append([d.choice(["L", "l"]), None])
    case = dict(test=name, opts=chosen, place=d.weighted([(4, "argv"), (2, "ascmd"), (2, "keyenv"), (2, "keyargv")]),
                lang=d.weighted([(3, "C"), (1, "de_DE"), (1, "en_US")]), cwd=d.bool(0.25), outdir=d.bool(0.25),
                quiet=d.bool(0.7))
    if case["place"] in ("keyenv", "keyargv"):
        case["keyinc"] = d.weighted([(2, 0), (1, 1), (2, 2)])
    if case["cwd"] and not case["outdir"]:
        case["noout"] = d.bool(0.5)
    if d.bool(0.45):
        # a line-edited variant of the golden program (other addresses, distances, statement order)
        case["var"] = variants.ops_strategy(d)
    return case


def strategy(tier):
    return strategy_(tier)


def tokens(case, t):
    toks = []
    src = t["src"]
    for o, arg in case["opts"]:
        if o in ("h", "SPLITBYTE") and b"\\{" in src:
            continue
        if o == "t":
            toks += ["-t", str(arg)]
        elif o == "LISTRADIX":
            toks += ["-LISTRADIX", str(arg)]
        else:
            toks += dict(OPTS)[o]
    return toks


MASKS = [(re.compile(r"[^\r\n]*\(\d+\)\r"), ""),      # progress display of the non-quiet mode (timer driven)
         (re.compile(r"\d{1,2}[./-]\d{1,2}[./-]\d{2,4}"), "<DATE>"),
         (re.compile(r"\d{1,2}:\d{2}:\d{2}"), "<TIME>"),
         (re.compile(r"[\d.,]+ ?(seconds|Sekunden|sec)[^\n]*"), "<SECS>")]


def mask(b):
    s = b.decode("latin-1")
    for rx, rep in MASKS:
        s = rx.sub(rep, s)
    return s


def one_run(t, case, toks, d, tag):
    name = t["name"]
    files = dict(t["extra"])
    wd = d
    srcarg = name + ".asm"
    has_private = any(k.lower().endswith((".inc", ".asm", ".p", ".bin")) or "." not in k for k in t["extra"])
    # the source in another directory than the working directory: what it includes (INCLUDE, BINCLUDE, IFEXIST) lies
    # next to it and is found relative to it
    use_cwd = case["cwd"]
    if use_cwd:
        os.makedirs(os.path.join(d, "srcdir"), exist_ok=True)
        os.makedirs(os.path.join(d, "elsewhere"), exist_ok=True)
        run.write_files(os.path.join(d, "srcdir"), dict(files))
        files = {}
        run.write_files(os.path.join(d, "srcdir"), {name + ".asm": t["src"]})
        wd = os.path.join(d, "elsewhere")
        srcarg = "../srcdir/" + name + ".asm"
    else:
        files[name + ".asm"] = t["src"]
        run.write_files(d, files)
    outp = name + ".p"
    if case["outdir"]:
        os.makedirs(os.path.join(wd, "outd"), exist_ok=True)
        outp = "outd/" + name + ".p"
    argv = ["asl"] + list(t["flags"]) + (["-q"] if case["quiet"] else []) + ["-i", asl.INCLUDE_DIR]
    env = {"LANG": case["lang"], "LC_ALL": case["lang"]} if case["lang"] != "C" else {}
    place = case["place"]
    early_out = any(t.startswith("+") for t in toks)
    if early_out:
        # negated options act on what was said before them: the output names come first in these runs
        argv += ["-o", outp, "-shareout", name + ".h"]
    if place == "argv" or not toks:
        argv += toks
    elif place == "ascmd":
        env["ASCMD"] = " ".join(toks)
    else:
        # key file: option and argument on the same line
        lines, i = [], 0
        while i < len(toks):
            if i + 1 < len(toks) and not toks[i + 1].startswith(("-", "+")):
                lines.append(toks[i] + " " + toks[i + 1])
                i += 2
            else:
                lines.append(toks[i])
                i += 1
        if case.get("keyinc"):
            # the include path moves into the key file as well, as its last line - with or without a line end
            k = argv.index("-i")
            del argv[k:k + 2]
            lines.append("-i " + asl.INCLUDE_DIR)
        run.write_files(wd, {"opts.key": "\n".join(lines) + ("" if case.get("keyinc") == 2 else "\n")})
        if place == "keyenv":
            env["ASCMD"] = "@opts.key"
        else:
            argv.append("@opts.key")
    noout = bool(case.get("noout")) and use_cwd and not early_out and not case["outdir"]
    if noout:
        # no -o: the code file is named after the source and lies next to it, not in the working directory
        argv += [srcarg]
    else:
        argv += [srcarg] if early_out else [srcarg, "-o", outp, "-shareout", name + ".h"]
    r = run.run(argv, wd, env=env, timeout=90, cpu=60)
    p = run.read(os.path.join(d, "srcdir"), name + ".p") if noout else run.read(wd, outp)
    reports = {}
    for root in {wd, d, os.path.join(d, "srcdir")}:
        if not os.path.isdir(root):
            continue
        for fn in sorted(os.listdir(root)):
            exts = (".lst", ".map", ".noi", ".h", ".inc", ".i", ".mac", ".out", ".log")
            if fn.lower().endswith(exts) and fn not in t["extra"]:
                b = run.read(root, fn)
                if b is not None:
                    reports[fn] = mask(b)
    reports["<stdout>"] = mask(r.stdout)
    return r, p, reports, argv, env


def program_of(case):
    if "gen" in case:
        src = render_gen(case["gen"]).encode("latin-1")
        extra = {"gi.inc": b"\tdb var&255\nvar\tset var+1\n"} if any(it[0] in ("manyinc", "existrel") for it in case["gen"]) else {}
        return dict(name="g" + engine.digest(src)[:8], src=src, ori=None, flags=[], extra=extra)
    if case.get("var"):
        return variants.load(case["test"], case["var"])
    return corpus.load(case["test"])


def execute(case):
    t = program_of(case)
    case = dict(case, test=t["name"])
    toks = tokens(case, t)
    classes = ["place:" + case["place"], "lang:" + case["lang"]] + ["opt:" + o for o, _ in case["opts"]]
    nopt = len(case["opts"])
    nt = nopt >= 2 or (case["place"] != "argv" and nopt) or case["lang"] != "C" or case["cwd"] or case["outdir"]
    key = None
    if nt:
        key = "|".join([case["test"] + (engine.digest(str(case["var"]))[:6] if case.get("var") else ""), ",".join(sorted("%s%s" % (o, a if a is not None else "") for o, a in case["opts"])),
                        case["place"], case["lang"], str(case["cwd"]), str(case["outdir"]), str(case["quiet"])])
    with run.Work("c17r") as d0:
        ref = dict(case, opts=[], place="argv", lang="C", cwd=False, outdir=False, quiet=True)
        r0, p0, _, argv0, _ = one_run(t, ref, [], d0, "ref")
    if r0.timed_out:
        return engine.inconclusive("timeout", classes)
    if "gen" in case or case.get("var"):
        classes.append("generated" if "gen" in case else "golden-variant")
        if r0.status != 0 or p0 is None:
            # the program does not assemble without report options: then it must not assemble with them either
            if toks:
                with run.Work("c17") as base:
                    r1, p1, _, argv1, env1 = one_run(t, case, toks, base, "a")
                if not r1.timed_out and r1.status == 0 and p1 is not None:
                    return engine.bad("%s is rejected without report options (status %s) but assembles with %s"
                                      % (case["test"], r0.status, toks), key, classes, argv=argv1, env=env1,
                                      stderr_without=r0.err[-600:], src=t["src"].decode("latin-1")[:6000])
            return engine.discarded("generated-program-invalid" if "gen" in case else "variant-invalid", classes)
    if r0.status != 0 or p0 is None:
        return engine.bad("reference run of %s fails: status %s" % (case["test"], r0.status), key, classes,
                          stderr=r0.err[-500:])
    # both runs use the same absolute directory name (the include list prints absolute paths)
    import shutil
    with run.Work("c17") as base:
        d1 = os.path.join(base, "w")
        os.mkdir(d1)
        r1, p1, rep1, argv1, env1 = one_run(t, case, toks, d1, "a")
        shutil.rmtree(d1)
        os.mkdir(d1)
        r2, p2, rep2, _, _ = one_run(t, case, toks, d1, "b")
    if r1.timed_out or r2.timed_out:
        return engine.inconclusive("timeout", classes)
    detail = dict(argv=argv1, env=env1, status=r1.status, stderr=r1.err[-600:], stdout=r1.out[-300:])
    if "gen" in case or case.get("var"):
        detail["src"] = t["src"].decode("latin-1")[:6000]
    if r1.signal:
        return engine.bad("asl killed by signal %d" % r1.signal, key, classes, **detail)
    if r1.status != 0 or p1 is None:
        return engine.bad("report options make %s fail: status %s" % (case["test"], r1.status), key, classes, **detail)
    if p1 != p0:
        i = next((i for i in range(min(len(p0), len(p1))) if p0[i] != p1[i]), min(len(p0), len(p1)))
        return engine.bad("code file of %s changes with report options %s (first difference at byte %d, "
                          "len %d vs %d)" % (case["test"], toks, i, len(p1), len(p0)), key, classes, **detail)
    if p2 != p1 or r2.status != r1.status:
        return engine.bad("two identical runs give different code files", key, classes, **detail)
    if rep1 != rep2:
        diff = [k for k in sorted(set(rep1) | set(rep2)) if rep1.get(k) != rep2.get(k)]
        ex = ""
        if diff and diff[0] in rep1 and diff[0] in rep2:
            a, b = rep1[diff[0]].split("\n"), rep2[diff[0]].split("\n")
            j = next((j for j in range(min(len(a), len(b))) if a[j] != b[j]), min(len(a), len(b)))
            ex = "%r vs %r" % (a[j:j + 1], b[j:j + 1])
        return engine.bad("report outputs of two identical runs differ: %s %s" % (diff, ex), key, classes, **detail)
    classes += ["reports:%d" % min(len(rep1) - 1, 6)]
    return engine.ok(key, classes)


def show(case):
    return case


def fixed_cases(tier):
    out = []
    names = corpus.names()
    n = len(OPTNAMES)
    places = ["argv", "ascmd", "keyenv", "keyargv"]
    for i, t in enumerate(names):
        # rotating triple (i, i+7, i+13) covers every option and many pairs; listing on for listing options
        ops = []
        for j in (i % n, (i * 3 + 7) % n, (i * 5 + 13) % n):
            o = OPTNAMES[j]
            if o not in [x[0] for x in ops]:
                ops.append([o, (i * 37) % 512 if o == "t" else ([2, 8, 10, 16, 36, 7][i % 6] if o == "LISTRADIX" else None)])
        if not any(x[0] in ("L", "l", "OLIST") for x in ops):
            ops.append(["L", None])
        out.append(dict(test=t, opts=ops, place=places[i % 4], lang=["C", "de_DE", "en_US"][i % 3], cwd=(i % 5 == 0),
                        outdir=(i % 4 == 1), quiet=(i % 3 != 0), noout=(i % 2 == 0), keyinc=(i // 4) % 3 if places[i % 4].startswith("key") else 0))
    # complete single-option coverage: every golden test with every report option on its own
    phase = engine.seed_from_env() % 2
    for i, t in enumerate(names):
        for j, o in enumerate(OPTNAMES):
            if tier == "quick" and (i + j) % 2 != phase and o not in ("h", "SPLITBYTE", "C", "A"):
                continue      # quick: half of the matrix (rotating with the seed), the state-changing options always
            arg = 255 if o == "t" else (8 if o == "LISTRADIX" else None)
            ops = [[o, arg]]
            if o in LIST_OPTS:
                ops.append(["L", None])
            out.append(dict(test=t, opts=ops, place="argv", lang="C", cwd=False, outdir=False, quiet=True))
    return out


KNOWN = {}
