"""C18  Files assembled in one invocation do not influence each other.

Domain: ordered pairs / triples of sources given to ONE asl run: golden-corpus programs (all code
generators) and generated failing sources that stop with an open construct.  Oracle (differential):
each file's code file, its diagnostics and the exit status are those of assembling the file alone.
"""
from vf import engine, corpus, run, asl, statepool, variants
from vf.gen import composite

ID = "C18"
RULE = ("case = ordered list of 2-3 sources drawn from the golden tests that need no private command-line flags "
        "plus generated failing sources (unterminated MACRO / IF / SECTION / STRUCT / SAVE / PHASE / EXPECT / "
        "REPT / SWITCH, error storm, CPU left switched, every ON/OFF and ASSUME switch of a family left in its "
        "non-default position - these in front of EVERY golden test); fixed cases: a covering design in which every golden test "
        "is predecessor and successor once and every failing-predecessor kind precedes ~25 different tests; "
        "plus every test followed by itself; non-trivial = every multi-file run (each has a predecessor whose "
        "state could leak); distinct by the ordered name tuple")
ASSUMPTIONS = [
    "golden tests that need private asflags (-cpu, -D, -alias, -c) are left out: the property compares runs "
    "'with the same options'",
    "pairs whose private include files have the same name but different contents are not generated (they would "
    "have to share one working directory)",
    "fatal predecessors are not generated: a fatal error ends the whole run by documented behaviour",
]

FAILERS = {
    "open_macro": "\tcpu 6502\n\tnop\nopenm\tmacro x\n\tlda #x\n",
    "open_if": "\tcpu z80\n\tif 1\n\tnop\n\tif 0\n\tnop\n",
    "open_section": "\tcpu 8051\n\tsection s1\nlab1:\tnop\n\tsection s2\nlab2:\tnop\n",
    "open_struct": "\tcpu 68000\nrec\tstruct\nf1\tds.w 1\nf2\tds.l 1\n\tnop\n",
    "open_save": "\tcpu 6809\n\tsave\n\tcpu 6502\n\tlisting off\n\tsave\n\tnop\n\tfoo\n",
    "open_phase": "\tcpu z80\n\torg 100h\n\tphase 8000h\n\tnop\n\tphase 9000h\n\tbar\n",
    "open_expect": "\tcpu 6502\n\texpect 1320\n\tlda #300\n\tnop\n",
    "open_rept": "\tcpu avr\n\trept 3\n\tnop\n",
    "open_switch": "\tcpu 8086\n\tswitch 3\n\tcase 1\n\tnop\n\tcase 3\n\tbaz\n",
    "storm": "\tcpu msp430\n" + "\tfrob r1,r2\n" * 40 + "x\tequ 1\nx\tequ 2\n\tradix 16\n\tcharset 'a','z',1\n\tpadding off\n",
    "cpu_left": "\tcpu 320c30\n\tsegment data\n\trelaxed on\n\tradix 8\n\tintsyntax +$hex\n\toutradix 2\n\tmacexp off\n\tbogus\n",
    "defs_left": "\tcpu 68000\nfn\tfunction a,a+1\nmm\tmacro\n\tnop\n\tendm\nval\tset 5\n\tpushv stk,val\n\tcharset 65,66\n\tcodepage cp2\n\tillegalop\n",
}
# predecessors that leave every mode switch they can reach in its non-default position and then fail
FAILERS.update({
    "modes_glob": "\tcpu z80\n\tdottedstructs on\n\trelaxed on\n\tcompmode on\n\tmacexp_dft off\n\tlisting off\n"
                  "\tmaxnest 5\n\tnestmax 7\n\toutradix 8\n\tz80syntax exclusive\n\tfrob\n",
    "modes_68k": "\tcpu 68040\n\tpadding off\n\tsupmode on\n\tfpu on\n\tpmmu on\n\tfullpmmu off\n\tcompmode on\n\tfrob\n",
    "modes_cf": "\tcpu mcf5407\n\tpadding off\n\tsupmode on\n\tfpu on\n\tfrob\n",
    "modes_51": "\tcpu 80c251\n\tsrcmode on\n\tbigendian on\n\tsegment data\n\tfrob\n",
    "modes_z380": "\tcpu z380\n\textmode on\n\tlwordmode on\n\tfrob\n",
    "modes_avr": "\tcpu atmega8\n\twrapmode on\n\tpacking on\n\tsegment data\n\tfrob\n",
    "modes_sh": "\tcpu sh7600\n\tcompliterals on\n\tsupmode on\n\tpadding off\n\tfrob\n",
    "modes_msp": "\tcpu msp430\n\tpadding off\n\tfrob\n",
    "modes_8086": "\tcpu 80186\n\tassume cs:nothing,ds:code,es:data\n\tfpu on\n\tfrob\n",
    "modes_6809": "\tcpu 6309\n\tassume dpr:$80\n\tplainbase on\n\tfrob\n",
    "modes_7700": "\tcpu 65816\n\tassume m:1,x:1,dpr:$1234,dt:$12,pg:$34\n\tfrob\n",
    "modes_78k4": "\tcpu 784026\n\tassume rss:1,location:0fh\n\tfrob\n",
    "modes_st9": "\tcpu st9020\n\tassume rp:1,dp:1\n\tfrob\n",
    "modes_tlcs900": "\tcpu 96c141\n\tmaxmode on\n\tsupmode on\n\tfrob\n",
})
MODE_FAILERS = sorted(k for k in FAILERS if k.startswith("modes_"))
# predecessors with many errors of one kind (whatever an error path books - nesting counters, stacks, lists - must
# not be left behind for the next source)
FAILERS.update({
    "vol_func": "\tcpu z80\npk\tfunction a,b,a+b\n\trept 70\n\tdb pk(3)\n\tdb pk(nix,1)\n\tendm\n",
    "vol_macro": "\tcpu z80\nvm\tmacro p\n\tdb p\n\tfrob\n\tendm\n\trept 70\n\tvm 1\n\tvm\n\tendm\n",
    "vol_expr": "\tcpu 6502\n\trept 70\n\tbyt 1/0\n\tbyt nix+1\n\tbyt substr(1,2,3)\n\tbyt \"a\"+1.5\n\tbyt (1\n\tendm\n",
    "vol_struct": "\tcpu 68000\n\trept 70\nrec\tstruct\nf1\tds.w 1\n\tfrob\n\tendstruct\n\tendm\n",
    "vol_section": "\tcpu 8051\n\trept 70\n\tsection s\n\tpublic nix\n\tendsection t\n\tendm\n",
    "vol_pushv": "\tcpu z80\nv\tset 1\n\trept 70\n\tpushv st,v\n\tpopv nost,v\n\tendm\n",
    "vol_if": "\tcpu z80\n\trept 70\n\tif nix\n\tnop\n\tendif\n\telse\n\tendif\n\tendm\n",
})
VOL_FAILERS = sorted(k for k in FAILERS if k.startswith("vol_"))
# predecessors whose last pass ends with range errors (jump distance, page) - counters of 'questionable' errors
# are only consumed when a later symbol change forces another pass
FAILERS.update({
    "fin_jrz80": "\tcpu z80\n\torg 0\n\tjr far\n\tds 300\nfar:\tnop\n",
    "fin_bne6502": "\tcpu 6502\n\torg 0\n\tbne far\n\tbeq far\n\tdfs 300\nfar:\tnop\n",
    "fin_sjmp51": "\tcpu 8051\n\torg 0\nback:\tnop\n\tds 300\n\tsjmp back\n\tajmp 0f000h\n",
    "fin_bras68k": "\tcpu 68000\n\torg 0\n\tbra.s far\n\tds.b 300\nfar:\tnop\n",
})
FIN_FAILERS = sorted(k for k in FAILERS if k.startswith("fin_"))
# option sets every run of one case (joint and single) is given in addition to -q -i
OPTSETS = [[], ["-Y"], ["-x"], ["-x", "-x"], ["-U"], ["-L"], ["-C", "-L"], ["-g"], ["-u", "-L"], ["-s", "-L"],
           ["-gnuerrors"], ["-Werror"], ["-Y", "-x", "-L"], ["-h"], ["-n"], ["-r"], ["-A"], ["-t", "0"], ["-P"],
           ["-M"], ["-I", "-L"], ["-compmode"], ["-relaxed"], ["-maxerrors", "3"], ["-E"], ["-E", "-x"], ["-E", "-gnuerrors"]]


def _exp_probe(total):
    """68000 macro whose single body line expands to exactly `total` characters (the body line itself is two shorter; 1024 = initial line-buffer capacity, 1152 = capacity after one growth step):
    a few long string arguments and the parameter p1, which is replaced by the four characters $012"""
    head, tail = " dc.b ", ",p1"      # no tabs: a line with tabs is stored differently and never sits on the boundary
    room = total - 1 - len(head) - len(tail)            # characters for the string arguments of the body line
    parts = []
    while room > 0:
        n = min(room, 203)                               # "..." of at most 200 characters plus the comma
        if room - n in (1, 2, 3):                        # never leave a rest too short for '"x",'
            n -= 4
        parts.append('"' + "abcdefghij"[len(parts) % 10] * (n - 3) + '"')
        room -= n
    line = head + ",".join(parts) + tail
    line += "" if len(line) == total - 2 else ""
    return "\tcpu 68000\nem\tmacro p1\n" + line + "\n\tendm\n\tem $012\n\tdc.b 255\n"


# small valid successor programs: the multi-byte data statements of 36 code generators (byte order, word size and
# packing flags of shared pseudo-op modules must come from the program's own target, not from an earlier source)
PROBES = {
    # a source that ends outside the CODE segment / a source that relies on CODE starting at 0 (no ORG, CPU not on line 1)
    'lang_endsdata': '\tcpu 8051\n\tnop\n\tsegment data\n\torg 30h\nv1:\tds 2\n\tsegment xdata\nv2:\tds 3\n',
    'lang_endsio': '\tcpu z80\n\tnop\n\tnop\n\tsegment io\n\torg 10h\np1:\tds 1\n',
    'lang_noorg51': '; no ORG: CODE starts at its initial value\n\tcpu 8051\n\tdb 1,2,3\nl1:\tsjmp l1\n\tsegment data\nd1:\tds 1\n',
    'lang_noorgz80': '; comment first\n\n\tcpu z80\n\tdb 4,5\nl2:\tjr l2\n\tdw l2\n',
    'lang_noorg68k': '; comment first\n\tcpu 68000\n\tdc.w 1,2\nl3:\tbra.s l3\n\tdc.l l3\n',
    # line buffers live for the whole run and only grow: a long line in one source, an expansion at the old capacity
    # in the next
    # a label that moves in the second pass while nothing else has asked for another pass yet
    'lang_moves6502': '\tcpu 6502\n\torg $200\n\tlda fw\nl2:\tnop\n\tjmp l2\n\torg $10\nfw:\tnop\n',
    'lang_moves68k': '\tcpu 68000\n\torg $1000\n\tjmp fw\nl2:\tnop\n\tbra.s l2\n\torg $20\nfw:\tnop\n',
    'lang_moves6809': '\tcpu 6809\n\torg $1000\n\tlda fw\nl2:\tnop\n\tbra l2\n\torg $20\nfw:\tnop\n',
    'lang_longline': '\tcpu 6502\n; ' + 'x' * 1100 + '\n\tnop\n\tbyt 1,2,3\n',
    'lang_longline2': '\tcpu z80\n\tdb 1 ; ' + 'y' * 2100 + '\n\tnop\n',
    'lang_exp1022': _exp_probe(1022), 'lang_exp1023': _exp_probe(1023), 'lang_exp1024': _exp_probe(1024),
    'lang_exp1025': _exp_probe(1025), 'lang_exp1026': _exp_probe(1026), 'lang_exp1152': _exp_probe(1152),
    'lang_exp255': _exp_probe(255), 'lang_exp256': _exp_probe(256), 'lang_exp257': _exp_probe(257),
    'lang_func': '\tcpu z80\nlo8\tfunction x,x&255\nhi8\tfunction x,lo8(x>>8)\n\tdb lo8(1234h),hi8(1234h)\n',
    'lang_macro': '\tcpu z80\nmm\tmacro a,b\nl1:\tdb a\n\tdw l1\n\tif b\n\tmm a+1,b-1\n\tendif\n\tendm\n\tmm 1,3\n',
    'lang_struct': '\tcpu 68000\nrec\tstruct\nf1\tds.w 1\nf2\tds.l 1\nrec\tendstruct\n\tdc.w rec_f2,rec_len\nv\trec\n\tdc.w v_f2\n',
    'lang_section': '\tcpu 8051\n\tsection a\n\tpublic x\nx:\tnop\n\tsection b\ny:\tnop\n\tsjmp y\n\tendsection\n\tendsection\n\tsjmp x\n',
    'lang_stack': '\tcpu z80\nv\tset 1\n\tpushv st,v\nv\tset 2\n\tpopv st,v\n\tdb v\n\tsave\n\tlisting off\n\trestore\n\tdb 3\n',
    'lang_cond': '\tcpu z80\n\tswitch 3\n\tcase 1,2\n\tdb 1\n\tcase 3\n\tdb 3\n\telsecase\n\tdb 9\n\tendcase\n\tifdef nix\n\tdb 7\n\telseif\n\tdb 8\n\tendif\n',
    '1802': '\tcpu 1802\n\torg 100h\n\tdw 1234h\n\tdd 12345678h\n',
    '320c25': '\tcpu 320c25\n\torg 100h\n\tword 1234h\n\tlong 12345678h\n\tstring "abc"\n\tfloat 1.5\n',
    '320c30': '\tcpu 320c30\n\torg 100h\n\tword 12345678h\n\tsingle 1.5\n\tdata "abcde"\n',
    '4004': '\tcpu 4004\n\torg 10h\n\tdata 12h,34h\n',
    '6502': '\tcpu 6502\n\torg $200\n\tadr $1234\n\tfdb $5678\n\tbyt 1,2\n',
    '6800': '\tcpu 6800\n\torg $100\n\tfdb $1234\n\tdw $5678\n\tadr $9abc\n',
    '6804': '\tcpu 6804\n\torg $100\n\tdw $1234\n\tfdb $5678\n',
    '6805': '\tcpu 6805\n\torg $100\n\tfdb $1234\n\tdw $5678\n',
    '6809': '\tcpu 6809\n\torg $100\n\tfdb $1234\n\tadr $5678\n\tdc.w $9abc\n\tdc.l $12345678\n\tfcc "ab"\n\tdw $1122\n',
    '68hc12': '\tcpu 68hc12\n\torg $1000\n\tfdb $1234\n\tdw $5678\n\tdc.w $9abc\n\tdc.l $12345678\n',
    '68k': '\tcpu 68000\n\torg $1000\n\tdc.w $1234\n\tdc.l $12345678\n\tdc.b 1,2\n\tdc.s 1.5\n',
    '78k0': '\tcpu 78070\n\torg 100h\n\tdw 1234h\n\tdd 12345678h\n',
    '8051': '\tcpu 8051\n\torg 100h\n\tdw 1234h\n\tdd 12345678h\n\tdb 1,2\n',
    '8086': '\tcpu 8086\n\torg 100h\n\tdw 1234h\n\tdd 12345678h\n\tdq 1.5\n',
    'avr': '\tcpu atmega8\n\torg 0x10\n\tdata 0x1234,0x5678\n\tdata "abc"\n',
    'cop8': '\tcpu cop87l84\n\torg 0x100\n\tword 0x1234\n\taddrw 0x5678\n\tbyte 1\n',
    'cp1600': '\tcpu cp-1600\n\torg 256\n\tword 4660\n',
    'f2mc8': '\tcpu mb89190\n\torg 100h\n\tdw 1234h\n\tdb 1\n',
    'h8': '\tcpu h8/300\n\torg $100\n\tdc.w $1234\n\tdc.l $12345678\n\tdc.b 1\n',
    'kcpsm': '\tcpu kcpsm3\n\torg 10h\n\tload s0,12h\n',
    'm16c': '\tcpu m16c\n\torg 100h\n\tdw 1234h\n\tdd 12345678h\n',
    'mcore': '\tcpu mcore\n\torg $100\n\tdc.w $1234\n\tdc.b 1,2\n',
    'msp430': '\tcpu msp430\n\torg 200h\n\tword 1234h\n\tbyte 1,2,3\n\tword 5678h\n',
    'ns32k': '\tcpu ns32016\n\torg 100h\n\tdw 1234h\n\tdd 12345678h\n',
    'pic': '\tcpu 16c84\n\torg $10\n\tdata $1234,5\n',
    'ppc': '\tcpu mpc601\n\torg 0x100\n\tdw 0x1234\n\tdd 0x12345678\n',
    'scmp': '\tcpu sc/mp\n\torg 0x100\n\tdw 0x1234\n\tdb 1\n',
    'sh': '\tcpu sh7000\n\torg $100\n\tdc.w $1234\n\tdc.l $12345678\n',
    'st6': '\tcpu st6225\n\torg 100h\n\tword 1234h,5678h\n\tbyte 1,2\n\tascii "ab"\n\tasciz "c"\n',
    'st7': '\tcpu st7\n\torg $100\n\tdc.w $1234\n\tdc.l $12345678\n\tdc.b 1,2\n',
    'tlcs900': '\tcpu 96c141\n\torg 100h\n\tdw 1234h\n\tdd 12345678h\n',
    'tms7000': '\tcpu tms70c00\n\torg 100h\n\tdw 1234h\n\tdb 1\n',
    'tms9900': '\tcpu tms9900\n\torg 100h\n\tword 1234h\n\tbyte 1,2\n\tsingle 1.5\n',
    'xa': '\tcpu xag3\n\torg 256\n\tdc.w 4660\n\tdc.b 1,2\n',
    'z8': '\tcpu z8601\n\torg 100h\n\tdw 1234h\n\tdd 12345678h\n',
    'z80': '\tcpu z80\n\torg 100h\n\tdw 1234h\n\tdd 12345678h\n\tdb 1,2\n\tdd 1.5\n',
}


def budget(tier):
    return dict(examples=2500 if tier == "quick" else 25000, shards=16)


_plain = None


def plain_tests():
    global _plain
    if _plain is None:
        _plain = [n for n in corpus.names() if not corpus.load(n)["flags"]]
    return _plain


def tname(n):
    """golden test behind an entry (entries: test name | '!failer' | dict(t=test, tail=[state statements],
    lit=[literal edits]))"""
    return n["t"] if isinstance(n, dict) else n


def label(n):
    if isinstance(n, dict):
        return n["t"] + ("+state" if n.get("tail") else "") + ("~lit" if n.get("lit") else "")
    return n


def compatible(names):
    seen = {}
    for n in names:
        n = tname(n)
        if n.startswith(("!", "?")):
            continue
        for k, v in corpus.load(n)["extra"].items():
            if k in seen and seen[k] != v:
                return False
            seen[k] = v
    return True


@composite
def strategy_(d, tier):
    pt = plain_tests()
    k = d.weighted([(3, 2), (1, 3)])
    names = []
    for i in range(k):
        if i < k - 1 and d.bool(0.3):
            names.append("!" + d.choice(sorted(FAILERS)))
        else:
            names.append(pt[d.int(0, len(pt) - 1)])
    if d.bool(0.12):
        # any predecessor, then a data probe of another code generator
        names = names[:k - 1] + ["?" + d.choice(sorted(PROBES))]
        if d.bool(0.5):
            names[0] = "?" + d.choice(sorted(PROBES))
        return dict(files=names, opts=d.choice(OPTSETS) if d.bool(0.3) else [])
    if d.bool(0.45):
        # same code generator before and after: the predecessor ends with state statements (ASSUME of the family's
        # registers, mode switches), the successor is a golden program of that family, often with some numeric
        # literals changed so that other operand ranges (register windows, pages, banks) are used
        fams = statepool.tests_by_family(pt)
        multi = sorted(f for f in fams if fams[f])
        f = d.choice(multi)
        pred, succ = d.choice(fams[f]), d.choice(fams[f])
        a = dict(t=pred, tail=statepool.draw(d, pred))
        b = dict(t=succ, lit=variants.lit_strategy(d)) if d.bool(0.7) else succ
        names = [a, b]
    if d.bool(0.25):
        # a predecessor whose last pass ends with range errors, in front of whatever was drawn
        names = ["!" + d.choice(FIN_FAILERS)] + names[-2:]
    return dict(files=names, opts=d.choice(OPTSETS) if d.bool(0.3) else [])


def strategy(tier):
    return strategy_(tier)


def source_of(n, idx):
    if isinstance(n, dict):
        t = corpus.load(n["t"])
        src = t["src"]
        if n.get("lit"):
            src = variants.perturb_literals(src, n["lit"])
        if n.get("tail"):
            src = statepool.append_before_end(src, n["tail"])
        return "e%d_%s.asm" % (idx, n["t"]), src, t["extra"]
    if n.startswith("!"):
        return "f%d_%s.asm" % (idx, n[1:]), FAILERS[n[1:]].encode(), {}
    if n.startswith("?"):
        return "p%d_%s.asm" % (idx, n[1:]), PROBES[n[1:]].encode(), {}
    t = corpus.load(n)
    return n + ".asm", t["src"], t["extra"]


def run_set(names, idxs, opts=()):
    """assemble the given (index, name) entries in one run; returns (result, {idx: p bytes|None})"""
    with run.Work("c18") as d:
        bare_e = "-E" in opts
        argv = ["asl", "-q", "-i", asl.INCLUDE_DIR] + [o for o in opts if o != "-E"]
        outs = {}
        for i in idxs:
            fn, src, extra = source_of(names[i], i)
            run.write_files(d, extra)
            run.write_files(d, {fn: src})
        for i in idxs:
            fn, _, _ = source_of(names[i], i)
            argv.append(fn)
        for i in idxs:
            argv += ["-o", "out%d.p" % i]
        for i in idxs:
            argv += ["-shareout", "out%d.h" % i]
        if bare_e:
            argv.append("-E")       # without a name (last argument): messages go to <source>.log, one per source
        r = run.run(argv, d, timeout=40, cpu=10)
        for i in idxs:
            outs[i] = run.read(d, "out%d.p" % i)
        if bare_e:
            for i in idxs:
                fn, _, _ = source_of(names[i], i)
                outs[("log", i)] = (run.read(d, fn.rsplit(".", 1)[0] + ".log") or b"<no log file>").decode("latin-1")
        return r, outs, argv


def execute(case):
    names = case["files"]
    classes = ["n%d" % len(names)] + ["failing-pred:" + n[1:] for n in names[:-1]
                                      if not isinstance(n, dict) and n.startswith("!")]
    if any(isinstance(n, dict) and n.get("tail") for n in names):
        classes += ["state-left-by-pred"] + sorted(set("tail:" + x.split()[0] for n in names if isinstance(n, dict)
                                                        for x in n.get("tail", [])))
    if any(isinstance(n, dict) and n.get("lit") for n in names):
        classes.append("literals-edited")
    if not compatible(names):
        return engine.discarded("include-name-clash", classes)
    key = "|".join(label(n) + (engine.digest(str(n))[:6] if isinstance(n, dict) else "") for n in names)
    idxs = list(range(len(names)))
    opts = case.get("opts") or []
    if opts:
        classes.append("opts:" + " ".join(opts))
        key = " ".join(opts) + "|" + key
    joint, jouts, jargv = run_set(names, idxs, opts)
    if joint.timed_out:
        return engine.inconclusive("timeout", classes)
    singles = []
    for i in idxs:
        r, o, _ = run_set(names, [i], opts)
        if r.timed_out:
            return engine.inconclusive("timeout", classes)
        singles.append((r, o[i], o.get(("log", i))))
    detail = dict(argv=jargv, status=joint.status, stderr=joint.err[-800:],
                  single_status=[s[0].status for s in singles])
    if joint.signal:
        return engine.bad("asl killed by signal %d in a multi-file run" % joint.signal, key, classes, **detail)
    if any(s[0].status == 3 for s in singles):
        return engine.discarded("fatal-single", classes)
    exp_status = max(s[0].status for s in singles)
    if joint.status != exp_status:
        return engine.bad("exit status %s of the joint run, %s from the single runs" % (joint.status, exp_status),
                          key, classes, **detail)
    for i in idxs:
        if jouts[i] != singles[i][1]:
            a, b = jouts[i], singles[i][1]
            what = ("missing in the joint run" if a is None else "only produced in the joint run" if b is None else
                    "differs (first difference at byte %d)" % next((k for k in range(min(len(a), len(b))) if a[k] != b[k]),
                                                                  min(len(a), len(b))))
            return engine.bad("code file of %s (position %d after %s) %s" % (label(names[i]), i,
                                                                             [label(x) for x in names[:i]], what),
                              key, classes, single_stderr=singles[i][0].err[-400:], **detail)
    if "-E" in opts:
        for i in idxs:
            a, b = jouts[("log", i)], singles[i][2]
            if a != b:
                return engine.bad("error log of %s (position %d, option -E without a name) differs: joint run %r, alone %r"
                                  % (label(names[i]), i, a[:160], b[:160]), key, classes, **detail)
    exp_err = "".join(s[0].err for s in singles)
    if joint.err != exp_err:
        ja, ea = joint.err.split("\n"), exp_err.split("\n")
        k = next((k for k in range(min(len(ja), len(ea))) if ja[k] != ea[k]), min(len(ja), len(ea)))
        return engine.bad("diagnostics differ: joint run %r, single runs %r" % (ja[k:k + 2], ea[k:k + 2]),
                          key, classes, **detail)
    return engine.ok(key, classes)


def show(case):
    return case["files"]


def fixed_cases(tier):
    pt = plain_tests()
    n = len(pt)
    out = []
    for i in range(n):
        j = (i * 7 + 3) % n
        if j == i:
            j = (j + 1) % n
        out.append(dict(files=[pt[i], pt[j]]))
    # the same program twice: whatever state the first assembly leaves (ASSUMEd registers, modes, tables) meets
    # exactly the program that set it
    for i in range(n):
        out.append(dict(files=[pt[i], pt[i]]))
    fk = sorted(FAILERS)
    for i in range(n):
        out.append(dict(files=["!" + fk[i % len(fk)], pt[(i * 5 + 1) % n]]))
    for i in range(0, n, 3):
        out.append(dict(files=[pt[i], "!" + fk[(i // 3) % len(fk)], pt[(i * 11 + 2) % n]]))
    # every mode-leaving predecessor in front of every golden test (cheap: ~3 asl runs of a few ms each)
    for mk in MODE_FAILERS:
        for t in pt:
            out.append(dict(files=["!" + mk, t]))
    # every probe after every other one (all ordered pairs, three assemblies of a few ms each) and after the
    # mode-leaving predecessors
    pk = sorted(PROBES)
    for i, a in enumerate(pk):
        for j, b in enumerate(pk):
            if a != b:
                out.append(dict(files=["?" + a, "?" + b]))
    for mk in MODE_FAILERS + VOL_FAILERS:
        for b in pk:
            out.append(dict(files=["!" + mk, "?" + b]))
    # final range errors in front of every probe, plain and with -Y (errors of a pass that is repeated are dropped)
    for fk_ in FIN_FAILERS:
        for b in pk:
            for o in ([], ["-Y"]):
                out.append(dict(files=["!" + fk_, "?" + b], opts=o))
    # every option set with a few pairs of each kind
    for oi, o in enumerate(OPTSETS[1:]):
        for j in range(6):
            t1, t2 = pt[(oi * 13 + j * 29) % n], pt[(oi * 7 + j * 31 + 5) % n]
            out.append(dict(files=[t1, t2], opts=o))
            out.append(dict(files=["!" + fk[(oi + j) % len(fk)], t2], opts=o))
            out.append(dict(files=["?" + pk[(oi * 5 + j * 11) % len(pk)], "?" + pk[(oi * 3 + j * 17 + 1) % len(pk)]], opts=o))
    for vk in VOL_FAILERS:
        for i, t in enumerate(pt):
            if tier != "quick" or i % 4 == engine.seed_from_env() % 4:
                out.append(dict(files=["!" + vk, t]))
    return out


KNOWN = {}
