"""C06  P2HEX output decodes, with valid checksums, to the code file's contents.

Generated domain: synthetic code files (vf.hexgen, written by the independent writer vf.pfile, not
by asl) x target format x option set.  Oracle: the independent decoders of vf.hexfmt (public format
definitions: every count / checksum field is verified while decoding) and a reference model of the
selected records under window (-r), file offset, relative addressing (-a), relocation (-R), byte
lanes (-m), written from doc/utility-programs.md.  Both directions: the multiset of decoded
(address, byte) pairs must equal the multiset of expected pairs, and the resulting memory maps
(later records override earlier ones) must be equal.
"""
import re
from vf import engine, pfile, run, hexfmt, hexgen
from vf.gen import composite

ID = "C06"
RULE = ("case = 1-3 generated code files (1-5 records each around 0 / 64 KiB / 1 MiB / 16 MiB / 2 GiB, gaps, "
        "adjacency, overlaps, lengths 0 .. several lines .. 64 KiB, granularity 1/2/4, CPU ids of all default-format "
        "families, several segments, entry record, (offset) suffix) or one of the 201 golden programs assembled by the "
        "asl under test (12 % of the cases) x format (-F Moto|Intel|Intel16|Intel32|MOS|Tek|Atmel|C or the default "
        "chosen per CPU family) x options (-r, -R, -a, -l 2..254, -M, +5, -i, -m 0..3, -e, -avrlen, -segment, -f, "
        "-cformat; on the command line or in P2HEXCMD; target with or without extension; 'p2hex name' form); "
        "non-trivial = a group crossing a 64 KiB / 1 MiB / 16 MiB boundary of the format's address field, or more "
        "than one data line per group, or a record clipped by the window, or a non-default option; distinct by "
        "(format, granularity, boundary classes, option vector, line class)")
ASSUMPTIONS = [
    "code-file words are little endian (doc/file-formats.md); -m 0 keeps that order, -m 1 stores high byte first, "
    "-m 2 / -m 3 keep the low / high byte of every word at the word address (doc/utility-programs.md)",
    "-m is documented for the Intel formats of word-granular (PIC) files only: -m 1..3 are generated only for "
    "granularity-2 files with the 8-bit Intel format; -m 1 keeps the byte-scaled address and count fields of -m 0",
    "granularity > 1 and Intel formats: the address field counts bytes (unit address x granularity), as the manual "
    "states for the default INHX8M; other formats: the address field counts the CPU's addressable units "
    "(one unit = granularity bytes, file order), the only reading under which consecutive lines do not overlap",
    "Atmel generic with granularity-1 records (-F Atmel forced, AVR 8-bit code segment): one line per two bytes, "
    "address of the low byte, an odd last byte is zero-extended; Atmel is not generated for granularity 4",
    "-l smaller than the granularity is not generated (a line must hold one addressable unit)",
    "default format: only CPU ids whose family is unambiguous in the manual's sentence (Motorola/Hitachi/TLCS-900 -> "
    "S-records, 65xx/MELPS-7700 -> MOS, AVR -> Atmel, others -> some Intel variant, detected from the record types "
    "02/04 present); 2650, XCore, TLCS-9000, MELPS-4500 and the TI DSK families are not generated; one run "
    "selects CPUs of one default format only (the manual calls mixed output inadvisable)",
    "S-record type: not narrower than the line address needs, not narrower than -M, not wider than the last address "
    "of the group needs; S5 (when not disabled by +5) precedes each group and counts the data records up to the "
    "next S5 / terminator (manual: 'number of data records to follow'); terminator S9/S8/S7 matches the widest "
    "data record type, carries the entry address or 0",
    "Tektronix: a termination record is not required (the manual does not mention one); if present it must be valid",
    "entry address: asserted for S-records (if it fits the terminator's address field), Intel 8-bit with -i 0 (address "
    "field of the end record, Intellec convention), Intel16 (type 03, CS*16+IP) and Intel32 (type 05); with -i 1/2 the "
    "last line is the literal of the manual's table",
    "address overflow: formats with a limited address field (Intel 64 KiB bytes, MOS/Tek 64 Ki units, Atmel "
    "2^(8*avrlen) units, Intel16 above $10FFEF) must warn iff a written address exceeds the field; the decoded map is "
    "then compared modulo the field width ('truncated'); Intel16 between $100000 and $10FFEF: no assertion on the warning",
    "all final addresses stay below 2^32 (no wrap-around); cases that would wrap are discarded and counted",
    "overlap warnings (C05) and the undocumented options -s, -k, -d, -q are not part of this check",
    "size report on stdout '(<n> Bytes)' must state the number of code bytes written for each source file",
    "second witnesses (skipped and not counted when the tool is missing): GNU objdump -b srec / -b ihex must read the "
    "same bytes and start address as vf.hexfmt for byte-granular S-record output and for Intel output with -i 0; the C "
    "output must compile with gcc -std=c99 -pedantic-errors or g++ -std=c++11 -pedantic-errors and the compiled "
    "descriptor table must hold the parsed blocks",
    "corpus cases: the code file is the one asl wrote, read by the independent reader vf.pfile (strict); records of "
    "one CPU id are selected with -f when the program holds several",
    "cases whose selected records differ in granularity, or whose files carry different entry addresses without -e, "
    "are discarded (the manual defines neither)",
]

FORMATS = ["Moto", "Intel", "Intel16", "Intel32", "MOS", "Tek", "Atmel", "C"]
SEGN = {1: "CODE", 2: "DATA", 3: "IDATA", 4: "XDATA", 5: "YDATA", 6: "BITDATA", 7: "IO", 8: "REG", 9: "ROMDATA"}
SEGID = {v: k for k, v in SEGN.items()}

# default format per CPU family, from the manual's sentence and the family table of doc/file-formats.md
MOTO_G1 = [0x01, 0x03, 0x04, 0x05, 0x61, 0x62, 0x63, 0x64, 0x65, 0x66, 0x45, 0x5e, 0x68, 0x69, 0x40, 0x6c, 0x50, 0x52]
MOTO_G4 = [0x09]
MOS_G1 = [0x11, 0x19]
ATMEL_G2 = [0x3b]
ATMEL_G1 = [0x3d]
# "Intel Hex for the rest"; the number is only a hint for the generator (where to aim addresses)
REST = {1: {8: [0x51, 0x31, 0x41, 0x21, 0x79, 0x3f, 0x3e, 0x4a, 0x53, 0x73, 0x33, 0x39, 0x48, 0x02, 0x07, 0x08, 0x0a, 0x14,
                0x15, 0x16, 0x25, 0x27, 0x32, 0x38, 0x3a, 0x43, 0x44, 0x49, 0x4d, 0x4e, 0x4f, 0x54, 0x55, 0x57, 0x58, 0x59,
                0x5a, 0x5b, 0x5c, 0x5d, 0x5f, 0x67, 0x6a, 0x6b, 0x6e, 0x6f, 0x78, 0x7a, 0x7b, 0x7c, 0x7e, 0x7f],
            16: [0x42, 0x3c, 0x4c, 0x60, 0x46], 32: [0x13, 0x2a, 0x29, 0x47]},
        2: {8: [0x70, 0x71, 0x72, 0x36, 0x6d, 0x1a, 0x1b, 0x1c, 0x1d]},
        4: {8: [0x7d], 32: [0x76]}}
ANY_G = {1: MOTO_G1 + MOS_G1 + ATMEL_G1 + REST[1][8] + REST[1][16] + REST[1][32], 2: REST[2][8] + [0x3b],
         4: REST[4][8] + REST[4][32] + MOTO_G4}


def family_of(cpu):
    if cpu in MOTO_G1 or cpu in MOTO_G4:
        return "Moto"
    if cpu in MOS_G1:
        return "MOS"
    if cpu in ATMEL_G1 or cpu in ATMEL_G2:
        return "Atmel"
    for g in REST.values():
        for ids in g.values():
            if cpu in ids:
                return "IntelAny"
    return None


def budget(tier):
    return dict(examples=7000 if tier == "quick" else 200000, shards=16)


# ---------------------------------------------------------------- generator

def field_limit(fmt, gran, m, avrlen):
    """largest unit address (final, as written) the format can hold"""
    if fmt == "Intel":
        return 0xffff if m in (2, 3) else 0x10000 // gran - 1
    if fmt == "Intel16":
        return 0x100000 // gran - 1
    if fmt == "Intel32":
        return (1 << 32) // gran - 1
    if fmt in ("MOS", "Tek"):
        return 0xffff
    if fmt == "Atmel":
        return (1 << (8 * avrlen)) - 1
    return 0xffffffff


LINE_CHOICES = [(6, None), (3, 2), (1, 3), (2, 4), (1, 5), (1, 8), (1, 15), (2, 16), (1, 17), (2, 32), (1, 33), (1, 64),
                (1, 128), (1, 252), (1, 253), (2, 254)]


def opt(d, p):
    """True with probability p; shrinks towards False (an option that is not given)"""
    return d.int(0, 999) >= 1000 - int(p * 1000)


@composite
def strategy_(d, tier):
    thorough = tier == "thorough"
    fsel = d.weighted([(5, "default"), (4, "Moto"), (4, "Intel"), (3, "Intel16"), (4, "Intel32"), (3, "MOS"), (3, "Tek"),
                       (2, "Atmel"), (3, "C")])
    gran = d.weighted([(7, 1), (3, 2), (1, 4)])
    pic = opt(d, 0.12)          # the documented PIC case: word-granular file, Intel format, -m
    if pic:
        gran = 2
        fsel = d.choice(["default", "Intel"])
    if fsel == "Atmel" and gran == 4:
        gran = 2
    o = {}
    hint = 8
    if fsel == "default":
        fam = "rest" if pic else d.weighted([(3, "Moto"), (2, "MOS"), (2, "Atmel"), (4, "rest")])
        if fam == "Moto":
            gran = 4 if gran == 4 else 1
            cpus, eff = (MOTO_G4 if gran == 4 else MOTO_G1), "Moto"
        elif fam == "MOS":
            gran, cpus, eff = 1, MOS_G1, "MOS"
        elif fam == "Atmel":
            gran = 2 if gran != 1 else 1
            cpus, eff = (ATMEL_G2 if gran == 2 else ATMEL_G1), "Atmel"
        else:
            hint = 8 if pic else d.choice(sorted(REST[gran]))
            cpus, eff = REST[gran][hint], {8: "Intel", 16: "Intel16", 32: "Intel32"}[hint]
    else:
        o["F"] = fsel
        eff = fsel
        cpus = ANY_G[gran]
    cpus = d.shuffle(cpus)[:d.int(1, 3)]
    m = 0
    if gran == 2 and eff == "Intel" and (pic or opt(d, 0.6)):
        m = d.int(0, 3)
        o["m"] = m
    avrlen = 3
    if eff == "Atmel" and opt(d, 0.5):
        avrlen = d.int(2, 3)
        o["avrlen"] = avrlen
    lopt = d.weighted(LINE_CHOICES)
    if lopt is not None:
        lopt = max(lopt, gran)
        o["l"] = lopt
    leff = 16 if lopt is None else (lopt - (lopt & 1) if lopt > 1 else lopt)
    line_units = max(1, (2 if eff == "Atmel" else leff) // gran)
    lim = field_limit(eff, gran, m, avrlen)

    # transformation: final = in + fileoffset - (S if -a) + R
    rel = opt(d, 0.25)
    R = 0
    if opt(d, 0.3):
        R = d.weighted([(3, d.int(1, 0x200)), (2, 0x1000), (2, 0x10000 // gran), (1, 0x100000 // gran), (1, 0xff0000),
                        (1, 0x7fff0000)])
        R = min(R, lim)
        o["R"] = R
    if rel:
        o["a"] = True
    S0 = 0
    if rel:
        S0 = d.weighted([(3, 0), (2, 0x1000), (2, 0x12340), (1, 0x1000000), (1, 0xfedc0000)])

    # boundaries of the final address field (unit addresses)
    scale = gran if eff in ("Intel", "Intel16", "Intel32") and m in (0, 1) else 1
    cands = [(4, (0, "at")), (2, (0x100, "at")), (2, (0x8000 // scale, "cross"))]
    for w, b in ((6, 0x10000), (4, 0x100000), (4, 0x1000000), (1, 0x80000000), (2, 0x20000), (1, 0x10ff00)):
        cands.append((w, (b // scale, "cross")))
    cands.append((2, (lim + 1, "cross")))
    overflow_ok = opt(d, 0.12)
    fin = []
    for _ in range(d.int(1, 3)):
        a, k = d.weighted(cands)
        if a > lim + 1 and not overflow_ok:
            a, k = d.weighted(cands[:3])
        if a == lim + 1 and not overflow_ok:
            k = "below"
        fin.append((a, k))
    anchors = []
    for a, k in fin:
        ain = a - R + S0
        if ain < 0:
            ain = S0
        if k == "below":
            anchors.append((max(0, ain - d.int(1, 3 * line_units + 2)), "end"))
        else:
            anchors.append((ain, k))
    in_limit = 0xffffffff if overflow_ok else min(0xffffffff, lim - R + S0)

    segs = d.weighted([(10, (1,)), (4, (1, 2)), (2, (1, 2, 4)), (1, (1, 7)), (1, (1, 3, 9)), (1, (2, 5, 6, 8))])
    sel_seg = 1
    if len(segs) > 1 and opt(d, 0.5):
        sel_seg = d.choice(segs)
        if sel_seg != 1 or opt(d, 0.3):
            o["segment"] = SEGN[sel_seg]
    nfiles = d.weighted([(6, 1), (3, 2), (1, 3)])
    counter = [d.int(0, 300)]
    files = []
    emax = d.weighted([(6, 0xffff), (1, 0xfffff), (1, 0xffffff), (1, 0xffffffff)])
    for i in range(nfiles):
        off = None
        if opt(d, 0.15):
            off = d.weighted([(3, d.int(1, 0x200)), (1, 0x10000), (1, 0x8000)])
        sub = off or 0
        anc = []
        for a, k in anchors:
            if k == "end":
                anc.append((max(0, a - sub), "at"))
            else:
                anc.append((max(0, a - sub), k))
        have_entry = any(r["kind"] == "entry" for f_ in files for r in f_["recs"])
        f = hexgen.gen_file(d, "f%d" % i, gran=gran, cpus=cpus, segs=segs, anchors=anc, line=line_units,
                            counter=counter, entry_max=emax, offset=off, big_ok=thorough and opt(d, 0.2),
                            entry_p=0.0 if have_entry else 0.3,
                            first_at=(max(0, S0 - sub) if (rel and i == 0 and opt(d, 0.7)) else None),
                            limit=max(0, in_limit - sub))
        files.append(f)

    # window and the options that are independent of the files
    addrs = [(r["addr"] + (f["offset"] or 0), r["n"]) for f in files for r in f["recs"]
             if r["kind"] == "data" and r["seg"] == sel_seg and r["n"] > 0]
    if opt(d, 0.25):
        allc = sorted({r["cpu"] for f in files for r in f["recs"] if r["kind"] == "data"})
        pick = d.subset(allc, 0.6) or [allc[0]]
        if opt(d, 0.2):
            pick.append(0x7f)
        o["f"] = pick
    common_opts(d, o, eff, gran, addrs, S0 if rel else None)
    return dict(files=files, opts=o)


# ---------------------------------------------------------------- code files written by asl itself (golden corpus)

CORPUS = None
CORPUS_MAX = 16384


def load_corpus():
    """assemble the 201 golden programs once; [(name, raw code file, [(cpu, seg, gran, addr, units)])]"""
    global CORPUS
    if CORPUS is not None:
        return CORPUS
    from vf import corpus, asl
    out = []
    for n in corpus.names():
        c = corpus.load(n)
        files = {n + ".asm": c["src"]}
        files.update(c["extra"])
        r = asl.assemble(files, main=n + ".asm", args=list(c["flags"]) + ["-i", asl.INCLUDE_DIR])
        if r.p is None or r.status != 0:
            continue
        try:
            recs = pfile.parse(r.p, strict=True)
        except pfile.FormatError:
            continue
        summ = [(x["cpu"], x["seg"], x["gran"], x["addr"], len(x["data"]) // x["gran"]) for x in recs
                if x["kind"] == "data" and len(x["data"]) >= x["gran"]]
        if summ:
            out.append((n, r.p, summ))
    CORPUS = out
    return out


def prepare(tier):
    load_corpus()


def common_opts(d, o, eff, gran, addrs, rel_start=None):
    """options that do not depend on how the files were made; addrs = [(addr, units)] of the selected records"""
    if addrs and opt(d, 0.4):
        a0, n0 = d.choice(addrs)
        a1, n1 = d.choice(addrs)
        lo = a0 + d.int(-4, n0 - 1 if opt(d, 0.6) else 4)
        hi = a1 + d.int(0, n1 + 4)
        if rel_start is not None and opt(d, 0.5):
            lo = rel_start
        lo = max(0, min(lo, 0xffffffff))
        hi = max(lo, min(hi, 0xffffffff))
        mode = d.weighted([(3, "ee"), (2, "ae"), (2, "ea"), (1, "aa")])
        o["r"] = [lo if mode[0] == "e" else None, hi if mode[1] == "e" else None]
    if opt(d, 0.25):
        o["M"] = d.int(1, 3)
    if opt(d, 0.25):
        o["no5"] = True
    if opt(d, 0.3):
        o["i"] = d.int(0, 2)
    if opt(d, 0.3):
        o["e"] = d.weighted([(8, d.int(0, 0xffff)), (1, d.int(0x10000, 0xfffff)), (1, d.int(0x100000, 0xffffffff))])
    if "avrlen" not in o and opt(d, 0.05):
        o["avrlen"] = d.int(2, 3)
    if eff == "C" and opt(d, 0.4):
        letters = [d.choice("dD")] + [d.choice(p) for p in ("sS", "lL", "eE") if opt(d, 0.75)]
        o["cformat"] = "".join(d.shuffle(letters))
    o["sty"] = [d.choice(["dec", "dollar", "0x", "h"]) for _ in range(6)]
    o["order"] = d.bool()
    o["single"] = opt(d, 0.3)
    o["lc"] = opt(d, 0.3)
    if opt(d, 0.1):
        o["env"] = True           # options through the environment variable P2HEXCMD
    if opt(d, 0.1):
        o["ext"] = d.choice([".hex", ".h", ".s19", ".mos", ".HEX"])


@composite
def corpus_case_(d, tier):
    cands = [c for c in load_corpus() if len(c[1]) <= CORPUS_MAX]
    name, raw, summ = d.choice(cands)
    cpu = d.choice(sorted({x[0] for x in summ}))
    sel = [x for x in summ if x[0] == cpu and x[1] == 1]
    gran = sel[0][2] if sel else 1
    o = {}
    fam = family_of(cpu)
    if fam is None or opt(d, 0.55):
        o["F"] = d.choice([f for f in FORMATS if not (f == "Atmel" and gran == 4)])
        eff = o["F"]
    else:
        eff = "Intel" if fam == "IntelAny" else fam
    if len({x[0] for x in summ}) > 1 or opt(d, 0.2):
        o["f"] = [cpu]
    if gran == 2 and eff == "Intel" and opt(d, 0.5):
        o["m"] = d.int(0, 3)
    if eff == "Atmel" and opt(d, 0.5):
        o["avrlen"] = d.int(2, 3)
    lopt = d.weighted(LINE_CHOICES)
    if lopt is not None:
        o["l"] = max(lopt, gran)
    if opt(d, 0.3):
        o["R"] = d.weighted([(3, d.int(1, 0x200)), (2, 0x1000), (2, 0x10000 // gran), (1, 0x100000 // gran), (1, 0xff0000)])
    if opt(d, 0.25):
        o["a"] = True
    off = None
    if opt(d, 0.15):
        off = d.weighted([(3, d.int(1, 0x200)), (1, 0x10000), (1, 0x8000)])
    common_opts(d, o, eff, gran, [(x[3] + (off or 0), x[4]) for x in sel])
    return dict(files=[dict(name="f0", offset=off, corpus=name, raw=engine.b64(raw))], opts=o)


@composite
def mico8_case_(d, tier):
    """Lattice Mico8 prom_init (-F Mico8): one 18 bit instruction word per line, five hex digits, no addresses - decided
    for code files whose records follow each other without a gap from the start of the window"""
    n = d.int(1, 40)
    words = [d.weighted([(3, d.int(0, 0x3ffff)), (2, d.choice([0x3ffff, 0x1ff12, 0x2ff00, 0xff, 0xff00, 0x300ff, 0])),
                         (1, 0x10000 | d.int(0, 255) << 8 | 0xff)]) for _ in range(n)]
    cuts = sorted(set(d.int(1, n) for _ in range(d.int(0, 2))) - {n})
    return dict(kind="mico8", words=words, cuts=cuts, base=d.choice([0, 0, 16, 0x100]), cpu=0x5c,
                explicit_r=d.bool(0.5))


def execute_mico8(case):
    from vf import pfile
    words, base = case["words"], case["base"]
    recs, a = [], base
    for lo, hi in zip([0] + case["cuts"], case["cuts"] + [len(words)]):
        data = b"".join(w.to_bytes(4, "big") for w in words[lo:hi])      # (as asl stores Mico8 words: t_mico8)
        recs.append(pfile.data(case["cpu"], a, data, 1, 4, "long"))
        a += hi - lo
    classes = ["F:Mico8", "mico8-records%d" % len(recs)]
    key = "mico8|%d|%s" % (len(recs), ",".join(sorted(set("ff-middle" if (w >> 8) & 0xff == 0xff else "plain" for w in words))))
    argv = ["p2hex", "x.p", "x.hex", "-F", "Mico8"]
    if case["explicit_r"]:
        argv += ["-r", "%d-%d" % (base, base + len(words) - 1)]
    with run.Work("c06m") as d:
        run.write_files(d, {"x.p": pfile.build(recs)})
        r = run.run(argv, d)
        out = run.read(d, "x.hex")
    detail = dict(argv=argv, status=r.status, stderr=r.err[-300:], words=["%05X" % w for w in words[:60]])
    if r.timed_out:
        return engine.inconclusive("timeout", classes)
    if r.signal or r.status != 0 or out is None:
        return engine.bad("p2hex fails on a well-formed Mico8 code file: status %s signal %s" % (r.status, r.signal),
                          key, classes, **detail)
    got = out.decode("latin-1").split()
    want = ["%05X" % (w & 0xfffff) for w in words]
    if [g.upper() for g in got] != want:
        i = next((i for i in range(min(len(got), len(want))) if got[i].upper() != want[i]), min(len(got), len(want)))
        return engine.bad("Mico8 prom_init line %d is %s, the code file holds the word %s (%d lines for %d words)"
                          % (i + 1, got[i] if i < len(got) else "<missing>", want[i] if i < len(want) else "<none>",
                             len(got), len(want)), key, classes, **detail)
    return engine.ok(key, classes)


def strategy(tier):
    from hypothesis import strategies as st
    return st.integers(0, 99).flatmap(lambda k: corpus_case_(tier) if k < 12 else
                                      (mico8_case_(tier) if k < 16 else strategy_(tier)))


# ---------------------------------------------------------------- reference model

def leff_of(o, gran=1):
    l = o.get("l")
    if l is None:
        return 16
    return l - (l & 1) if l > 1 else l      # manual: odd values are rounded down to an even count


def frecs(f):
    """records of a case file: generated description, or the raw bytes of an assembled file read by vf.pfile"""
    if "raw" in f:
        out = []
        for r in pfile.parse(engine.unb64(f["raw"]), strict=True):
            if r["kind"] == "data":
                out.append(dict(kind="data", cpu=r["cpu"], seg=r["seg"], gran=r["gran"], addr=r["addr"],
                                n=len(r["data"]) // r["gran"], data=r["data"]))
            elif r["kind"] == "entry":
                out.append(r)
        return out
    return [dict(r, data=hexgen.payload(r)) if r["kind"] == "data" else r for r in f["recs"]]


def file_image(f):
    return engine.unb64(f["raw"]) if "raw" in f else hexgen.file_bytes(f)


def model(case):
    """groups of bytes P2HEX has to write, in processing order"""
    o = case["opts"]
    seg = SEGID[o.get("segment", "CODE")]
    sel = []
    entry = o.get("e")
    fentries = []
    for fi, f in enumerate(case["files"]):
        off = f["offset"] or 0
        for r in frecs(f):
            if r["kind"] == "entry":
                fentries.append(r["addr"])
                continue
            if r["seg"] != seg or ("f" in o and r["cpu"] not in o["f"]):
                continue
            if r["n"] == 0:
                continue
            a = r["addr"] + off
            sel.append(dict(a=a, n=r["n"], g=r["gran"], cpu=r["cpu"], data=r["data"], fi=fi))
    if entry is None and fentries:
        if len(set(fentries)) > 1:
            return dict(status="discard", why="entry records of several files differ")
        entry = fentries[0]
    if len({s["g"] for s in sel}) > 1:
        return dict(status="discard", why="mixed granularity")
    if any(s["a"] + s["n"] > 1 << 32 for s in sel):
        return dict(status="discard", why="input address wraps")
    start, stop = o.get("r", [None, None])
    explicit = start is not None and stop is not None
    if start is None:
        start = min([s["a"] for s in sel], default=0xffffffff)
    if stop is None:
        stop = max([s["a"] + s["n"] - 1 for s in sel], default=0)
    if start > stop:
        return dict(status="reject" if explicit else "discard", why="empty window")
    groups = []
    clipped = False
    for s in sel:
        es, ee = max(s["a"], start), min(s["a"] + s["n"] - 1, stop)
        if ee < es:
            clipped = True
            continue
        if es != s["a"] or ee != s["a"] + s["n"] - 1:
            clipped = True
        A = es - (start if o.get("a") else 0) + o.get("R", 0)
        g = s["g"]
        n = ee - es + 1
        if A + n > 1 << 32:
            return dict(status="discard", why="output address wraps")
        groups.append(dict(A=A, n=n, g=g, cpu=s["cpu"], fi=s["fi"],
                           data=s["data"][(es - s["a"]) * g:(ee + 1 - s["a"]) * g]))
    return dict(status=0, groups=groups, entry=entry, start=start, stop=stop, clipped=clipped, nsel=len(sel))


def effective_format(case, mdl):
    """(format name | 'IntelAny' | None when nothing is written, problem)"""
    f = case["opts"].get("F")
    if f:
        return f
    fams = {family_of(g["cpu"]) for g in mdl["groups"]}
    if not fams:
        return None
    if len(fams) != 1 or None in fams:
        return "mixed"
    return fams.pop()


class Violation(Exception):
    pass


def need_type(addr):
    return 3 if addr >> 24 else 2 if addr >> 16 else 1


def unit_pairs(A, g, data):
    return [((A + i // g, i % g), b) for i, b in enumerate(data)]


def expected_pairs(groups, keying, m=0):
    out = []
    for gr in groups:
        A, g, data = gr["A"], gr["g"], gr["data"]
        if keying == "unit":
            out += unit_pairs(A, g, data)
        elif keying == "byte":
            if m == 1:
                data = bytes(data[(i // g) * g + (g - 1 - i % g)] for i in range(len(data)))
            out += [(A * g + i, b) for i, b in enumerate(data)]
        elif keying == "lane":
            out += [(A + j, data[j * g + (m - 2)]) for j in range(gr["n"])]
    return out


def compare_pairs(dec, exp, modulo=None, what="address"):
    """both directions, multiset and final map"""
    if modulo:
        def red(k):
            return (k[0] % modulo, k[1]) if isinstance(k, tuple) else k % modulo
        dec = [(red(k), b) for k, b in dec]
        exp = [(red(k), b) for k, b in exp]
    sd, se = sorted(dec), sorted(exp)
    if sd != se:
        from collections import Counter
        cd, ce = Counter(dec), Counter(exp)
        extra = sorted((cd - ce).elements())[:3]
        missing = sorted((ce - cd).elements())[:3]

        def fmt(p):
            k, b = p
            ks = "%X.%d" % k if isinstance(k, tuple) else "%X" % k
            return "%s=%02X" % (ks, b)
        raise Violation("decoded bytes differ from the selected records: %d decoded, %d expected; decoded but not "
                        "expected: %s; expected but not decoded: %s"
                        % (len(dec), len(exp), ",".join(map(fmt, extra)) or "-", ",".join(map(fmt, missing)) or "-"))
    if dict(dec) != dict(exp):
        raise Violation("memory map after loading differs (order of overlapping records)")


def fmt_ok_entry(entry, bits):
    return entry is not None and entry < (1 << bits)


# ---------------------------------------------------------------- GNU objdump as a second, unrelated decoder

OBJDUMP = "/usr/bin/objdump"
_SEC_LINE = re.compile(r"^ ([0-9a-f]+) ((?:[0-9a-f]{2,8} ?){1,4})")


def objdump_pairs(text, bfdname):
    """(list of (byte address, byte) in file order, start address) as GNU BFD reads the file; None if unavailable"""
    import os
    if not os.path.exists(OBJDUMP):
        return None
    with run.Work("c06o") as d:
        run.write_files(d, {"x.hex": text})
        r = run.run([OBJDUMP, "-f", "-s", "-b", bfdname, "x.hex"], d, timeout=60, cpu=30)
    if r.timed_out:
        return None
    if r.status != 0:
        raise Violation("GNU objdump -b %s rejects the file: %s" % (bfdname, r.err.strip()[:200]))
    pairs = []
    start = None
    for l in r.out.split("\n"):
        if l.startswith("start address "):
            start = int(l.split()[2], 16)
        m = _SEC_LINE.match(l)
        if m and l.startswith(" ") and not l.startswith("  "):
            a = int(m.group(1), 16)
            hx = l[len(m.group(1)) + 2:len(m.group(1)) + 2 + 35].replace(" ", "")
            for i in range(0, len(hx), 2):
                pairs.append((a + i // 2, int(hx[i:i + 2], 16)))
    return pairs, start


def second_witness(text, bfdname, dec_bytes, entry_expected, info):
    """dec_bytes: [(byte address, byte)] from vf.hexfmt.  Both decoders must read the same bytes."""
    res = objdump_pairs(text, bfdname)
    if res is None:
        return
    pairs, start = res
    info["cls"].append("objdump")
    if sorted(pairs) != sorted(dec_bytes):
        from collections import Counter
        a, b = Counter(pairs), Counter(dec_bytes)
        raise Violation("GNU objdump reads other bytes than vf.hexfmt: only objdump %s, only hexfmt %s"
                        % (sorted((a - b).elements())[:3], sorted((b - a).elements())[:3]))
    if entry_expected is not None and start != entry_expected:
        raise Violation("GNU objdump reads start address %s, entry address is %X"
                        % ("%X" % start if start is not None else None, entry_expected))


# ---------------------------------------------------------------- per-format judges
# each returns (line class info dict); raises Violation / hexfmt.HexError

def judge_moto(text, mdl, o, info):
    recs = hexfmt.srec(text)
    groups = mdl["groups"]
    leff = info["leff"]
    M = o.get("M", 1)
    if not recs:
        if groups:
            raise Violation("no output although records are selected")
        return
    if recs[-1]["t"] not in (7, 8, 9):
        raise Violation("last line is not a termination record S7/S8/S9")
    term = recs[-1]
    body = recs[:-1]
    datal = [r for r in body if r["t"] in (1, 2, 3)]
    if any(r["t"] in (7, 8, 9) for r in body):
        raise Violation("termination record before the last line")
    if any(r["t"] == 6 for r in body):
        raise Violation("unexpected S6 record")
    # S5 bookkeeping
    if o.get("no5"):
        if any(r["t"] == 5 for r in body):
            raise Violation("S5 record written although suppressed with +5")
    else:
        remaining = None
        for r in body:
            if r["t"] == 5:
                if remaining not in (None, 0):
                    raise Violation("S5 at line %d although %d data records of the previous count are outstanding"
                                    % (r["line"], remaining))
                remaining = r["addr"]
                cur_type = None
            elif r["t"] in (1, 2, 3):
                if not remaining:
                    raise Violation("data record at line %d not covered by an S5 count" % r["line"])
                remaining -= 1
                if cur_type is None:
                    cur_type = r["t"]
                elif cur_type != r["t"]:
                    raise Violation("records of one group differ in type (line %d)" % r["line"])
        if remaining:
            raise Violation("last S5 announces %d more data records than follow" % remaining)
    # type bounds
    ends = [(g["A"], g["A"] + g["n"] - 1) for g in groups]
    maxt = 0
    for r in datal:
        if len(r["data"]) > leff:
            raise Violation("data line %d carries %d bytes, more than -l %d" % (r["line"], len(r["data"]), leff))
        lo = max(need_type(r["addr"]), M)
        if r["t"] < M:
            raise Violation("S%d record at line %d although -M %d" % (r["t"], r["line"], M))
        his = [max(need_type(e), M) for s, e in ends if s <= r["addr"] <= e]
        if his and not (lo <= r["t"] <= max(his)):
            raise Violation("S%d record at line %d for address %X of a group ending at %X (minimum type %d)"
                            % (r["t"], r["line"], r["addr"], max(e for s, e in ends if s <= r["addr"] <= e), M))
        maxt = max(maxt, r["t"])
    if datal and term["t"] != 10 - maxt:
        raise Violation("terminator S%d does not match the widest data record type S%d" % (term["t"], maxt))
    entry = mdl["entry"]
    if entry is None:
        if term["addr"] != 0:
            raise Violation("no entry address given but terminator carries %X" % term["addr"])
    elif entry < (1 << (8 * term["alen"])):
        if term["addr"] != entry:
            raise Violation("terminator carries %X, entry address is %X" % (term["addr"], entry))
        info["cls"].append("entry-checked")
    else:
        info["cls"].append("entry-too-wide")
    dec = []
    for r in datal:
        g = info["gran"]
        if len(r["data"]) % g:
            raise Violation("line %d holds %d bytes, not a multiple of the granularity %d" % (r["line"], len(r["data"]), g))
        dec += unit_pairs(r["addr"], g, r["data"])
    compare_pairs(dec, expected_pairs(groups, "unit"))
    info["lines"] = len(datal)
    info["types"] = sorted({r["t"] for r in datal})
    if info["gran"] == 1 and datal:
        second_witness(text, "srec", [(k[0], b) for k, b in dec],
                       0 if entry is None else entry if entry < (1 << (8 * term["alen"])) else None, info)


def final_span(groups, scale):
    """largest final address written, in the units of the address field"""
    return max([(g["A"] + g["n"] - 1) * (g["g"] if scale else 1) + ((g["g"] - 1) if scale else 0) for g in groups],
               default=0)


def judge_intel(text, mdl, o, info, variant):
    """variant 8 / 16 / 32 or None = detect"""
    groups = mdl["groups"]
    imode = o.get("i", 0)
    m = o.get("m", 0)
    leff = info["leff"]
    recs = hexfmt.intel(text, allow_no_checksum_eof=(imode == 1))
    if not recs:
        if groups:
            raise Violation("no output although records are selected")
        return
    if variant is None:
        has2 = any(r["t"] in (2, 3) for r in recs)
        has4 = any(r["t"] in (4, 5) for r in recs)
        if has2 and has4:
            raise Violation("segment (02/03) and linear (04/05) records mixed in one file")
        variant = 16 if has2 else 32 if has4 else 8
    info["variant"] = variant
    allowed = {8: (0, 1), 16: (0, 1, 2, 3), 32: (0, 1, 4, 5)}[variant]
    for r in recs:
        if r["t"] not in allowed:
            raise Violation("record type %02X at line %d is not part of the %d-bit Intel format" % (r["t"], r["line"], variant))
    last = recs[-1]
    lines = text.decode("latin-1").split("\n")
    lastline = lines[-2] if len(lines) >= 2 else ""
    entry = mdl["entry"]
    if imode == 0:
        if last["t"] != 1:
            raise Violation("last line is not an end-of-file record")
        want = entry & 0xffff if (variant == 8 and entry is not None and entry <= 0xffff) else 0
        if variant == 8 and entry is not None and entry > 0xffff:
            info["cls"].append("entry-too-wide")
        elif last["addr"] != want:
            raise Violation("end-of-file record carries address %04X, expected %04X" % (last["addr"], want))
        elif variant == 8 and entry is not None:
            info["cls"].append("entry-checked")
    elif imode == 1:
        if lastline != ":00000001":
            raise Violation("last line %r, -i 1 documents ':00000001'" % lastline)
    else:
        if lastline != ":0000000000":
            raise Violation("last line %r, -i 2 documents ':0000000000'" % lastline)
    body = recs[:-1]
    if any(r["t"] == 1 for r in body):
        raise Violation("end-of-file record before the last line")
    starts = [r for r in body if r["t"] in (3, 5)]
    if variant == 8 or entry is None:
        if starts:
            raise Violation("start address record although %s" % ("the 8-bit format has none" if variant == 8 else "no entry address is known"))
    else:
        if len(starts) != 1:
            raise Violation("%d start address records, entry address %X is known" % (len(starts), entry))
        s = starts[0]
        if variant == 16:
            cs, ip = int.from_bytes(s["data"][:2], "big"), int.from_bytes(s["data"][2:], "big")
            if entry <= 0xfffff:
                if cs * 16 + ip != entry:
                    raise Violation("start segment record %04X:%04X is not the entry address %X" % (cs, ip, entry))
                info["cls"].append("entry-checked")
            else:
                info["cls"].append("entry-too-wide")
        else:
            if int.from_bytes(s["data"], "big") != entry:
                raise Violation("start linear address record %s is not the entry address %X" % (s["data"].hex(), entry))
            info["cls"].append("entry-checked")
    placed = hexfmt.intel_place(body)
    dec = []
    nlines = 0
    for r, adrs, base in placed:
        if len(r["data"]) > leff:
            raise Violation("data line %d carries %d bytes, more than -l %d" % (r["line"], len(r["data"]), leff))
        if r["data"]:
            nlines += 1
        dec += list(zip(adrs, r["data"]))
    info["lines"] = nlines
    keying = "lane" if m in (2, 3) else "byte"
    exp = expected_pairs(groups, keying, m)
    top = max([k for k, _ in exp], default=0)
    warned = "overflow" in info["stderr"].lower()
    limit = {8: 0xffff, 16: 0xfffff, 32: 0xffffffff}[variant]
    if top <= limit:
        if warned:
            raise Violation("address overflow warning although the highest written address is %X" % top)
        compare_pairs(dec, exp)
        if imode == 0 and dec:
            want_start = None
            if entry is not None and (variant == 32 or (variant == 16 and entry <= 0xfffff)):
                want_start = entry
            second_witness(text, "ihex", dec, want_start, info)
    else:
        info["cls"].append("overflow")
        if variant == 16 and top <= 0x10ffef:
            info["cls"].append("overflow-unsettled")
            if not warned:              # silent: then the file must be right
                compare_pairs(dec, exp)
        else:
            if not warned:
                raise Violation("highest written address %X does not fit the %d-bit Intel format but no warning is given"
                                % (top, variant))
            if variant == 8:
                compare_pairs(dec, exp, modulo=0x10000)


def judge_mos(text, mdl, o, info):
    recs = hexfmt.mos(text)
    groups = mdl["groups"]
    if not recs:
        if groups:
            raise Violation("no output although records are selected")
        return
    datal = [r for r in recs if r["kind"] == "data"]
    if recs[-1]["kind"] != "end":
        raise Violation("last line is not the MOS end record ';00' + record count")
    if any(r["kind"] == "end" for r in recs[:-1]):
        raise Violation("MOS end record before the last line")
    if recs[-1]["addr"] != (len(datal) & 0xffff):
        raise Violation("MOS end record counts %d records, the file holds %d data records" % (recs[-1]["addr"], len(datal)))
    g = info["gran"]
    dec = []
    for r in datal:
        if len(r["data"]) > info["leff"]:
            raise Violation("data line %d carries %d bytes, more than -l %d" % (r["line"], len(r["data"]), info["leff"]))
        if len(r["data"]) % g:
            raise Violation("line %d holds %d bytes, not a multiple of the granularity %d" % (r["line"], len(r["data"]), g))
        dec += unit_pairs(r["addr"], g, r["data"])
    info["lines"] = len(datal)
    limited_compare(dec, groups, info, 0xffff)


def limited_compare(dec, groups, info, limit):
    exp = expected_pairs(groups, "unit")
    top = final_span(groups, False)
    warned = "overflow" in info["stderr"].lower()
    if top <= limit:
        if warned:
            raise Violation("address overflow warning although the highest written address is %X" % top)
        compare_pairs(dec, exp)
    else:
        info["cls"].append("overflow")
        if not warned:
            raise Violation("highest written address %X does not fit the %d-bit address field but no warning is given"
                            % (top, (limit + 1).bit_length() - 1))
        compare_pairs(dec, exp, modulo=limit + 1)


def judge_tek(text, mdl, o, info):
    recs = hexfmt.tek(text)
    groups = mdl["groups"]
    datal = [r for r in recs if r["kind"] == "data"]
    ends = [r for r in recs if r["kind"] == "end"]
    if ends and (len(ends) > 1 or recs[-1]["kind"] != "end"):
        raise Violation("Tektronix termination record not at the end")
    g = info["gran"]
    dec = []
    for r in datal:
        if len(r["data"]) > info["leff"]:
            raise Violation("data line %d carries %d bytes, more than -l %d" % (r["line"], len(r["data"]), info["leff"]))
        if len(r["data"]) % g:
            raise Violation("line %d holds %d bytes, not a multiple of the granularity %d" % (r["line"], len(r["data"]), g))
        dec += unit_pairs(r["addr"], g, r["data"])
    info["lines"] = len(datal)
    limited_compare(dec, groups, info, 0xffff)


def judge_atmel(text, mdl, o, info):
    alen = o.get("avrlen", 3)
    recs = hexfmt.atmel(text, alen)
    groups = mdl["groups"]
    g = info["gran"]
    limit = (1 << (8 * alen)) - 1
    exp = []
    for gr in groups:
        data = gr["data"]
        for j in range(0, len(data), 2):
            w = data[j] | (data[j + 1] << 8 if j + 1 < len(data) else 0)
            exp.append((gr["A"] + j // g, w))
    top = final_span(groups, False)
    dec = [(r["addr"], r["word"]) for r in recs]
    warned = "overflow" in info["stderr"].lower()
    info["lines"] = len(recs)
    if top <= limit:
        if warned:
            raise Violation("address overflow warning although the highest written address is %X" % top)
    else:
        info["cls"].append("overflow")
        if not warned:
            raise Violation("highest written address %X does not fit %d address bytes but no warning is given" % (top, alen))
        exp = [(a & limit, w) for a, w in exp]
    if sorted(dec) != sorted(exp):
        sd, se = set(dec), set(exp)
        raise Violation("Atmel lines differ: %d decoded, %d expected; decoded only %s; expected only %s"
                        % (len(dec), len(exp), sorted(sd - se)[:3], sorted(se - sd)[:3]))
    if dict(dec) != dict(exp):
        raise Violation("memory map after loading differs (order of overlapping records)")


def judge_c(text, mdl, o, info, name, target):
    cf = o.get("cformat", "dSEl")
    p = hexfmt.carray(text, name)
    groups = mdl["groups"]
    want_fields = {"d": "const char *data", "D": "const char *data", "s": "unsigned start", "S": "unsigned long start",
                   "l": "unsigned len", "L": "unsigned long len", "e": "unsigned end", "E": "unsigned long end"}
    if [f.replace("unsigned char", "char") for f in p["fields"]] != [want_fields[c] for c in cf]:
        raise Violation("descriptor members %r do not follow -cformat %s" % (p["fields"], cf))
    rows = p["rows"]
    if not rows or rows[-1] != ["0"] * len(cf):
        raise Violation("descriptor list is not closed by an all-zero row")
    blocks = []
    for row in rows[:-1]:
        if len(row) != len(cf):
            raise Violation("descriptor row %r has not %d members" % (row, len(cf)))
        b = {}
        for c, ident in zip(cf, row):
            if c in "dD":
                if ident not in p["arrays"]:
                    raise Violation("descriptor refers to undefined array " + ident)
                data, case_, _ = p["arrays"][ident]
                if (c == "d" and "upper" in case_) or (c == "D" and "lower" in case_):
                    raise Violation("hex digits in %s have the wrong case for cformat letter %s" % (ident, c))
                b["data"] = data
                b["rows"] = p["arrays"][ident][2]
            else:
                if ident not in p["defines"]:
                    raise Violation("descriptor refers to undefined macro " + ident)
                v, suf = p["defines"][ident]
                if suf != ("ul" if c.isupper() else "u"):
                    raise Violation("macro %s has suffix %s, cformat letter %s" % (ident, suf, c))
                b[c.lower()] = v
        blocks.append(b)
    used_arrays = len(p["arrays"])
    if used_arrays != len(blocks):
        raise Violation("%d arrays but %d descriptor rows" % (used_arrays, len(blocks)))
    if len(blocks) != len(groups):
        raise Violation("%d blocks written, %d groups of the code file selected" % (len(blocks), len(groups)))
    has_s = "s" in cf.lower()
    for b in blocks:
        for cnt in b["rows"]:
            if cnt > info["leff"]:
                raise Violation("initialiser line with %d bytes, more than -l %d" % (cnt, info["leff"]))
    info["lines"] = sum(len(b["rows"]) for b in blocks)
    g = info["gran"]
    if has_s:
        dec = []
        for b in blocks:
            dec += unit_pairs(b["s"], g, b["data"])
        compare_pairs(dec, expected_pairs(groups, "unit"))
        key = lambda b: (b["s"], b["data"])
    else:
        key = lambda b: b["data"]
    # len / end are tied to their own block: match blocks to groups as multisets
    exp_blocks = sorted(((gr["A"], gr["data"]) if has_s else gr["data"], gr["A"], gr["n"], len(gr["data"])) for gr in groups)
    got_blocks = sorted((key(b), b.get("s"), b.get("e"), b.get("l")) for b in blocks)
    for (k1, A, n, nb), (k2, s, e, l) in zip(exp_blocks, got_blocks):
        if k1 != k2:
            raise Violation("block contents differ from the selected records")
        if e is not None and has_s and e != A + n - 1:
            raise Violation("end macro %X of the block at %X with %d units, last address used is %X" % (e, A, n, A + n - 1))
        if l is not None and g == 1 and l != nb:
            raise Violation("len macro %X of a block of %d bytes" % (l, nb))
    if "overflow" in info["stderr"].lower():
        raise Violation("address overflow warning for the C format")
    compile_c(text, name, target, cf, blocks, mdl, info)


def compile_c(text, name, target, cf, blocks, mdl, info):
    """second, independent witness: the file must compile as ISO C and as C++ ('C(++) source files', manual) and the
    compiled descriptor table must hold the same blocks"""
    low = cf.lower()
    body = ['#include <stdio.h>', '#include "%s"' % target, 'int main(void) {', '  const %s_blk *b; unsigned long i;' % name,
            '  for (b = %s_blks; b->data; b++) {' % name, '    printf("B");']
    for c, fld in (("s", "start"), ("l", "len"), ("e", "end")):
        if c in low:
            body.append('    printf(" %s=%%lx", (unsigned long)b->%s);' % (c, fld))
    if "l" in low:
        body.append('    printf(" d="); for (i = 0; i < b->len; i++) printf("%02x", (unsigned)(unsigned char)b->data[i]);')
    body += ['    printf("\\n");', '  }', '#ifdef %s_entry' % name, '  printf("E %%lx\\n", (unsigned long)%s_entry);' % name,
             '#endif', '  (void)i; return 0;', '}', '']
    cxx = (len(mdl["groups"]) + len(text)) % 2 == 1
    with run.Work("c06c") as d:
        run.write_files(d, {target: text, "drv.c": "\n".join(body)})
        if cxx:
            cmd = ["/usr/bin/g++", "-x", "c++", "-std=c++11", "-pedantic-errors", "-Wno-unused", "-o", "drv", "drv.c"]
        else:
            cmd = ["/usr/bin/gcc", "-std=c99", "-pedantic-errors", "-o", "drv", "drv.c"]
        r = run.run(cmd, d, timeout=60, cpu=30)
        if r.timed_out:
            return
        info["cls"].append("compiled-c++" if cxx else "compiled-c")
        if r.status != 0:
            raise Violation("the C output is rejected by %s: %s" % ("g++ -std=c++11 -pedantic-errors" if cxx else
                                                                    "gcc -std=c99 -pedantic-errors", r.err[:400]))
        r2 = run.run([d + "/drv"], d, timeout=30)
        if r2.timed_out:
            return
        if r2.status != 0 or r2.signal:
            raise Violation("program using the C output fails: status %s signal %s" % (r2.status, r2.signal))
    got = [l for l in r2.out.split("\n") if l.startswith("B")]
    want = []
    for b in blocks:
        l = "B"
        for c in ("s", "l", "e"):
            if c in low:
                l += " %s=%x" % (c, b[c] & 0xffffffff)
        if "l" in low:
            l += " d=" + b["data"][:b["l"]].hex() + "00" * max(0, b["l"] - len(b["data"]))
        want.append(l)
    if got != want:
        raise Violation("compiled descriptor table differs from the parsed text: %r vs %r" % (got[:2], want[:2]))
    ent = [l for l in r2.out.split("\n") if l.startswith("E")]
    if mdl["entry"] is not None and ent != ["E %x" % mdl["entry"]]:
        raise Violation("entry macro %r, entry address %X" % (ent, mdl["entry"]))


# ---------------------------------------------------------------- command line

def argv_of(case):
    o = case["opts"]
    sty = o["sty"]

    def n(v, i):
        s = sty[i % len(sty)]
        if s == "dec":
            return str(v)
        if s == "dollar":
            return "$%x" % v
        if s == "0x":
            return "0x%x" % v
        h = "%xh" % v
        return h if h[0].isdigit() else "0" + h
    lc = o.get("lc")
    optv = []
    if "F" in o:
        optv += ["-F", o["F"].lower() if lc else o["F"]]
    if "r" in o:
        a, b = o["r"]
        optv += ["-r", ("$" if a is None else n(a, 0)) + "-" + ("0x" if b is None else n(b, 1))]
    if "R" in o:
        optv += ["-R", n(o["R"], 2)]
    if o.get("a"):
        optv += ["-a"]
    if "l" in o:
        optv += ["-l", n(o["l"], 3)]
    if "M" in o:
        optv += ["-M", str(o["M"])]
    if o.get("no5"):
        optv += ["+5"]
    if "i" in o:
        optv += ["-i", str(o["i"])]
    if "m" in o:
        optv += ["-m", str(o["m"])]
    if "e" in o:
        optv += ["-e", n(o["e"], 4)]
    if "avrlen" in o:
        optv += ["-AVRLEN" if lc else "-avrlen", str(o["avrlen"])]
    if "segment" in o:
        optv += ["-segment" if not lc else "-SEGMENT", o["segment"].lower() if lc else o["segment"]]
    if "f" in o:
        optv += ["-f", ",".join(n(c, 5) for c in o["f"])]
    if "cformat" in o:
        optv += ["-cformat", o["cformat"]]
    files = case["files"]
    single = o.get("single") and len(files) == 1
    if single:      # "P2HEX <name>": <name>.p -> <name>.hex
        srcs = [files[0]["name"] + ("(%s)" % n(files[0]["offset"], 5) if files[0]["offset"] else "")]
        target, cname = files[0]["name"] + ".hex", files[0]["name"]
    else:
        ext = o.get("ext", "")
        srcs = [f["name"] + (".p" if i % 2 else "") + ("(%s)" % n(f["offset"], 5) if f["offset"] else "")
                for i, f in enumerate(files)] + ["out" + ext]
        target, cname = "out" + (ext or ".hex"), "out"
    env = None
    if o.get("env") and optv:
        env = {"P2HEXCMD": " ".join(optv)}
        optv = []
    if o.get("order"):
        return ["p2hex"] + optv + srcs, target, cname, env
    return ["p2hex"] + srcs + optv, target, cname, env


# ---------------------------------------------------------------- execution

def boundary_classes(groups, scale_bytes):
    cls = set()
    for gr in groups:
        s = gr["g"] if scale_bytes else 1
        lo, hi = gr["A"] * s, (gr["A"] + gr["n"]) * s - 1
        for name, b in (("64K", 0x10000), ("1M", 0x100000), ("16M", 0x1000000), ("2G", 0x80000000)):
            if lo < b <= hi:
                cls.add("cross" + name)
        if (lo >> 16) != (hi >> 16) and not (lo < 0x10000 <= hi):
            cls.add("crossBank")
        if lo >= 0x1000000:
            cls.add("above16M")
        elif lo >= 0x10000:
            cls.add("above64K")
    return sorted(cls)


def execute(case):
    if case.get("kind") == "mico8":
        return execute_mico8(case)
    o = case["opts"]
    mdl = model(case)
    classes = ["F:" + o.get("F", "default"), "files%d" % len(case["files"])]
    if any("raw" in f for f in case["files"]):
        classes.append("corpus")
    if mdl["status"] == "discard":
        return engine.discarded(mdl["why"].replace(" ", "_"), classes)
    gran = max([g["g"] for g in mdl.get("groups", [])], default=1)
    classes.append("gran%d" % gran)
    argv, target, cname, env = argv_of(case)
    with run.Work("c06") as d:
        run.write_files(d, {f["name"] + ".p": file_image(f) for f in case["files"]})
        r = run.run(argv, d, env=env)
        if r.timed_out:
            return engine.inconclusive("timeout", classes)
        text = run.read(d, target)
    detail = dict(argv=argv, env=env, status=r.status, signal=r.signal, stderr=r.err[-300:], stdout=r.out[-400:],
                  hex=(text or b"")[:1500].decode("latin-1"))
    if r.signal:
        return engine.bad("p2hex killed by signal %d" % r.signal, None, classes, **detail)
    if mdl["status"] == "reject":
        classes.append("empty-window-rejected")
        if r.status != 1:
            return engine.bad("window start > stop must be rejected with status 1, got %s" % r.status, None, classes, **detail)
        return engine.ok(None, classes)
    groups = mdl["groups"]
    eff = effective_format(case, mdl)
    if eff == "mixed":
        return engine.discarded("mixed_default_formats", classes)
    m = o.get("m", 0)
    leff = leff_of(o)
    info = dict(leff=leff, gran=gran, stderr=r.err, cls=[], lines=0)
    classes.append("eff:" + str(eff))
    # non-triviality
    nt = []
    scale = eff in ("Intel", "Intel16", "Intel32", "IntelAny") and m in (0, 1)
    bcls = boundary_classes(groups, scale)
    nt += bcls
    per_line = 2 if eff == "Atmel" else leff
    if any(len(gr["data"]) > per_line for gr in groups):
        nt.append("multiline")
    if mdl["clipped"]:
        nt.append("clip")
    optnames = sorted(k for k in o if k not in ("sty", "order", "single", "lc", "F") and o[k] is not None and o[k] is not False)
    nt += ["opt:" + k for k in optnames]
    if len(case["files"]) > 1:
        nt.append("multi")
    if len(groups) > 1:
        nt.append("groups>1")
    if any(f["offset"] for f in case["files"]):
        nt.append("offset")
    classes += nt
    if "l" in o:
        classes.append("l:odd" if o["l"] & 1 else "l:even")
    key = None
    if nt and groups:
        lcl = "d" if "l" not in o else ("odd" if o["l"] & 1 else "2" if o["l"] == 2 else "254" if o["l"] == 254 else "e")
        key = "|".join([str(eff), str(gran), ",".join(bcls), ",".join(optnames), lcl, str(o.get("m", "")),
                        str(o.get("M", "")), str(o.get("i", "")), str(min(len(groups), 3)), str(len(case["files"]))])
    if r.status != 0:
        return engine.bad("p2hex exit status %s on a well-formed request" % r.status, key, classes, **detail)
    if text is None:
        return engine.bad("no output file", key, classes, **detail)
    if not groups:
        classes.append("empty-selection")
    try:
        if eff is None:
            if text.strip() and o.get("F") is None:
                raise Violation("nothing selected but the output is not empty")
        elif eff == "Moto":
            judge_moto(text, mdl, o, info)
        elif eff in ("Intel", "Intel16", "Intel32", "IntelAny"):
            judge_intel(text, mdl, o, info, {"Intel": 8, "Intel16": 16, "Intel32": 32, "IntelAny": None}[eff])
        elif eff == "MOS":
            judge_mos(text, mdl, o, info)
        elif eff == "Tek":
            judge_tek(text, mdl, o, info)
        elif eff == "Atmel":
            judge_atmel(text, mdl, o, info)
        elif eff == "C":
            judge_c(text, mdl, o, info, cname, target)
        # size report
        for fi, f in enumerate(case["files"]):
            mm = re.search(re.escape(f["name"] + ".p") + r"==>>\S+\s+\((.*?)\)", r.out)
            if not mm:
                raise Violation("no size report for %s.p on stdout" % f["name"])
            want = sum((gr["n"] if m in (2, 3) else len(gr["data"])) for gr in groups if gr["fi"] == fi)
            m2 = re.match(r"^(\d+) Bytes?$", mm.group(1))
            if not m2:
                raise Violation("size report %r is not '<n> Byte(s)'" % mm.group(1))
            if int(m2.group(1)) != want:
                raise Violation("size report states %s bytes, %d bytes of %s.p were written" % (m2.group(1), want, f["name"]))
    except hexfmt.HexError as e:
        return engine.bad("output is not valid %s: %s" % (eff, e), key, classes + info["cls"], **detail)
    except Violation as e:
        return engine.bad(str(e), key, classes + info["cls"], **detail)
    classes += info["cls"]
    if info.get("variant"):
        classes.append("intel-variant%d" % info["variant"])
    if info.get("types"):
        classes += ["S%d" % t for t in info["types"]]
    return engine.ok(key, classes)


def coverage_extra(tier, classes):
    tot = max(1, sum(v for k, v in classes.items() if k.startswith("eff:")))
    return dict(witness_objdump_runs=classes.get("objdump", 0),
                witness_compiler_runs=classes.get("compiled-c", 0) + classes.get("compiled-c++", 0),
                corpus_cases=classes.get("corpus", 0),
                judged_cases=tot,
                fraction_multiline=round(classes.get("multiline", 0) / tot, 3),
                fraction_boundary=round(sum(classes.get(k, 0) for k in ("cross64K", "cross1M", "cross16M", "crossBank",
                                                                         "cross2G")) / tot, 3),
                fraction_overflow_class=round(classes.get("overflow", 0) / tot, 3))


def show(case):
    if case.get("kind") == "mico8":
        return dict(kind="mico8", words=["%05X" % w for w in case["words"]], cuts=case["cuts"], base=case["base"])
    return dict(argv=argv_of(case)[0], env=argv_of(case)[3],
                files=[dict(name=f["name"], corpus=f.get("corpus"),
                            recs=[(r["kind"], hex(r.get("cpu", 0)), r.get("seg"), r.get("gran"), hex(r["addr"]), r.get("n"))
                                  for r in frecs(f)][:8])
                       for f in case["files"]])


# ---------------------------------------------------------------- fixed boundary families

def _rec(cpu, addr, n, gran=1, seg=1, form="long", x=3, c=0):
    return dict(kind="data", cpu=cpu, seg=seg, gran=gran, addr=addr, n=n, pk="ramp", x=x, c=c, form=form)


def _case(recs, **o):
    o.setdefault("sty", ["0x"] * 6)
    o.setdefault("order", False)
    return dict(files=[dict(name="f0", offset=None, recs=recs)], opts=o)


def fixed_cases(tier):
    out = []
    # every format, three lines, default options
    for f in FORMATS:
        out.append(_case([_rec(0x51, 0x1000, 40)], F=f))
    # default format per family
    for cpu in (0x01, 0x61, 0x63, 0x68, 0x52, 0x11, 0x19, 0x51, 0x31, 0x41, 0x42, 0x13):
        out.append(_case([_rec(cpu, 0x200, 40), dict(kind="entry", addr=0x234)]))
    # ... and exhaustively: every CPU id of the default-format tables, in its documented granularity
    for g, ids in ((1, ANY_G[1]), (2, ANY_G[2]), (4, ANY_G[4])):
        for cpu in ids:
            out.append(_case([_rec(cpu, 0x40, 21, gran=g, form="short" if g == pfile.implied_gran(cpu, 1) else "long")]))
    out.append(_case([_rec(0x3b, 0x20, 9, gran=2)]))
    out.append(_case([_rec(0x70, 0x20, 9, gran=2)]))
    out.append(_case([_rec(0x76, 0x20, 9, gran=4)]))
    out.append(_case([_rec(0x09, 0x20, 9, gran=4)]))
    # boundaries
    for f, base in (("Moto", 0xfff0), ("Moto", 0xfffff0), ("Moto", 0x7ffffff0), ("Intel32", 0xfff0), ("Intel32", 0xfffff0),
                    ("Intel32", 0x1fff8), ("Intel16", 0xfff0), ("Intel16", 0xffff0 - 0x30), ("C", 0xfffffff0 - 0x40),
                    ("Atmel", 0xfff0), ("Intel", 0xffc0), ("MOS", 0xffc0), ("Tek", 0xffc0)):
        for l in (None, 2, 254):
            o = dict(F=f)
            if l:
                o["l"] = l
            out.append(_case([_rec(0x51, base, 0x40), _rec(0x51, base + 0x40 - 3, 300 if f not in ("Intel", "MOS", "Tek") else 2)], **o))
    # every line length on a record of 600 bytes (Intel and S-records), every -l on MOS
    lens = range(2, 255) if tier == "thorough" else (2, 3, 4, 7, 16, 31, 32, 33, 127, 128, 200, 253, 254)
    for l in lens:
        for f in ("Intel", "Moto", "MOS"):
            out.append(_case([_rec(0x51, 0x100, 600)], F=f, l=l))
    # every format x granularity x a few line lengths, crossing the 64 KiB boundary of the address field
    for f in FORMATS:
        for g, cpu in ((1, 0x51), (2, 0x70), (4, 0x76)):
            if f == "Atmel" and g == 4:
                continue
            for l in ((None, 2, 4, 6, 10, 254) if tier == "quick" else [None] + list(range(2, 255))):
                if l is not None and l < g:
                    continue
                scale = g if f.startswith("Intel") else 1
                lim = field_limit(f, g, 0, 3)
                base = min(0x10000 // scale, lim + 1) - 0x11
                n = 0x30 if base + 0x30 <= lim + 1 else 0x11
                o = dict(F=f)
                if l:
                    o["l"] = l
                out.append(_case([_rec(cpu, base, n, gran=g), _rec(cpu, 0x100, 70, gran=g, c=77)], **o))
    # PIC lanes
    for m in range(4):
        out.append(_case([_rec(0x70, 0x10, 21, gran=2)], m=m))
        out.append(_case([_rec(0x70, 0x10, 21, gran=2)], m=m, F="Intel", l=6))
    # entry address
    for f in ("Moto", "Intel", "Intel16", "Intel32"):
        for i in (0, 1, 2):
            out.append(_case([_rec(0x51, 0x100, 20)], F=f, e=0x1234, i=i))
            out.append(_case([_rec(0x51, 0x100, 20), dict(kind="entry", addr=0x4321)], F=f, i=i))
    # relocation and relative addresses
    for f in FORMATS:
        out.append(_case([_rec(0x51, 0x1000, 40)], F=f, R=0x100))
        out.append(_case([_rec(0x51, 0x1000, 40), _rec(0x51, 0x1100, 10)], F=f, a=True))
        out.append(_case([_rec(0x51, 0x1000, 40), _rec(0x51, 0x1100, 10)], F=f, r=[0x1010, 0x1104]))
    # every golden program as assembled by asl: default format of its CPU (or Intel32 when the family is not in
    # the table), and one explicit format in rotation; the big ones only in the thorough tier
    for k, (name, raw, summ) in enumerate(load_corpus()):
        if len(raw) > CORPUS_MAX and tier != "thorough":
            continue
        cpus = sorted({x[0] for x in summ})
        cpu = cpus[0]
        o = dict(f=[cpu]) if len(cpus) > 1 else {}
        f = dict(name="f0", offset=None, corpus=name, raw=engine.b64(raw))
        gran = [x[2] for x in summ if x[0] == cpu][0]
        if family_of(cpu) is None:
            o["F"] = "Intel32"
        out.append(dict(files=[f], opts=dict(o, sty=["0x"] * 6, order=False)))
        fmts = [x for x in FORMATS if not (x == "Atmel" and gran == 4)]
        for j in range(len(fmts) if tier == "thorough" else 1):
            o2 = dict(o, F=fmts[(k + j) % len(fmts)], sty=["dollar"] * 6, order=True)
            if (k + j) % 3 == 0:
                o2["l"] = [32, 254, 2 if gran <= 2 else 4][(k + j) // 3 % 3]
            out.append(dict(files=[f], opts=o2))
    return out


KNOWN = {}
