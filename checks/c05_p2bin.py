"""C05  P2BIN writes the memory image described by the code file.

Generated domain: synthetic code files (vf.pgen, written by the independent writer, not by asl)
x option sets.  Oracle: reference image computed here from the property's words and
doc/utility-programs.md.  Byte-for-byte comparison, overlap-warning biconditional, exit status.
"""
from vf import engine, pfile, pgen, run
from vf.gen import composite, num

ID = "C05"
RULE = ("case = 1-3 generated code files (1-5 records each: gaps, adjacency, overlaps, jumps, short/long "
        "header forms, CPU ids of several families, granularity 1/2/4, optional entry record, optional "
        "(offset) suffix) x p2bin options (-r explicit/auto bounds, -l, -m lane, -S header, -e, -s, -f, "
        "-segment); non-trivial = a selected record is clipped by the window, or a lane mode other than "
        "ALL, or >= 2 input files, or an overlap, or a filter that drops a record; distinct by (option "
        "class vector, clip pattern, granularity, #files)")
ASSUMPTIONS = [
    "records selected in one run have one granularity (the manual does not define mixed granularity)",
    "lane modes (-m other than ALL): the image holds the bytes of the window whose byte address passes the lane test, "
    "in address order ('copy all bytes with an even address'), also when the window is no multiple of the lane period",
    "independent code-file writer vf/pfile.py follows doc/file-formats.md",
]

# name: (size divisor, address mask, required value, period of the lane pattern in bytes)
LANES = {"ALL": (1, 0, 0, 1), "EVEN": (2, 1, 0, 2), "ODD": (2, 1, 1, 2), "BYTE0": (4, 3, 0, 4),
         "BYTE1": (4, 3, 1, 4), "BYTE2": (4, 3, 2, 4), "BYTE3": (4, 3, 3, 4), "WORD0": (2, 2, 0, 4),
         "WORD1": (2, 2, 2, 4)}
SEGN = {1: "CODE", 2: "DATA", 4: "XDATA"}


def budget(tier):
    return dict(examples=16000 if tier == "quick" else 200000, shards=16)


@composite
def strategy_(d, tier):
    gran = d.weighted([(6, 1), (2, 2), (1, 4)])
    cpus = {1: pgen.CPUS_G1, 2: [0x70, 0x71, 0x74], 4: pgen.CPUS_G4}[gran]
    cpus = d.shuffle(cpus)[:d.int(1, 3)]
    segs = d.weighted([(5, (1,)), (2, (1, 2)), (1, (1, 2, 4))])
    bases = d.weighted([(6, [0, 0x10, 0x100]), (2, [0x7ff0, 0xfff0]), (1, [0xfffff000]), (1, [0xfff0, 0x10000])])
    nfiles = d.weighted([(5, 1), (3, 2), (1, 3)])
    counter = [d.int(0, 200)]
    files = [pgen.gen_file(d, "f%d" % i, gran=gran, cpus=cpus, base_choices=bases, segs=segs, counter=counter)
             for i in range(nfiles)]
    # window
    sel_seg = d.choice(segs) if d.bool(0.3) else None
    lo = min(bases)
    opts = {}
    if d.bool(0.35):
        opts["m"] = d.choice(list(LANES))
    lane = opts.get("m", "ALL") != "ALL"
    if lane and d.bool(0.85):
        # construct a window aligned to the lane period (in address units of this granularity)
        per = max(1, 4 // gran)
        a = (lo // per + d.int(0, 0x18)) * per
        b = a + d.int(1, 0x60) * per - 1
        opts["r"] = [a, b]
    elif d.bool(0.6):
        rmode = d.weighted([(3, "ee"), (2, "ae"), (2, "ea"), (1, "aa")])
        a = lo + d.int(0, 0x60) if d.bool(0.8) else lo
        b = a + d.int(0, 0x180)
        opts["r"] = [a if rmode[0] == "e" else None, b if rmode[1] == "e" else None]
    if d.bool(0.4):
        opts["l"] = d.int(0, 255)
    if d.bool(0.3):
        opts["S"] = d.choice(["", "L", "B"]) + str(d.int(1, 4))
    if d.bool(0.3):
        opts["e"] = d.int(0, 0xffffffff) if d.bool(0.3) else d.int(0, 0xffff)
    if d.bool(0.25):
        opts["s"] = True
    if d.bool(0.3):
        allc = sorted({r["cpu"] for f in files for r in f["recs"] if r["kind"] == "data"})
        pick = d.subset(allc, 0.6) or [allc[0]]
        if d.bool(0.2):
            pick.append(0x7f)
        opts["f"] = pick
    if sel_seg is not None:
        opts["segment"] = SEGN[sel_seg]
    # records of ANOTHER granularity that the run does not select (other segment / CPU outside the -f list): they
    # must not influence the image ("records selected in one run have one granularity" still holds)
    if ("f" in opts or sel_seg is not None) and d.bool(0.6):
        og = d.choice([g for g in (1, 2, 4) if g != gran])
        ocpu = d.choice({1: pgen.CPUS_G1, 2: [0x70, 0x71, 0x74], 4: pgen.CPUS_G4}[og])
        if "f" in opts and ocpu in opts["f"]:
            opts["f"] = [c for c in opts["f"] if c != ocpu] or [0x7f]
        selseg = sel_seg if sel_seg is not None else 1
        oseg = d.choice([x for x in (1, 2, 4) if x != selseg]) if "f" not in opts else d.choice([1, 2, 4])
        tgt = files[d.int(0, len(files) - 1)]
        for _ in range(d.int(1, 2)):
            n = d.int(1, 12)
            lim = next((i for i, r_ in enumerate(tgt["recs"]) if r_["kind"] == "entry"), len(tgt["recs"]))
            tgt["recs"].insert(d.int(0, lim),
                               dict(kind="data", cpu=ocpu, seg=oseg, gran=og, addr=d.choice(bases) + d.int(0, 80),
                                    data=bytes((7 * i + 3) & 0xff for i in range(n * og)).hex(), form="long"))
        opts["foreign"] = og
    opts["sty"] = [d.choice(["dec", "dollar", "0x", "h"]) for _ in range(6)]
    opts["order"] = d.bool()
    return dict(files=files, opts=opts)


def strategy(tier):
    return strategy_(tier)


# ---------------------------------------------------------------- reference model

def selected(case):
    o = case["opts"]
    seg = {v: k for k, v in SEGN.items()}[o.get("segment", "CODE")]
    sel = []
    entry = None
    for f in case["files"]:
        off = f["offset"] or 0
        for r in f["recs"]:
            if r["kind"] == "entry":
                if entry is None:
                    entry = r["addr"]
                continue
            if r["seg"] != seg:
                continue
            if "f" in o and r["cpu"] not in o["f"]:
                continue
            n = len(r["data"]) // 2 // r["gran"]
            sel.append(((r["addr"] + off) & 0xffffffff, n, r["gran"], bytes.fromhex(r["data"])))
    return sel, entry


def reference(case):
    """returns dict(status, image bytes (with header), overlap bool) or dict(status=1)"""
    o = case["opts"]
    sel, entry = selected(case)
    rng = o.get("r", [None, None])
    start, stop = rng
    nonempty = [s for s in sel if s[1] > 0]
    gran = max([s[2] for s in nonempty], default=1)
    if start is None:
        start = min([s[0] for s in nonempty], default=0xffffffff)
    if stop is None:
        stop = max([s[0] + s[1] - 1 for s in nonempty], default=0)
    if start > stop:
        return dict(status=1)
    L = (stop - start + 1) * gran
    fill = o.get("l", 0xff)
    img = bytearray([fill]) * L
    cover = set()
    overlap = False
    clipped = False
    for a, n, g, data in sel:
        if n == 0:
            continue
        es, ee = max(a, start), min(a + n - 1, stop)
        if ee < es:
            clipped = True
            continue
        if es != a or ee != a + n - 1:
            clipped = True
        for u in range(es, ee + 1):
            if u in cover:
                overlap = True
            cover.add(u)
        img[(es - start) * g:(ee + 1 - start) * g] = data[(es - a) * g:(ee + 1 - a) * g]
    div, mask, eq, _ = LANES[o.get("m", "ALL")]
    if div != 1:
        img = bytearray(b for j, b in enumerate(img) if ((start * gran + j) & mask) == eq)
    if o.get("s") and len(img) > 0:
        img[-1] = (-sum(img[:-1])) & 0xff
    hdr = b""
    if "S" in o:
        s = o["S"]
        big = s[0] == "B"
        n = int(s[-1])
        ea = o["e"] if "e" in o else entry
        if ea is None:
            hdr = bytes(n)
        else:
            hdr = (ea & ((1 << (8 * n)) - 1)).to_bytes(n, "big" if big else "little")
    return dict(status=0, image=bytes(hdr) + bytes(img), overlap=overlap, clipped=clipped,
                start=start, stop=stop, gran=gran, nsel=len(sel), nonempty=len(nonempty), hdr=len(hdr))


def window_aligned(case, ref):
    div = LANES[case["opts"].get("m", "ALL")][3]
    if div == 1:
        return True
    g = ref["gran"]
    return (ref["start"] * g) % div == 0 and ((ref["stop"] - ref["start"] + 1) * g) % div == 0


def argv_of(case):
    o = case["opts"]
    sty = o["sty"]

    def n(v, i):
        s = sty[i % len(sty)]
        if s == "dec":
            return str(v)
        if s == "dollar":
            return "$%x" % v
        if s == "0x":
            return "0x%x" % v
        h = "%xh" % v
        return h if h[0].isdigit() else "0" + h
    optv = []
    if "r" in o:
        a, b = o["r"]
        optv += ["-r", ("$" if a is None else n(a, 0)) + "-" + ("0x" if b is None else n(b, 1))]
    if "l" in o:
        optv += ["-l", n(o["l"], 2)]
    if "m" in o:
        optv += ["-m", o["m"] if sty[0] != "dec" else o["m"].lower()]
    if "S" in o:
        optv += ["-S", o["S"]]
    if "e" in o:
        optv += ["-e", n(o["e"], 3)]
    if o.get("s"):
        optv += ["-s"]
    if "f" in o:
        optv += ["-f", ",".join(n(c, 4) for c in o["f"])]
    if "segment" in o:
        optv += ["-segment", o["segment"]]
    srcs = [f["name"] + (".p" if i % 2 else "") + ("(%s)" % n(f["offset"], 5) if f["offset"] else "")
            for i, f in enumerate(case["files"])]
    if o.get("order"):
        return ["p2bin"] + optv + srcs + ["out.bin"]
    return ["p2bin"] + srcs + ["out.bin"] + optv


def execute(case):
    ref = reference(case)
    o = case["opts"]
    classes = ["gran%d" % max([r["gran"] for f in case["files"] for r in f["recs"] if r["kind"] == "data"], default=1),
               "files%d" % len(case["files"]), "lane:" + o.get("m", "ALL")]
    if ref["status"] == 0 and not window_aligned(case, ref):
        classes.append("unaligned-lane-window")
    with run.Work("c05") as d:
        run.write_files(d, {f["name"] + ".p": pgen.file_bytes(f) for f in case["files"]})
        argv = argv_of(case)
        r = run.run(argv, d)
        if r.timed_out:
            return engine.inconclusive("timeout", classes)
        got = run.read(d, "out.bin")
    detail = dict(argv=argv, status=r.status, signal=r.signal, stderr=r.err[-300:], stdout=r.out[-300:])
    if r.signal:
        return engine.bad("p2bin killed by signal %d" % r.signal, None, classes, **detail)
    if ref["status"] == 1:
        classes.append("empty-window-rejected")
        if r.status != 1:
            return engine.bad("window start > stop must be rejected with status 1, got %s" % r.status,
                              None, classes, **detail)
        return engine.ok("reject", classes)
    nt = []
    if ref["clipped"]:
        nt.append("clip")
    if o.get("m", "ALL") != "ALL":
        nt.append("lane")
    if len(case["files"]) > 1:
        nt.append("multi")
    if ref["overlap"]:
        nt.append("overlap")
    ndata = sum(1 for f in case["files"] for r_ in f["recs"] if r_["kind"] == "data")
    if ref["nsel"] < ndata:
        nt.append("filtered")
    if o.get("foreign"):
        nt.append("foreign-gran")
    classes += nt
    key = None
    if nt:
        key = "|".join([",".join(nt), str(ref["gran"]), str(len(case["files"])),
                        ",".join(sorted(k for k in o if k not in ("sty", "order", "foreign"))), o.get("m", ""), o.get("S", ""),
                        str(ref["nsel"])])
    if r.status != 0:
        return engine.bad("p2bin exit status %s on a well-formed request" % r.status, key, classes, **detail)
    if got is None:
        return engine.bad("no output file", key, classes, **detail)
    exp = ref["image"]
    if ref["nonempty"] == 0:
        # nothing selected: the granularity that scales the window is not defined by any record;
        # only require an image that consists of the fill value
        classes.append("empty-selection")
        body = got[ref["hdr"]:]
        if o.get("s"):
            body = body[:-1]
        if any(b != o.get("l", 0xff) for b in body):
            return engine.bad("empty selection but image holds non-fill bytes", key, classes, got=got[:64].hex(), **detail)
        return engine.ok(key, classes)
    if len(got) != len(exp):
        return engine.bad("output length %d, expected %d (window %x-%x gran %d lane %s)"
                          % (len(got), len(exp), ref["start"], ref["stop"], ref["gran"], o.get("m", "ALL")),
                          key, classes, got=got[:64].hex(), exp=exp[:64].hex(), **detail)
    if got != exp:
        i = next(i for i in range(len(exp)) if got[i] != exp[i])
        return engine.bad("image differs at offset %d: got %02x expected %02x" % (i, got[i], exp[i]),
                          key, classes, got=got[max(0, i - 8):i + 8].hex(), exp=exp[max(0, i - 8):i + 8].hex(),
                          **detail)
    warned = "overlap" in r.err.lower()
    if warned != ref["overlap"]:
        return engine.bad("overlap warning %s but records %s" % ("given" if warned else "missing",
                          "overlap" if ref["overlap"] else "do not overlap"), key, classes, **detail)
    return engine.ok(key, classes)


def show(case):
    return dict(argv=argv_of(case),
                files=[dict(name=f["name"], recs=[(r["kind"], hex(r.get("cpu", 0)), r.get("seg"), r.get("gran"),
                                                   hex(r["addr"]), len(r.get("data", "")) // 2)
                                                  for r in f["recs"]]) for f in case["files"]])


def fixed_cases(tier):
    def rec(cpu, addr, n, gran=1, seg=1, form="long"):
        return dict(kind="data", cpu=cpu, seg=seg, gran=gran, addr=addr,
                    data=bytes((i * 3 + 1) & 0xff for i in range(n * gran)).hex(), form=form)
    sty = ["0x"] * 6
    out = []
    # filter by CPU id (documented: header ids as in the record structure's HeaderID)
    out.append(dict(files=[dict(name="a", offset=None, recs=[rec(0x11, 0x10, 8), rec(0x51, 0x40, 8)])],
                    opts=dict(f=[0x11], sty=sty, order=False)))
    # lane thinning with a record at an odd address inside an aligned window
    out.append(dict(files=[dict(name="a", offset=None, recs=[rec(0x11, 3, 4)])],
                    opts=dict(r=[0, 7], m="EVEN", sty=sty, order=False)))
    # explicit window with word-granular records
    out.append(dict(files=[dict(name="a", offset=None, recs=[rec(0x70, 2, 4, gran=2)])],
                    opts=dict(r=[0, 7], sty=sty, order=False)))
    # checksum, header, entry
    out.append(dict(files=[dict(name="a", offset=None, recs=[rec(0x51, 0, 16), dict(kind="entry", addr=0x1234)])],
                    opts=dict(s=True, S="B4", sty=sty, order=True)))
    return out


def _k_filter(case, out):
    return "f" in case["opts"]


KNOWN = {}
