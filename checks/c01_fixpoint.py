"""C01  Multipass assembly ends at a fixpoint with every reference resolved.

Generated domain: programs of labels, fillers and references (absolute data word, absolute operand,
jump, auto-sized / long / short branch, forward EQU chain, padded label) for 68000, 6809, 68HC11,
6502 and 8086, with fillers around the encoding thresholds, forward and backward references mixed.
Oracles: (1) termination under a pass cap with the cycle-proof hook; (2) resolution: marker bytes give
each label's real address, a reference table and a per-target mini decoder give the value every
reference encodes; (3) fixpoint: one forced extra pass changes neither code file nor symbol table
(also over the whole golden corpus).
"""
import re
from vf import engine, asl, corpus, golden, variants, statepool
from vf.gen import composite

ID = "C01"
RULE = ("case = target + item list (label with unique marker, filler of n bytes with n around 0-3/120-130/250-258, "
        "reference of kind word|abs|jmp|bra|sbra|equ to an earlier or later label, odd filler before a label on "
        "68000) + origin near an encoding threshold ($100 for direct/zero page, $8000 for 68000 abs.w); fixed cases: "
        "every golden test with one forced extra pass; non-trivial = a forward reference whose target lies beyond "
        "a size-dependent item, or a padded label, or a golden test needing >= 2 passes; distinct by (target, item "
        "kind sequence, origin)")
ASSUMPTIONS = [
    "hook ASL_VERIF_MAX_PASSES / ASL_VERIF_EXTRA_PASSES (guard ASL_VERIF) behaves as described in DESIGN.md 3",
    "short-only branches are generated only when the worst-case distance (all variable items at maximum size) "
    "fits; out-of-range branches are C14's subject",
    "no MOMPASS, READ, WHILE or recursive macros are generated (as the property states)",
]

TARGETS = {
    "68000": dict(cpu="68000", origins=[0, 0x7f00, 0x7fc0], table=0x20000, byte="dc.b", be=True, wordsz=4),
    "68020": dict(cpu="68020", origins=[0x7ffffe00, 0x7fffffc0, 0x80000000, 0xffff7e00, 0xffff7fc0], table=None,
                  byte="dc.b", be=True, wordsz=4),
    "6502": dict(cpu="6502", origins=[0x40, 0xc0, 0xe8], table=0x4000, byte="byt", be=False, wordsz=2),
    "6809": dict(cpu="6809", origins=[0x40, 0xc0, 0xe8], table=0x4000, byte="fcb", be=True, wordsz=2),
    "6811": dict(cpu="6811", origins=[0x40, 0xc0, 0xe8], table=0x4000, byte="fcb", be=True, wordsz=2),
    "8086": dict(cpu="8086", origins=[0, 0x100], table=0x4000, byte="db", be=False, wordsz=2),
}
KINDS = {
    "68000": ["word", "abs", "jmp", "bra", "bsr", "bsrx", "bcc", "equ", "qimm", "selfw"],
    "68020": ["word", "abs", "jmp", "bra", "bsr", "bsrx", "bcc", "equ", "qimm", "selfw"],
    "6502": ["word", "abs", "jmp", "sbra", "equ"],
    "6809": ["word", "abs", "jmp", "bra", "sbra", "equ"],
    "6811": ["word", "abs", "jmp", "sbra", "equ", "brsx", "brsy", "brcd"],
    "8086": ["word", "abs", "bra", "equ"],
}
MAXSZ = dict(word=4, abs=6, jmp=6, bra=4, bsr=4, bsrx=4, bcc=4, sbra=2, equ=4, qimm=2, selfw=6, brsx=4, brsy=5, brcd=4)


# (short branch with a label operand, byte data statement, extra prologue) for the "shadow" programs
SHADOW = {"6502": ("bne %s", "byt", []), "6809": ("bra %s", "fcb", []), "6811": ("bra %s", "fcb", []),
          "68000": ("bra.s %s", "dc.b", ["\tpadding off"]), "8086": ("jmp %s", "db", []), "z80": ("jr %s", "db", [])}


def render_shadow(sh, outer_name="skip"):
    br, B, pro = SHADOW[sh["target"]]
    L = ["\tcpu %s" % sh["target"]] + pro + ["\torg 256"]
    if sh["outer"] == "equ":
        L.append("%s\tequ 300" % outer_name)
    elif sh["outer"] == "section":
        L += ["%s:\t%s 17,18" % (outer_name, B)]
    else:
        L += ["%s:\t%s 17" % (outer_name, B), "\t%s 18,19" % B]
    body = []
    for i in range(sh["nrefs"]):
        body.append("\t" + br % "skip")
        if sh["k"]:
            body.append("\t%s %s" % (B, ",".join(str(20 + (j % 200)) for j in range(sh["k"]))))
    body.append("skip:\t%s 33" % B)
    if sh["construct"] == "macro":
        L += ["shm\tmacro"] + body + ["\tendm"] + ["\tshm"] * sh["calls"]
    elif sh["construct"] == "rept":
        L += ["\trept %d" % sh["calls"]] + body + ["\tendm"]
    else:
        L += ["\tirp zz,%s" % ",".join(str(i) for i in range(sh["calls"]))] + body + ["\tendm"]
    if sh["force2"]:
        L += ["\t" + br % "fwdx", "\t%s 1,2,3" % B, "fwdx:\t%s 77" % B]
    L.append("\t%s 99" % B)
    return "\n".join(L) + "\n"


def execute_shadow(case):
    sh = case["shadow"]
    classes = ["shadow", "shadow:" + sh["construct"], "shadow-cpu:" + sh["target"]] + (["shadow-onepass"] if not sh["force2"] else [])
    key = "shadow|%s|%s|%s|%d|%d|%d" % (sh["target"], sh["construct"], sh["outer"], sh["k"], sh["calls"], sh["force2"])
    src = render_shadow(sh)
    env = {"ASL_VERIF_MAX_PASSES": "200"}
    r = asl.assemble({"t.asm": src}, env=env, timeout=60, cpu=40)
    if r.timed_out:
        return engine.inconclusive("timeout", classes)
    detail = dict(src=src, **r.brief())
    if r.status != 0 or r.p is None:
        return engine.bad("valid program rejected: status %s" % r.status, key, classes, **detail)
    r2 = asl.assemble({"t.asm": src}, env=dict(env, ASL_VERIF_EXTRA_PASSES="1"), timeout=60, cpu=40)
    if r2.timed_out:
        return engine.inconclusive("timeout", classes)
    if r2.status != 0 or r2.p != r.p:
        return engine.bad("one further pass changes the code file (status %s)" % r2.status, key, classes, **detail)
    # the outer symbol is never referenced: giving it another name must not change the code
    r3 = asl.assemble({"t.asm": render_shadow(sh, "skip_outer")}, env=env, timeout=60, cpu=40)
    if r3.timed_out:
        return engine.inconclusive("timeout", classes)
    if r3.status != 0 or r3.p != r.p:
        return engine.bad("renaming an unreferenced outer symbol changes the code file: references inside the body "
                          "bind to the outer symbol instead of the body's own label", key, classes, **detail)
    return engine.ok(key, classes)


def budget(tier):
    return dict(examples=10000 if tier == "quick" else 120000, shards=16)


@composite
def strategy_(d, tier):
    if d.bool(0.3):
        # a golden program (or a line-edited variant of it) that ends with statements which change assembler
        # state but emit nothing: one further pass must still not change anything
        names = corpus.names()
        name = names[d.int(0, len(names) - 1)]
        return dict(golden=name, tail=statepool.draw(d, name), var=variants.ops_strategy(d) if d.bool(0.3) else None)
    if d.bool(0.12):
        # a macro / REPT / IRP body with a forward reference to its own label while a symbol of the same name
        # already exists outside: pass 1 finds the outer symbol, so a further pass is needed - also when nothing
        # else in the program asks for one
        # (the whole construct stays within short-branch reach of the outer symbol: pass 1 binds the forward
        # references to it and range-checks the distance - a program whose outer symbol is out of reach is rejected
        # in pass 1, which is not the subject of this property)
        return dict(shadow=dict(target=d.choice(sorted(SHADOW)), k=d.int(0, 6),
                                calls=d.int(1, 3), construct=d.choice(["macro", "macro", "rept", "irp"]),
                                force2=d.bool(0.4), outer=d.choice(["before", "before", "section"]),
                                nrefs=d.int(1, 2)))
    tn = d.choice(sorted(TARGETS))
    nlab = d.int(1, 6)
    nitems = d.int(3, 26 if tier == "quick" else 60)
    items = []
    labs = list(range(nlab))
    placed = []
    # positions of labels among items
    seq = []
    for i in range(nitems):
        r = d.weighted([(5, "ref"), (4, "fill"), (1, "oddlab")])
        seq.append(r)
    # interleave label definitions at drawn positions
    pos = sorted(d.int(0, nitems) for _ in labs)
    rid = 0
    li = 0
    for i in range(nitems + 1):
        while li < nlab and pos[li] == i:
            items.append(["lab", li])
            li += 1
        if i == nitems:
            break
        r = seq[i]
        if r == "fill":
            # 120..131: forward short-branch limits (distance = filler); 114..123: the backward ones (distance =
            # filler + two 4 byte markers + the 2 byte branch: -128 at 118, -129 at 119)
            fam = d.weighted([(5, (0, 3)), (3, (120, 131)), (3, (114, 123)), (2, (250, 259)), (1, (4, 40))])
            items.append(["fill", d.int(fam[0], fam[1])])
        elif r == "oddlab":
            items.append(["fill", d.choice([1, 3, 5])])
        else:
            kind = d.choice(KINDS[tn])
            items.append(["ref", kind, d.choice(labs), rid] + ([d.int(1, 8)] if kind == "qimm" else []))
            rid += 1
    aimed = {"68000": ["bra", "bsr", "bcc"], "68020": ["bra", "bsr", "bcc"], "8086": ["bra"]}.get(tn)
    if aimed and d.bool(0.5):
        # an auto-sized branch aimed at the short/long threshold: only a filler stands between the branch and its
        # own label, so the distance in the final layout is known (backward: filler + two 4 byte markers + the
        # 2 byte short form; forward: the filler)
        disp = d.choice([-131, -130, -129, -128, -127, -126, 125, 126, 127, 128, 129, 130])
        kind = d.choice(aimed)
        if disp < 0:
            trip = [["lab", nlab], ["fill", -disp - 10], ["ref", kind, nlab, rid]]
        else:
            trip = [["ref", kind, nlab, rid], ["fill", disp], ["lab", nlab]]
        rid += 1
        at = d.int(0, len(items))
        items[at:at] = trip
    if tn == "6809" and d.bool(0.5):
        # direct page assumptions in the middle of the code: auto-sized operands in front of them must not be
        # assembled with the page a later ASSUME (of this or of the previous pass) sets
        for _ in range(d.int(1, 2)):
            items.insert(d.int(0, len(items)), ["assume", d.weighted([(3, 1), (2, 0), (2, 2), (1, 3), (1, 255)])])
    # the whole code area may be assembled under a PHASE offset D (labels = load address + D)
    D = d.weighted([(5, 0), (1, 0x100), (1, 0x40), (1, 0x1000), (1, 0x12)])
    return dict(target=tn, origin=d.choice(TARGETS[tn]["origins"]), items=items, padding=d.bool(0.7), phase=D)


def strategy(tier):
    return strategy_(tier)


def worst_distance(items, i, j):
    """upper bound for the byte distance between item i and item j (markers included)"""
    lo, hi = min(i, j), max(i, j)
    tot = 0
    for it in items[lo:hi + 1]:
        if it[0] == "lab":
            tot += 5
        elif it[0] == "fill":
            tot += it[1] + 1
        elif it[0] == "assume":
            pass
        else:
            tot += 4 + MAXSZ[it[1]] + 1
    return tot


def render(case):
    tn = case["target"]
    t = TARGETS[tn]
    items = case["items"]
    B = t["byte"]
    L = ["\tcpu %s" % t["cpu"]]
    if tn in ("68000", "68020"):
        L.append("\tpadding %s" % ("on" if case["padding"] else "off"))
    L.append("\torg %d" % case["origin"])
    D = case.get("phase", 0)
    if D:
        L.append("\tphase %d" % (case["origin"] + D))
    labpos = {it[1]: i for i, it in enumerate(items) if it[0] == "lab"}
    refs = []
    consts = []
    nforward = 0
    for i, it in enumerate(items):
        if it[0] == "lab":
            k = it[1]
            if tn in ("68000", "68020"):    # word-sized marker: takes part in alignment padding like an instruction
                L.append("lab%d:\tdc.w 42330,%d" % (k, k))
            else:
                L.append("lab%d:\t%s 165,90,%d,%d" % (k, B, k >> 8, k & 255))
        elif it[0] == "assume":
            L.append("\tassume dpr:%d" % it[1])
        elif it[0] == "fill":
            n = it[1]
            if n:
                if tn == "8086":
                    L.append("\tdb %d dup (17)" % n)
                elif tn in ("68000", "68020"):
                    L.append("\tdc.b [%d]17" % n)
                else:
                    L.append("\t%s [%d]17" % (B, n))
        else:
            kind, k, rid = it[1], it[2], it[3]
            if kind == "qimm":
                # a constant that is defined behind all code (forward EQU), used as a quick immediate
                consts.append("qc%d\tequ %d" % (rid, it[4]))
            if kind in ("sbra", "brsx", "brsy", "brcd") and worst_distance(items, i, labpos[k]) > 118:
                kind = "jmp"
            mark = ("\tdc.w 49980,%d" % rid) if tn in ("68000", "68020") else "\t%s 195,60,%d,%d" % (B, rid >> 8, rid & 255)
            fwd = labpos[k] > i
            nforward += fwd
            if kind == "equ":
                L.append("equ%d\tequ lab%d+1" % (rid, k))
            L.append(mark)
            op = {
                "68000": dict(word="dc.l lab%d", abs="lea lab%d,a0", jmp="jmp lab%d", bra="bra lab%d", bsr="bsr lab%d",
                              bsrx="bsr lab%d+0", bcc="beq lab%d", equ="dc.l equ%d", qimm="addq.l #qc%d,d0", selfw=""),
                "68020": dict(word="dc.l lab%d", abs="lea lab%d,a0", jmp="jmp lab%d", bra="bra lab%d", bsr="bsr lab%d",
                              bsrx="bsr lab%d+0", bcc="beq lab%d", equ="dc.l equ%d", qimm="addq.l #qc%d,d0", selfw=""),
                "6502": dict(word="adr lab%d", abs="lda lab%d", jmp="jmp lab%d", sbra="bne lab%d", equ="adr equ%d"),
                "6809": dict(word="fdb lab%d", abs="lda lab%d", jmp="jmp lab%d", bra="lbra lab%d", sbra="bra lab%d",
                             equ="fdb equ%d"),
                "6811": dict(word="fdb lab%d", abs="ldaa lab%d", jmp="jmp lab%d", sbra="bra lab%d", equ="fdb equ%d",
                             brsx="brset 5,x,#16,lab%d", brsy="brset 5,y,#16,lab%d", brcd="brclr 7,#1,lab%d"),
                "8086": dict(word="dw lab%d", abs="mov ax,word ptr [lab%d]", bra="jmp lab%d", equ="dw equ%d"),
            }[tn][kind]
            if kind == "selfw":
                # a long word at an odd address whose first operand is its own label: the label moves with the pad
                # byte, the operand must be the moved value
                L.append("\tdc.b 17")
                L.append("sf%d:\tdc.l sf%d" % (rid, rid))
                refs.append((rid, kind, k, fwd))
                continue
            L.append("\t" + op % (rid if kind in ("equ", "qimm") else k))
            refs.append((rid, kind, k, fwd) if kind != "qimm" else (rid, kind, k, fwd, it[4]))
    if D:
        L.append("\tdephase")
    L += consts
    if t["table"] is None:      # 68020: the table follows the code (the origin is near the top of the address space)
        L.append("\talign 4")
        L.append("\tdc.l 3735928559")
    else:
        L.append("\torg %d" % t["table"])
    for k in sorted(labpos):
        L.append("\t%s lab%d" % ({"68000": "dc.l", "68020": "dc.l", "6502": "adr", "8086": "dw"}.get(tn, "fdb"), k))
    return "\n".join(L) + "\n", refs, labpos


def s8(x):
    return x - 256 if x > 127 else x


def s16(x):
    return x - 65536 if x > 32767 else x


def pages_of(case):
    """{reference id: direct page assumed where the reference stands} (6809 ASSUME DPR items)"""
    out, page = {}, 0
    for it in case["items"]:
        if it[0] == "assume":
            page = it[1]
        elif it[0] == "ref":
            out[it[3]] = page
    return out


def decode(tn, kind, mem, a, dp=0):
    """value encoded by the reference whose first byte is at address a; returns (value, size)"""
    def b(i):
        return mem[a + i]

    def be16(i):
        return (b(i) << 8) | b(i + 1)

    def le16(i):
        return b(i) | (b(i + 1) << 8)
    if tn in ("68000", "68020"):
        if kind in ("word", "equ"):
            return (be16(0) << 16) | be16(2), 4
        if kind == "selfw":
            if b(0) != 17:
                raise ValueError("byte %02x in front of the long word" % b(0))
            o = 1 + ((a + 1) & 1 if dp else 0)        # dp: padding is on
            return (be16(o) << 16) | be16(o + 2), o + 4
        if kind == "qimm":
            if be16(0) & 0xf1ff != 0x5080:
                raise ValueError("opcode %04x" % be16(0))
            return ((be16(0) >> 9) & 7) or 8, 2
        if kind in ("abs", "jmp"):
            op = be16(0)
            want = {"abs": (0x41f8, 0x41f9), "jmp": (0x4ef8, 0x4ef9)}[kind]
            if op == want[0]:
                return s16(be16(2)) & 0xffffffff, 4
            if op == want[1]:
                return (be16(2) << 16) | be16(4), 6
            raise ValueError("opcode %04x" % op)
        opb = {"bra": 0x60, "bsr": 0x61, "bsrx": 0x61, "bcc": 0x67}[kind]
        if kind not in ("bsr", "bsrx") and be16(0) == 0x4e71:
            return a + 2, 2       # a short branch to the next instruction cannot be encoded: NOP does the same
        if b(0) != opb:
            raise ValueError("opcode %02x" % b(0))
        if b(1) == 0:
            return (a + 2 + s16(be16(2))) & 0xffffffff, 4
        if b(1) == 0xff:
            if tn == "68000":
                raise ValueError("32-bit branch on a 68000")
            return (a + 2 + ((be16(2) << 16) | be16(4))) & 0xffffffff, 6
        return (a + 2 + s8(b(1))) & 0xffffffff, 2
    if tn == "6502":
        if kind in ("word", "equ"):
            return le16(0), 2
        if kind == "abs":
            if b(0) == 0xa5:
                return b(1), 2
            if b(0) == 0xad:
                return le16(1), 3
        if kind == "jmp" and b(0) == 0x4c:
            return le16(1), 3
        if kind == "sbra" and b(0) == 0xd0:
            return (a + 2 + s8(b(1))) & 0xffff, 2
        raise ValueError("opcode %02x" % b(0))
    if tn in ("6809", "6811"):
        if kind in ("word", "equ"):
            return be16(0), 2
        if kind == "abs":
            if b(0) == 0x96:
                return (dp << 8) | b(1), 2
            if b(0) == 0xb6:
                return be16(1), 3
        if kind == "jmp":
            if b(0) == 0x0e and tn == "6809":
                return (dp << 8) | b(1), 2
            if b(0) == 0x7e:
                return be16(1), 3
        if kind == "bra" and b(0) == 0x16:
            return (a + 3 + s16(be16(1))) & 0xffff, 3
        if kind == "sbra" and b(0) == 0x20:
            return (a + 2 + s8(b(1))) & 0xffff, 2
        # 68HC11 bit-test branches: direct, X-indexed, Y-indexed (page prefix 18h); the displacement counts from the
        # end of the instruction
        if kind == "brcd" and b(0) == 0x13:
            return (a + 4 + s8(b(3))) & 0xffff, 4
        if kind == "brsx" and b(0) == 0x1e:
            return (a + 4 + s8(b(3))) & 0xffff, 4
        if kind == "brsy" and b(0) == 0x18 and b(1) == 0x1e:
            return (a + 5 + s8(b(4))) & 0xffff, 5
        raise ValueError("opcode %02x" % b(0))
    if tn == "8086":
        if kind in ("word", "equ"):
            return le16(0), 2
        if kind == "abs" and b(0) == 0xa1:
            return le16(1), 3
        if kind == "abs" and b(0) == 0x2e and b(1) == 0xa1:     # CS: override for a label in the code segment
            return le16(2), 4
        if kind == "bra":
            if b(0) == 0xeb:
                return (a + 2 + s8(b(1))) & 0xffff, 2
            if b(0) == 0xe9:
                return (a + 3 + s16(le16(1))) & 0xffff, 3
        raise ValueError("opcode %02x" % b(0))
    raise ValueError(tn)


SYMTAB = re.compile(r"Symbol Table.*?\n(.*?)\n\s*\d+ symbols?", re.S | re.I)
SYMENT = re.compile(r"[* ]?(\S+) :\s+(.*?) (\S) \|")


def symtab(lst):
    """{symbol name: (value text, segment letter)} of the listing's symbol table; the unused marker '*' is not a
    value, DATE/TIME change with the clock"""
    if lst is None:
        return None
    m = SYMTAB.search(lst.decode("latin-1"))
    if not m:
        return None
    out = {}
    for line in m.group(1).split("\n"):
        if line.startswith(" AS V") or "Symbol Table" in line:
            continue
        for name, val, seg in SYMENT.findall(line):
            name = name.lstrip("*")
            if name not in ("TIME", "DATE"):
                out[name] = (val.strip(), seg)
    return out


def execute(case):
    if "shadow" in case:
        return execute_shadow(case)
    if "golden" in case:
        return execute_golden(case)
    tn = case["target"]
    src, refs, labpos = render(case)
    classes = ["cpu:" + tn]
    env = {"ASL_VERIF_MAX_PASSES": "200"}
    r = asl.assemble({"t.asm": src}, args=("-L",), env=env, want=("t.lst",), timeout=60, cpu=40)
    if r.timed_out:
        return engine.inconclusive("timeout", classes)
    items = case["items"]
    has_odd = tn in ("68000", "68020") and case["padding"]
    nfwd = sum(1 for x in refs if x[3])
    nt = []
    if nfwd:
        nt.append("fwd")
    if any(x[1] in ("abs", "jmp", "bra", "bsr", "bsrx", "bcc") and x[3] for x in refs):
        nt.append("fwd-varsize")
    if has_odd and any(it[0] == "fill" and it[1] % 2 for it in items):
        nt.append("pad")
    classes += nt
    key = None
    if nt:
        key = "%s|%d|%s|%s" % (tn, case["origin"], ",".join(nt),
                               "".join(it[0][0] + (it[1][0] if it[0] == "ref" else "") for it in items))
    detail = dict(src=src, **r.brief())
    if r.signal:
        return engine.bad("asl killed by signal %d" % r.signal, key, classes, **detail)
    if r.status == 97:
        return engine.bad("pass livelock: the per-pass symbol tables repeat and another pass is still requested",
                          key, classes + ["livelock"], **detail)
    if r.status == 98:
        return engine.inconclusive("no convergence within 200 passes", classes)
    if r.status != 0 or r.p is None:
        return engine.bad("valid program rejected: status %s" % r.status, key, classes, **detail)
    mem, dup = pfile_map(r)
    if mem is None:
        return engine.bad("code file not well formed", key, classes, **detail)
    # label addresses from markers
    labaddr = {}
    for k in labpos:
        pat = bytes([0xa5, 0x5a, k >> 8, k & 255])
        hits = find_all(mem, pat)
        if len(hits) != 1:
            return engine.discarded("marker-not-unique", classes)
        labaddr[k] = hits[0]
    t = TARGETS[tn]
    D = case.get("phase", 0)
    amask = 0xffffffff if tn in ("68000", "68020") else 0xffff
    if D:
        classes.append("phased")
    # table words
    tbase = t["table"]
    if tbase is None:
        hits = find_all(mem, bytes([0xde, 0xad, 0xbe, 0xef]))
        if len(hits) != 1:
            return engine.discarded("marker-not-unique", classes)
        tbase = hits[0] + 4
    for i, k in enumerate(sorted(labpos)):
        a = tbase + i * t["wordsz"]
        try:
            v, _ = decode(tn, "word", mem, a)
        except (KeyError, ValueError) as e:
            return engine.bad("reference table entry %d unreadable: %s" % (i, e), key, classes, **detail)
        if v != (labaddr[k] + D) & amask:
            return engine.bad("table word for lab%d holds $%x, the label is at $%x (+ phase $%x)" % (k, v, labaddr[k], D),
                              key, classes, **detail)
    # references
    npass = len(re.findall(r"^PASS ", r.out, re.M))
    pages = pages_of(case)
    if any(it[0] == "assume" for it in items):
        classes.append("assume-dpr")
    for ref in refs:
        rid, kind, k, fwd = ref[:4]
        pat = bytes([0xc3, 0x3c, rid >> 8, rid & 255])
        hits = find_all(mem, pat)
        if len(hits) != 1:
            return engine.discarded("marker-not-unique", classes)
        a = hits[0] + 4
        try:
            v, size = decode(tn, kind, mem, a, pages.get(rid, 0) if kind != "selfw" else case["padding"])
        except (KeyError, ValueError) as e:
            return engine.bad("reference %d (%s lab%d) not decodable at $%x: %s" % (rid, kind, k, a, e), key, classes,
                              **detail)
        relative = kind in ("bra", "bsr", "bsrx", "bcc", "sbra", "brsx", "brsy", "brcd")
        # PC-relative fields decode (from the load address) to the target's load address; absolute ones hold the
        # symbol value = load address + phase offset
        want = labaddr[k] if relative else (labaddr[k] + D + (1 if kind == "equ" else 0)) & amask
        if kind == "selfw":
            want = (a + size - 4 + D) & amask
            if v != want:
                return engine.bad("reference %d (sf%d: dc.l sf%d behind one byte at $%x) holds $%x, the padded long word "
                                  "and its label are at $%x" % (rid, rid, rid, a, v, want), key, classes, **detail)
            continue
        if kind == "qimm":
            want = ref[4]
            if v != want:
                return engine.bad("reference %d (addq.l #qc%d at $%x) encodes the immediate %d, the constant defined "
                                  "behind the code is %d" % (rid, rid, a, v, want), key, classes, **detail)
            continue
        if v != want:
            return engine.bad("reference %d (%s to lab%d at $%x) encodes $%x, the symbol finally is $%x"
                              % (rid, kind, k, a, v, want), key, classes, **detail)
    # fixpoint: one forced extra pass
    r2 = asl.assemble({"t.asm": src}, args=("-L",), env=dict(env, ASL_VERIF_EXTRA_PASSES="1"), want=("t.lst",),
                      timeout=60, cpu=40)
    if r2.timed_out:
        return engine.inconclusive("timeout", classes)
    if r2.status != 0 or r2.p != r.p:
        return engine.bad("one further pass changes the code file (status %s)" % r2.status, key, classes,
                          stderr2=r2.err[-300:], **detail)
    if symtab(r2.files["t.lst"]) != symtab(r.files["t.lst"]) or symtab(r.files["t.lst"]) is None:
        return engine.bad("one further pass changes the symbol table", key, classes, **detail)
    return engine.ok(key, classes)


def pfile_map(r):
    from vf import pfile
    try:
        recs = pfile.parse(r.p, strict=True)
    except pfile.FormatError:
        return None, None
    m, dup = pfile.bytemap(recs, seg=1)
    return {a: b for (s, a), b in m.items()}, dup


def find_all(mem, pat):
    out = []
    n = len(pat)
    for a in mem:
        if mem[a] == pat[0] and all(mem.get(a + i) == pat[i] for i in range(1, n)):
            out.append(a)
    return out


def execute_golden(case):
    name = case["golden"]
    classes = ["golden"]
    src = None
    edited = bool(case.get("tail") or case.get("var"))
    if edited:
        src = corpus.load(name)["src"]
        if case.get("var"):
            src = variants.apply(src, case["var"])
            classes.append("golden-variant")
        if case.get("tail"):
            src = statepool.append_before_end(src, case["tail"])
            classes.append("state-at-end")
            classes += ["tail:" + t.split()[0] for t in case["tail"]]
    r1 = golden.assemble_golden(name, src=src, args=("-L",), want=(name + ".lst",), env={"ASL_VERIF_MAX_PASSES": "400"})
    if r1["timed_out"]:
        return engine.inconclusive("timeout", classes)
    if r1["status"] == 98:
        return engine.inconclusive("pass cap", classes)
    if edited:
        if r1["status"] != 0 or r1["p"] is None:
            return engine.discarded("edited-golden-invalid", classes)
    elif not r1["ok"]:
        return engine.bad("golden test %s does not reproduce its .ori (status %s)" % (name, r1["status"]), name,
                          classes, stderr=r1["r"].err[-400:])
    r2 = golden.assemble_golden(name, src=src, args=("-L",), want=(name + ".lst",),
                                env={"ASL_VERIF_MAX_PASSES": "400", "ASL_VERIF_EXTRA_PASSES": "1"})
    if r2["timed_out"]:
        return engine.inconclusive("timeout", classes)
    key = "golden:" + name + (":" + engine.digest(str(case.get("tail")) + str(case.get("var")))[:8] if edited else "")
    if r2["status"] != 0 or r2["p"] != r1["p"]:
        return engine.bad("one further pass changes the code file of %s%s (status %s)"
                          % (name, " + %s" % case["tail"] if case.get("tail") else "", r2["status"]), key,
                          classes, stderr=r2["r"].err[-400:])
    s1, s2 = symtab(r1["files"][name + ".lst"]), symtab(r2["files"][name + ".lst"])
    if s1 != s2 or (s1 is None and not edited):       # (LISTING OFF at the end suppresses the table in both runs)
        return engine.bad("one further pass changes the symbol table of %s" % name, key, classes)
    return engine.ok(key, classes)


def show(case):
    if "golden" in case or "shadow" in case:
        return case
    return dict(target=case["target"], origin=case["origin"], padding=case["padding"], items=case["items"])


def fixed_cases(tier):
    out = [dict(golden=n) for n in corpus.names()]
    # the padding fix-up path and threshold layouts
    for pad in (True, False):
        out.append(dict(target="68000", origin=0, padding=pad,
                        items=[["ref", "word", 0, 0], ["fill", 1], ["lab", 0]]))
        out.append(dict(target="68000", origin=0, padding=pad,
                        items=[["ref", "bra", 0, 0], ["fill", 125], ["fill", 1], ["lab", 0], ["ref", "bsr", 0, 1]]))
    out.append(dict(target="68000", origin=0, padding=True, items=[["ref", "bsrx", 0, 0], ["lab", 0]]))
    for pad in (True, False):
        for n in (0, 1, 2, 3):
            out.append(dict(target="68000", origin=0, padding=pad, phase=0,
                            items=[["lab", 0], ["fill", n], ["ref", "selfw", 0, 0], ["ref", "selfw", 0, 1], ["lab", 1]]))

    for org in (0x7ffffe00, 0x80000000, 0xffff7f00):
        for pad in (True, False):
            out.append(dict(target="68020", origin=org, padding=pad,
                            items=[["ref", "word", 0, 0], ["ref", "bra", 1, 1], ["fill", 1], ["lab", 0], ["fill", 131],
                                   ["lab", 1], ["ref", "abs", 0, 2], ["ref", "jmp", 1, 3]]))
    for tn in ("6502", "6809", "6811"):
        for org in (0xe8, 0xf4, 0xf8):
            out.append(dict(target=tn, origin=org, padding=False,
                            items=[["ref", "abs", 0, 0], ["ref", "abs", 1, 1], ["ref", "jmp", 0, 2], ["fill", 2],
                                   ["lab", 0], ["fill", 1], ["lab", 1], ["ref", "abs", 0, 3]]))
    return out


def _k_bsr_expr_next(case, out):
    """68000 family: BSR whose operand is an expression (here lab+0) and whose target is the instruction
    directly behind the BSR; only the livelock outcome is covered"""
    if "golden" in case or case.get("target") not in ("68000", "68020"):
        return False
    if "livelock" not in out.classes and "status 97" not in out.why:
        return False
    items = case["items"]
    for i, it in enumerate(items):
        if it[0] == "ref" and it[1] == "bsrx":
            j = i + 1
            while j < len(items) and items[j][0] == "fill" and items[j][1] == 0:
                j += 1
            while j < len(items) and items[j][0] == "lab":
                if items[j][1] == it[2]:
                    return True
                j += 1
    return False


def _k_absw_top(case, out):
    """68000 family, code just below $FFFF8000: a forward absolute operand (lea/jmp) whose target crosses
    $FFFF8000 when the instruction takes its long form becomes short-addressable (abs.w is sign extended), the short
    form moves it back below: livelock only"""
    if "golden" in case or case.get("target") not in ("68000", "68020") or case.get("origin", 0) < 0xffff0000:
        return False
    if "livelock" not in out.classes and "status 97" not in out.why:
        return False
    items = case["items"]
    labpos = {it[1]: i for i, it in enumerate(items) if it[0] == "lab"}
    return any(it[0] == "ref" and it[1] in ("abs", "jmp") and labpos.get(it[2], -1) > i for i, it in enumerate(items))


def _k_dpr_page(case, out):
    """6809 with ASSUME DPR:<page != 0>: a forward auto-sized operand (lda/jmp) whose target sits on the first
    bytes of the assumed page when the instruction takes its extended form and in the page below when it takes
    the direct form: livelock only"""
    if "golden" in case or case.get("target") != "6809":
        return False
    if "livelock" not in out.classes and "status 97" not in out.why:
        return False
    items = case["items"]
    if not any(it[0] == "assume" and it[1] != 0 for it in items):
        return False
    labpos = {it[1]: i for i, it in enumerate(items) if it[0] == "lab"}
    # a short branch whose target may be out of reach is written as 'jmp lab' by render()
    return any(it[0] == "ref" and labpos.get(it[2], -1) > i and
               (it[1] in ("abs", "jmp") or (it[1] == "sbra" and worst_distance(items, i, labpos[it[2]]) > 118))
               for i, it in enumerate(items))


KNOWN = {
    "dpr-page-oscillation": ("6809 with a non-zero assumed direct page: forward 'lda lab' / 'jmp lab' with lab within a "
                             "byte of the start of the assumed page flips between the extended form (lab inside the page, "
                             "direct addressing possible) and the direct form (lab one byte lower, outside the page) - "
                             "the pass loop never ends", _k_dpr_page),
    "absw-top-oscillation": ("68000 family: forward 'lea lab,a0' / 'jmp lab' with lab within a few bytes of $FFFF8000: "
                             "the long form pushes lab to >= $FFFF8000 where abs.w (sign extended) fits, the short "
                             "form pulls it back below - the pass loop never ends", _k_absw_top),
    "bsr-expr-next": ("68000 family: 'bsr next+0' (operand is an expression, target directly behind the BSR) "
                      "oscillates between the 8 and 16 bit form for ever; only a plain label operand carries the "
                      "NextLabelAfterBSR flag that prevents this", _k_bsr_expr_next),
}
