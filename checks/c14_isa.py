"""C14  Machine instructions encode as the target's instruction set defines.

Generated domain: batches of 100-250 single instructions of one processor, each at its own ORG
slot, drawn from the reference form tables in vf/isa/*.py (written from the manufacturers'
instruction-set definitions).  Oracle: the tables' reference encoders (bytes at the slot in the code
file), PC-relative fields decoded back to the target address, and - for an operand one or more
beyond an encodable limit - an error on exactly that line with nothing emitted.
"""
import hashlib
import os
from vf import engine, asl
from vf.gen import composite
from vf import isa as isa_pkg
from vf.isa import listing

ID = "C14"
ISAS = isa_pkg.load()
NAMES = sorted(ISAS)

RULE = ("case = one program for one CPU (" + ", ".join(NAMES) + "): 100-250 instructions (MSP430: 100-150), each "
        "`ORG slot` + one instruction drawn from the reference form table (mnemonic x addressing mode x register), at "
        "varying start offsets inside the slot; operands at 0, the field limits, limits +-1, constant-generator values "
        "and random interior values, written as decimal or default-syntax hex literal or through a symbol EQU'd "
        "before; PC-relative targets given as number, PC expression (*+n / $+n), backward label or forward label "
        "placed by ORG at an exact distance in a band around both displacement limits.  mode ok: all operands "
        "encodable -> code-file bytes at the slot == reference encoding (bits the manufacturer marks don't-care "
        "masked), relative field decoded back to the target; mode rej / rejfwd: exactly one operand beyond its limit "
        "(+1, +2, far, valid value + 2^16/2^32) -> error on that line, empty code field in the listing line, status "
        "!= 0.  An instruction case is non-trivial when an operand is at a limit, limit+-1 or a special value, or a "
        "branch is within 2 of a displacement limit; distinct = (cpu, form, operand, class), reported as "
        "distinct_item_nontrivial; the batch key is the set of its items' keys.  fixed_cases visit every form of every "
        "table with every boundary value and every register (forms_covered == forms_total), the page-end positions of "
        "the 4004 and both ends of the AVR's 4K program memory.")

ASSUMPTIONS = [
    "reference tables written from the manufacturers' instruction-set definitions (MOS MCS6500 / R65C02 opcode "
    "matrix, Intel 8080/8085 and MCS-4/40 manuals, Zilog Z80 CPU manual, TI MSP430x1xx family guide, Microchip "
    "PIC16C84 data sheet, Atmel AVR instruction set for the AT90S8515); cross-checked once against the golden images "
    "of the corresponding tests (vf.isa.selftest)",
    "6502: a known address < $100 selects the zero-page form where the instruction has one (MOS assembler "
    "convention); the undocumented '<'/'>' size prefixes are not generated",
    "negative addresses and negative unsigned fields are not generated unless the field is documented as signed "
    "(asl accepts e.g. -1 as $FFFF for some 16-bit operands; the property does not settle this)",
    "8-bit immediates are valid from -128 to 255 (two's complement or unsigned reading); 256 and -129 must be rejected",
    "undocumented opcodes, CPU-variant extensions and assembler-specific synonyms are not generated",
    "word-addressed targets (PIC, AVR): code-file words are little endian (doc/file-formats.md: multi-byte values "
    "are stored little endian)",
    "6502 (NMOS): JMP ($xxFF) is not generated (asl refuses it because of the page-wrap bug of the NMOS part); it "
    "is generated for 65C02 and W65C02S, whose data sheets define it",
    "4004/4040: JCN and ISZ take their 8-bit address in the ROM page of the following instruction (MCS-4 manual: "
    "located at words 254/255 they branch into the next page); register pairs are written RnRm as the manual "
    "documents, JCN conditions as 4-bit numbers",
    "PIC16C84: file-register operands are generated as the 7-bit field value 0..127 only (larger data addresses "
    "carry bank bits, asl masks them); CALL/GOTO targets 0..$3FF (program memory of the device) are valid, "
    "$400..$7FF are not generated, >= $800 (beyond the 11-bit field) must be rejected; OPTION/TRIS (obsolete) are "
    "not generated; omitted destination = the default documented in processor-specific-hints.md",
    "MSP430: not generated: R3 as explicit register (asl rejects it), PC/SR/R3 as base of indexed/indirect "
    "operands, a zero index in a source operand (asl shortens 0(Rn) to @Rn), byte immediates of 255, "
    "PUSH/CALL/BR immediates a constant generator could produce, @Rn as destination; for byte operations the high "
    "byte of an immediate extension word is not compared; word immediate 65535 is the constant -1; symbolic mode "
    "reaches every address modulo 64K (SLAU049), so it has no rejectable distance; `rlc @Rn+` = `addc @Rn+,-2(Rn)` "
    "as documented in processor-specific-hints.md",
    "AVR: AT90S8515 instruction list (118 instructions, no MUL/JMP/CALL/MOVW/extended LPM); WRAPMODE stays off, so "
    "RJMP/RCALL beyond +-2K words must be rejected; targets outside the 4K-word program memory are not generated",
    "Z80: RST operands are the restart addresses 0,8,..,38h (Zilog notation); undocumented SLL and IX/IY halves "
    "are not generated",
    "rejection = at least one error diagnostic on the instruction's line, status != 0 and an empty code field in the "
    "listing line (the code file is not written when errors occurred)",
]

MAXITEMS = 250


def budget(tier):
    # development aid only (never set by the registered commands): VERIF_C14_EXAMPLES=<n>
    import os
    n = os.environ.get("VERIF_C14_EXAMPLES")
    return dict(examples=int(n) if n else (2500 if tier == "quick" else 36000), shards=16)


# ---------------------------------------------------------------- generation

def rejectable(form):
    return [i for i, o in enumerate(form.ops) if o.boundary_rej()]


REJ_FORMS = {n: [fi for fi, f in enumerate(I.forms) if rejectable(f)] for n, I in ISAS.items()}
REL_FORMS = {n: [fi for fi, f in enumerate(I.forms) if any(o.kind == "rel" and o.boundary_rej() for o in f.ops)]
             for n, I in ISAS.items()}


# storage address minus execution address for batches assembled under PHASE
PHASES = [0x100, -0x100, 0x10, -0x10, 0x1000, 0x800, -0x800]

# larger tables get more batches
WEIGHTED = [(3 + len(ISAS[n].forms) // 60, n) for n in NAMES]


@composite
def strategy_(d, tier):
    name = d.weighted(WEIGHTED)
    I = ISAS[name]
    mode = d.weighted([(6, "ok"), (3, "rej"), (1, "rejfwd")])
    if mode == "rejfwd" and not REL_FORMS[name]:
        mode = "rej"
    if mode == "rej" and not REJ_FORMS[name]:
        mode = "ok"
    pool = {"ok": None, "rej": REJ_FORMS[name], "rejfwd": REL_FORMS[name]}[mode]
    # 100..maxitems instructions; the rare small branch (first in shrink order) lets the shrinker cut a
    # failing batch down to the single failing instruction
    if d.int(0, 999) < 40:
        n = d.int(1, I.maxitems)
    else:
        n = d.int(min(100, I.maxitems), I.maxitems)
    items = []
    for _ in range(n):
        fi = d.int(0, len(I.forms) - 1) if pool is None else d.choice(pool)
        f = I.forms[fi]
        vals = [o.draw_ok(d) for o in f.ops]
        if mode == "rej":
            bad = d.choice(rejectable(f))
            vals[bad] = f.ops[bad].draw_rej(d)
        elif mode == "rejfwd":
            bad = [i for i, o in enumerate(f.ops) if o.kind == "rel" and o.boundary_rej()][0]
            vals[bad] = f.ops[bad].draw_rej(d)
        sty = d.int(0, 511)
        off = d.choice(I.offsets) if len(I.offsets) > 1 else I.offsets[0]
        items.append([fi, vals, sty, off])
    case = dict(isa=name, mode=mode, items=items)
    if d.int(0, 99) < 15:
        # the whole batch stored away from where it is meant to run
        case["phase"] = d.choice(PHASES)
    return case


def strategy(tier):
    return strategy_(tier)


def _chunks(name, mode, items):
    return [dict(isa=name, mode=mode, items=items[i:i + MAXITEMS]) for i in range(0, len(items), MAXITEMS)]


def _edge_chunks(I, mode, edge):
    """place every item so that its pc is the last position of a page from which the instruction still
    starts in that page (filler: form 0, which has no operands)"""
    if not edge:
        return []
    page, want = I.page_end
    out, cur = [], []
    for fi, vals, sty, _ in edge:
        while True:
            if len(cur) >= MAXITEMS - 1:
                out.append(dict(isa=I.name, mode=mode, items=cur))
                cur = []
            base = I.base + len(cur) * I.slot
            offs = [o for o in range(0, I.slot) if (base + o) % page == want]
            if offs:
                cur.append([fi, vals, sty, offs[0]])
                break
            cur.append([FILLER[I.name][mode], FILLER_VALS[I.name][mode], 0, 0])
    if cur:
        out.append(dict(isa=I.name, mode=mode, items=cur))
    return out


def _filler(I, mode):
    for fi, f in enumerate(I.forms):
        if mode == "ok" and not f.ops:
            return fi, []
        if mode == "rej" and len(f.ops) == 1 and f.ops[0].kind == "int" and f.ops[0].boundary_rej():
            return fi, [f.ops[0].boundary_rej()[0]]
    return 0, []


FILLER = {n: {m: _filler(I, m)[0] for m in ("ok", "rej")} for n, I in ISAS.items()}
FILLER_VALS = {n: {m: _filler(I, m)[1] for m in ("ok", "rej")} for n, I in ISAS.items()}


def fixed_cases(tier):
    """every form of every table with every boundary value of every operand (mode ok), every limit+1/+2,
    limit-1/-2 (mode rej), and every relative form beyond both limits through a forward label (rejfwd)"""
    out = []
    for name in NAMES:
        I = ISAS[name]
        okitems, rejitems, fwditems, edgeitems, edgerej = [], [], [], [], []
        for fi, f in enumerate(I.forms):
            bounds = [o.boundary_ok() for o in f.ops]
            n = max([len(b) for b in bounds], default=1)
            for j in range(max(n, 1)):
                vals = [b[j % len(b)] for b in bounds]
                # style: cycle hex/dec and number / backward / forward label
                sty = (j * 37 + fi * 5) % 256 | ((j + fi) & 1) << 8
                if any(o.kind == "rel" for o in f.ops):
                    sty = (sty & 0xcf) | ((j % 4) << 4)
                okitems.append([fi, vals, sty, I.offsets[(j + fi) % len(I.offsets)]])
                if I.page_end and any(o.kind == "rel" for o in f.ops):
                    edgeitems.append([fi, vals, sty, None])
            for oi, o in enumerate(f.ops):
                for k, rv in enumerate(o.boundary_rej()):
                    vals = [b[(k + 1) % len(b)] for b in bounds]
                    vals[oi] = rv
                    rejitems.append([fi, vals, (k * 71 + fi * 3) % 256, I.offsets[k % len(I.offsets)]])
                    if o.kind == "rel":
                        fwditems.append([fi, list(vals), (k * 3 + fi) % 16, I.offsets[k % len(I.offsets)]])
                        if I.page_end:
                            edgerej.append([fi, list(vals), (k * 7 + fi) % 64, None])
        out += _chunks(name, "ok", okitems) + _chunks(name, "rej", rejitems) + _chunks(name, "rejfwd", fwditems)
        out += _edge_chunks(I, "ok", edgeitems) + _edge_chunks(I, "rej", edgerej)
        # the boundary batches once more under PHASE (quick: a third of the tables per seed)
        ni = NAMES.index(name)
        if tier != "quick" or ni % 3 == engine.seed_from_env() % 3:
            ph = PHASES[ni % len(PHASES)]
            for ch in _chunks(name, "ok", okitems) + _chunks(name, "rejfwd", fwditems) + _edge_chunks(I, "ok", edgeitems):
                out.append(dict(ch, phase=ph))
        if I.straddle:
            # program memory is just as large as the reach of the long relative forms: visit their limits
            # once from the first and once from the last slots of a batch
            for mode, lst in (("ok", okitems), ("rej", rejitems), ("rejfwd", fwditems)):
                rel = [it for it in lst if any(o.kind == "rel" and o.hi - o.lo > 1000 for o in I.forms[it[0]].ops)]
                for k in range(0, len(rel), 60):
                    part = rel[k:k + 60]
                    if mode == "rejfwd":        # every item of such a batch must be a forward reject
                        out.append(dict(isa=name, mode=mode, items=part))
                        continue
                    fill = [[FILLER[name][mode], FILLER_VALS[name][mode], 0, 0]] * (MAXITEMS - 2 * len(part))
                    out.append(dict(isa=name, mode=mode, items=part + fill + [list(p) for p in part]))
    return out


# ---------------------------------------------------------------- program construction

def build_program(case):
    """-> (source text, [per item: dict(line, pc, text, cls, vals, form, target)])"""
    I = ISAS[case["isa"]]
    mode = case["mode"]
    head = ["\tcpu\t" + I.cpu] + list(I.prologue)
    pre, body, post = [], [], []
    infos = []
    P = phase_shift(case)
    for idx, (fi, vals, sty, off) in enumerate(case["items"]):
        f = I.forms[fi]
        pc = I.base + idx * I.slot + off
        cls = f.classify(vals, pc)
        info = dict(idx=idx, fi=fi, form=f, vals=vals, pc=pc, cls=cls, line=None, text=None, target=None,
                    end=I.base + (idx + 1) * I.slot)
        infos.append(info)
        if cls == "excl" or len(vals) != len(f.ops):
            info["cls"] = "excl"
            continue
        texts = []
        for oi, (o, v) in enumerate(zip(f.ops, vals)):
            hexa = bool((sty >> oi) & 1)
            if o.kind == "rel":
                tgt = o.target(v, pc)
                info["target"] = tgt
                info.setdefault("targets", {})[oi] = tgt
                if tgt < 0 or tgt > I.maxaddr:
                    info["cls"] = "excl"
                    break
                st = (sty >> 4) & 3
                if mode == "rejfwd":
                    st = 2
                elif mode == "rej" and st == 2:
                    st = 1      # errors in pass 1 would suppress pass 2: only known targets here
                if st == 3 and I.pcsym and mode != "rejfwd":
                    # the target written relative to the program-counter symbol of the target's syntax
                    texts.append("%s%+d" % (I.pcsym, tgt - pc))
                    info["pcexpr"] = True
                elif st in (1, 2):
                    lab = "T%d_%d" % (idx, oi)
                    (pre if st == 1 else post).extend(["\torg\t" + lit(I, tgt, True), lab + ":"])
                    texts.append(lab)
                else:
                    texts.append(lit(I, tgt, hexa))
            elif o.kind == "int" and oi < 2 and (sty >> (6 + oi)) & 1:
                # operand given through a symbol defined (EQU) before the instruction
                sym = "V%d_%d" % (idx, oi)
                pre.append("%s\tequ\t%s" % (sym, lit(I, v, hexa)))
                texts.append(("+" if getattr(o, "plus", False) else "") + sym)
                info["symbolic"] = True
            else:
                texts.append(o.render(v, I.syntax, hexa))
        if info["cls"] == "excl":
            continue
        info["text"] = f.fmt.format(*texts)
        if f.note == "W" and (sty >> 8) & 1:
            # TI: the suffix .W is the explicit spelling of the default operand size
            m, _, rest = info["text"].partition(" ")
            info["text"] = m + ".W " + rest
            info["wsuffix"] = True
        if P:
            # stored at pc + P, meant to run at pc: everything the instruction set defines relative to "the
            # address of the instruction" (branches, pages, alignment) refers to pc
            body.append(("\torg\t" + lit(I, pc + P, True), None))
            body.append(("\tphase\t" + lit(I, pc, True), None))
            body.append(("\t" + info["text"], info))
            body.append(("\tdephase", None))
            continue
        body.append(("\torg\t" + lit(I, pc, True), None))
        body.append(("\t" + info["text"], info))
    lines = head + pre
    for text, info in body:
        lines.append(text)
        if info is not None:
            info["line"] = len(lines)
    lines += post
    return "\n".join(lines) + "\n", infos


def phase_shift(case):
    """physical minus logical address of every instruction of the batch (0: no PHASE)"""
    P = case.get("phase") or 0
    if os.environ.get("VERIF_C14_PHASE"):
        P = int(os.environ["VERIF_C14_PHASE"], 0)
    if not P or not case["items"]:
        return 0
    I = ISAS[case["isa"]]
    lo = I.base
    hi = I.base + len(case["items"]) * I.slot
    if lo + P < 0 or hi + P > I.maxaddr:
        return 0
    return P


def lit(I, v, hexa):
    from vf.isa.common import lit as _lit
    return _lit(v, I.syntax, hexa)


def item_key(I, info):
    """operand class key of a non-trivial item or None"""
    f = info["form"]
    ks = []
    for oi, (o, v) in enumerate(zip(f.ops, info["vals"])):
        c = o.opclass(v)
        if c and c != "zero":
            ks.append("%d@%s" % (oi, c))
    if not ks:
        return None
    return "%s|%s|%s" % (I.name, f.name, ",".join(ks))


# ---------------------------------------------------------------- oracle

def execute(case):
    I = ISAS[case["isa"]]
    mode = case["mode"]
    src, infos = build_program(case)
    P = phase_shift(case)
    live = [i for i in infos if i["cls"] != "excl"]
    nexcl = len(infos) - len(live)
    classes = []
    ntkeys = set()
    for i in live:
        # forms_covered counts forms whose encoding was compared (mode ok); rejections are counted apart
        classes.append("%s:%s:%d" % ("f" if mode == "ok" else "r", I.name, i["fi"]))
        k = item_key(I, i)
        if k:
            ntkeys.add(k)
            classes.append("nt:" + k)
    agg = ["isa:" + I.name] * len(live) + ["mode:" + mode] * len(live) + ["items"] * len(live)
    agg += ["items-nontrivial"] * sum(1 for i in live if item_key(I, i))
    agg += ["items-operand-via-symbol"] * sum(1 for i in live if i.get("symbolic"))
    agg += ["items-rel-as-pc-expression"] * sum(1 for i in live if i.get("pcexpr"))
    agg += ["items-explicit-.W"] * sum(1 for i in live if i.get("wsuffix"))
    agg += ["items-with-rel"] * sum(1 for i in live if i["target"] is not None)
    agg += ["excluded-by-classify"] * nexcl
    if P:
        agg += ["items-under-phase"] * len(live)
    classes += agg + ["batch:" + I.name + ":" + mode]
    key = None
    if ntkeys:
        key = I.name + "|" + mode + "|" + hashlib.sha1("\n".join(sorted(ntkeys)).encode()).hexdigest()[:16]
    if not live:
        return engine.discarded("empty batch", classes)
    # in ok mode a form classified 'rej' cannot be judged here
    if mode == "ok":
        wrong = [i for i in live if i["cls"] != "ok"]
    else:
        wrong = [i for i in live if i["cls"] == "ok"]
    if wrong:
        return engine.discarded("mode/classification mismatch", classes)

    r = asl.assemble({"t.asm": src}, args=("-L",), want=("t.lst",))
    if r.timed_out:
        return engine.inconclusive("timeout", classes)
    detail = dict(isa=I.name, mode=mode, status=r.status, stderr=r.err[-1500:])
    if r.signal:
        return engine.bad("asl killed by signal %d" % r.signal, key, classes, source=src, **detail)
    diags = asl.diagnostics(r.err) + asl.diagnostics(r.out)
    errs = {}
    for dg in diags:
        if dg["kind"] == "error":
            errs.setdefault(dg["line"], []).append(dg["msg"])
    byline = {i["line"]: i for i in live}

    def describe(i):
        return "%s `%s` at %s" % (i["form"].name, i["text"], lit(I, i["pc"], True))

    if mode == "ok":
        for ln in sorted(errs):
            if ln in byline:
                i = byline[ln]
                return engine.bad("[%s] legal instruction rejected: %s: %s" % (I.name, describe(i), "; ".join(errs[ln])),
                                  key, classes, text=i["text"], form=i["form"].name, **detail)
        if errs or r.status != 0:
            return engine.bad("[%s] errors outside the instruction lines / status %s" % (I.name, r.status), key,
                              classes, source=src[:3000], **detail)
        if r.p is None:
            return engine.bad("no code file", key, classes, **detail)
        bm = r.bytemap(seg=1)
        g = I.gran
        for i in live:
            f = i["form"]
            exp = bytes(f.enc(i["pc"], i["vals"]))
            lo = (i["pc"] + P) * g
            hi = (i["end"] + P) * g
            got = bytearray()
            a = lo
            while (1, a) in bm and a < hi:
                got.append(bm[(1, a)])
                a += 1
            stray = [x for x in range(lo, hi) if (1, x) in bm and x >= a]
            got = bytes(got)
            same = got == exp
            if not same and f.dontcare and len(got) == len(exp):
                dc = (f.dontcare + bytes(len(exp)))[:len(exp)]
                same = all((a ^ b) & ~m & 0xff == 0 for a, b, m in zip(got, exp, dc))
            if not same or stray:
                return engine.bad("[%s] %s: code file has %s, instruction set prescribes %s"
                                  % (I.name, describe(i), got.hex(" ") or "nothing", exp.hex(" ")),
                                  key, classes, text=i["text"], form=f.name, got=got.hex(), expected=exp.hex(),
                                  **detail)
            for oi, dec in ([f.rel] if isinstance(f.rel, tuple) else (f.rel or [])):
                o = f.ops[oi]
                back = o.target(dec(got), i["pc"])
                if back != i["targets"][oi]:
                    return engine.bad("[%s] %s: relative field decodes to %s, target is %s"
                                      % (I.name, describe(i), lit(I, back, True), lit(I, i["targets"][oi], True)),
                                      key, classes, text=i["text"], form=f.name, got=got.hex(), **detail)
        return engine.ok(key, classes)

    # rejection modes
    lst = r.files.get("t.lst")
    srclines = src.split("\n")
    lmap = listing.parse(lst.decode("latin-1"), srclines) if lst else {}
    for i in live:
        ln = i["line"]
        oi = i["cls"][1]
        what = "operand %d = %d" % (oi, i["vals"][oi])
        if ln not in errs:
            toks = lmap.get(ln, (None, []))[1]
            return engine.bad("[%s] out-of-range operand accepted (%s): %s -> listing code field `%s`"
                              % (I.name, what, describe(i), " ".join(toks)),
                              key, classes, text=i["text"], form=i["form"].name, **detail)
        if lst is None or ln not in lmap:
            return engine.bad("listing has no line %d" % ln, key, classes, **detail)
        if lmap[ln][1]:
            return engine.bad("[%s] error reported but code emitted (%s): %s -> `%s`"
                              % (I.name, what, describe(i), " ".join(lmap[ln][1])),
                              key, classes, text=i["text"], form=i["form"].name, **detail)
    stray = [ln for ln in errs if ln not in byline]
    if stray:
        return engine.bad("[%s] errors on lines without an instruction: %s" % (I.name, stray[:5]), key, classes,
                          source=src[:3000], **detail)
    if r.status == 0:
        return engine.bad("errors reported but exit status 0", key, classes, **detail)
    return engine.ok(key, classes)


def show(case):
    src, infos = build_program(case)
    return dict(isa=case["isa"], mode=case["mode"], n=len(case["items"]),
                first=[i["text"] for i in infos if i["text"]][:12])


def coverage_extra(tier, classes):
    out = {}
    tot = cov = 0
    per = {}
    for n, I in ISAS.items():
        c = sum(1 for fi in range(len(I.forms)) if classes.get("f:%s:%d" % (n, fi)))
        per[n] = dict(forms_total=len(I.forms), forms_covered=c,
                      instruction_cases=classes.get("isa:" + n, 0))
        tot += len(I.forms)
        cov += c
    out["forms_total"] = tot
    out["forms_covered"] = cov
    out["forms_with_rejectable_operand"] = sum(len(v) for v in REJ_FORMS.values())
    out["forms_rejection_covered"] = sum(1 for n in ISAS for fi in REJ_FORMS[n] if classes.get("r:%s:%d" % (n, fi)))
    out["per_isa"] = per
    out["instruction_cases"] = classes.get("items", 0)
    out["distinct_item_nontrivial"] = sum(1 for k in classes if k.startswith("nt:"))
    try:
        from vf.isa import selftest
        out["golden_crosscheck"] = {n: {k: v for k, v in r.items() if k != "first_mismatches"}
                                    for n, r in selftest.summary().items()}
    except BaseException as e:      # the cross-check is a development aid, never part of the verdict
        out["golden_crosscheck"] = "not run: %s" % (e,)
    out["classes"] = dict(sorted(((k, v) for k, v in classes.items() if not k.startswith(("f:", "r:", "nt:"))),
                                 key=lambda kv: -kv[1])[:60])
    return out


# ---------------------------------------------------------------- known findings
# All six defects found by this check are repaired on branch agent/C14 (see proposed/C14/*.md).  The
# predicates below are only consulted when the finding id is listed in KNOWN_FINDINGS.txt, i.e. if a
# repair is not taken over; each names the CPU, the form and the symptom so that any other violation
# is still reported.

def _k(isas, forms, symptom, extra=None):
    def pred(case, out):
        d = out.detail or {}
        if d.get("isa") not in isas:
            return False
        if forms is not None and not any(d.get("form", "").startswith(f) for f in forms):
            return False
        if symptom not in out.why:
            return False
        return extra(case, out) if extra else True
    return pred


KNOWN = {
    "mcore-jsri-opcode": ("M-CORE JSRI assembles to JMPI's opcode 70xx (Motorola: 7Fxx); tests/t_mcore/t_mcore.ori asserts the "
                          "wrong byte, so the repair would have to edit the test suite",
                          _k(("MCORE",), ("JSRI",), "instruction set prescribes")),
    "f2mc8-callv-opcode": ("F2MC-8L CALLV #n assembles to B8+n, the opcode of BBS dir:n (Fujitsu: E8+n); asserted by "
                           "tests/t_f2mc8l", _k(("F2MC8L",), ("CALLV",), "instruction set prescribes")),
    "hmcs400-brl-jmpl-call-opcode": ("HMCS400 BRL/JMPL/CALL assemble to 270/250/260+p, the opcodes of LAMR/LAR/REDD "
                                     "(Hitachi: 170/150/160+p); asserted by tests/t_hmcs400",
                                     _k(("HMCS400-HD614023", "HMCS400-HD614081"), ("BRL", "JMPL", "CALL"),
                                        "instruction set prescribes")),
    "4004-isz-page": ("4004/4040 ISZ compares its target with the page of PC+1 instead of PC+2",
                      _k(("4004", "4040"), ("ISZ r,a",), "ISZ r,a")),
    "4004-jcn-forward-page": ("4004/4040 JCN at words 254/255 of a page rejects a forward label in pass 1",
                              _k(("4004", "4040"), ("JCN c,a",), "legal instruction rejected")),
    "msp430-error-but-code-emitted": ("MSP430 operand that fails to decode is reported and still encoded (word xFFx)",
                                      _k(("MSP430",), None, "error reported but code emitted")),
    "msp430-rla-abs0": ("MSP430 RLA/RLC &0 assemble to ADD/ADDC #4,&0",
                        _k(("MSP430",), ("RLA &abs", "RLA.B &abs", "RLC &abs", "RLC.B &abs"), "instruction set prescribes")),
    "msp430-rla-symbolic-distance": ("MSP430 RLA/RLC label rejected when the adjusted displacement changes sign",
                                     _k(("MSP430",), ("RLA sym", "RLA.B sym", "RLC sym", "RLC.B sym"), "distance too big")),
    "w65c02s-jmp-indirect-pageend": ("JMP ($xxFF) rejected for CPU W65C02S / 65SC02",
                                     _k(("W65C02S", "65SC02"), ("JMP (abs)",), "legal instruction rejected")),
}
