"""C03  No input makes the assembler or a utility crash or hang.

G1 (this module, Hypothesis, sanitizer build, one fresh process per run):
  stmt  - pseudo-instruction grammar with boundary arguments under many CPU families, stray /
          unbalanced construct keywords
  mut   - mutated golden sources (line delete/duplicate/swap, token splice, truncation)
  tool  - valid code files with field edits / truncations / bit flips x tool options
          (plist, pbind, p2bin, p2hex, alink), raw and hex images for dasl
Judge (vf/judge.py): death by signal, AddressSanitizer / bounds report, undocumented exit status,
CPU time beyond the bound under the lexical work predicate.  libFuzzer campaigns (fuzz/) feed
their artifacts through the same judge (see c03 "fuzz" cases).
"""
import os, re, glob
from vf import engine, run, corpus, pfile, pgen, judge
from vf.gen import composite

ID = "C03"
FLAVOURS = ("plain", "asan")
SHRINK = False      # every execution is a sanitizer process; failing cases are small by construction
RULE = ("case kinds: stmt (cpu + 1-14 lines of [label] pseudo-op args with args from a boundary pool; construct "
        "keywords alone and nested wrongly), mut (golden source with 1-6 line/token/truncation mutations), tool "
        "(generated code file with 0-4 field edits/truncations/bit flips x option grammar of plist/pbind/p2bin/"
        "p2hex/alink, images for dasl), fuzz (saved libFuzzer artifacts and seeds, replayed stand-alone); "
        "non-trivial = the input is not accepted silently: >= 1 diagnostic or non-zero status, or a code file with "
        ">= 1 invalid field; distinct by (kind, tool, cpu/test, option class, sorted diagnostic numbers / edited fields)")
ASSUMPTIONS = [
    "memory leaks are not part of the property (detect_leaks=0)",
    "a wall-clock timeout alone is inconclusive; a hang is reported only when the child's CPU time exceeds 10 s and "
    "the input satisfies the lexical work predicate (no WHILE/READ, no self-recursive macro, no path into "
    "/dev or /proc, every integer literal < 10000 and the product of all literals <= 10^6, size <= 64 KiB)",
    "full -fsanitize=undefined is not used (the code base relies on wrapping arithmetic and &NULL->member); "
    "address + bounds sanitizers and the kernel's signals are the oracle",
]

GLOBAL_OPS = ["ALIGN", "BINCLUDE", "CHARSET", "CODEPAGE", "CPU", "DEPHASE", "END", "ENDEXPECT", "ENDS", "ENDSECTION",
              "ENDSTRUCT", "ENDUNION", "ENUM", "ENUMCONF", "EQU", "ERROR", "EXPECT", "EXPORT_SYM", "EXTERN_SYM",
              "FUNCTION", "INTSYNTAX", "LABEL", "LISTING", "MESSAGE", "NEWPAGE", "NESTMAX", "NEXTENUM", "ORG",
              "OUTRADIX", "PHASE", "POPV", "PRSET", "PRTINIT", "PRTEXIT", "TITLE", "PUSHV", "RADIX", "RELAXED",
              "MACEXP", "MACEXP_DFT", "MACEXP_OVR", "RORG", "RSEG", "SECTION", "SEGMENT", "SHARED", "STRUCT", "UNION",
              "WARNING", "SET", "SAVE", "RESTORE", "EVAL", "PAGE", "PAGESIZE", "PADDING", "SUPMODE", "FPU", "PMMU",
              "MAXMODE", "COMPMODE", "BIGENDIAN", "PACKING", "FORWARD", "PUBLIC", "GLOBAL", "ASSUME", "DOTTEDSTRUCTS",
              "INCLUDE", "SHIFT", "EXITM", "MAXNEST", "DEFINE", "UNDEF", "REG", "SFR", "SFRB", "BIT", "PORT", "DBIT",
              "IFDEF", "IFNDEF", "IFUSED", "IFNUSED", "IFEXIST", "IFNEXIST", "IFB", "IFNB", "IF", "ELSEIF", "ELSE",
              "ENDIF", "SWITCH", "SELECT", "CASE", "ELSECASE", "ENDCASE", "MACRO", "ENDM", "IRP", "IRPN", "IRPC",
              "REPT", "LTORG", "Z80SYNTAX", "WRAPMODE", "FULLPMMU", "SRCMODE", "ACCMODE", "BRANCHEXT", "EMULATED",
              "DEFBIT", "DEFBITFIELD", "TRANSLATE"]
DATA_OPS = ["DB", "DW", "DD", "DQ", "DT", "DO", "DN", "DS", "DC.B", "DC.W", "DC.L", "DC.Q", "DC.S", "DC.D", "DC.X",
            "DC.P", "DC.C", "DS.B", "DS.W", "DS.L", "BYT", "FCB", "FCC", "FDB", "ADR", "DFS", "RMB", "BYTE", "WORD",
            "LONG", "BSS", "DATA", "RES", "ZERO", "FLOAT", "DOUBLE", "SINGLE", "EXTENDED", "STRING", "PSTRING", "FILL",
            "DEFB", "DEFW", "DEFS", "DEFM", "DM", "ASCII", "ASCIZ", "PACKED", "F32", "F64", "D32", "D64"]
LONGNAMES = ["a" * 255, "b" * 1023, "c" * 1024, "d" * 1025, "e" * 1100 + "{x}", "{x}" + "f" * 1030, "g" * 600 + "{x}" + "h" * 600 + "{x}",
             "i" * 2100, '"' + "j" * 1100 + '"', "k" * 1020 + "{s}", "l.m" * 400]
ARGPOOL = LONGNAMES + ["", "0", "-1", "1", "2", "255", "256", "65535", "65536", "$7fffffff", "0x7fffffff", "7fffffffh",
           "$ffffffffffffffff", "-9223372036854775808", "9223372036854775807", "?", '""', '"a"', "'a'", "'", '"',
           '"' + "x" * 255 + '"', "(((((1)))))", "((", "))", "[", "]", "[1]", "{", "}", "{x}", "1,", ",x", ",", ",,",
           "x", "x,y", "x:y", "b:$80", "*", "$", ".", "..", "1/0", "1%0", "-9223372036854775808/-1", "1<<64", "1>>-1",
           "1e400", "1e-400", "0.0/0.0", "nan", "2^^3", '"ab"+1', "substr(\"abc\",-1,2)", "substr(\"abc\",1,-2)",
           'strlen(1)', "charfromstr(\"a\",5)", "val(\"((\")", "val(\"1/0\")", "upstring(\"x\")", "sqrt(-1)", "ln(0)",
           "firstbit(0)", "lastbit(0)", "bitpos(3)", "mask(60,10)", "mask(1,2,3,4)", "mask(-1,70)", "cutout(1,64,4)", "getbit(1,64)",
           "rotrn(1,0,1)", "shln(1,0,1)", "exprtype(", "defined(", "symtype(x)", "sizeof(x)", "assumedval(x)",
           "10 dup (1)", "0 dup (1)", "-1 dup (1)", "2 dup (2 dup (2 dup (?)))", "1 dup", "dup (1)", "[3]1", "[0]1",
           "[-1]1", "\\{1}", "\\{", "\\i", "\\777", "\\xzz", "a\\b", "@", "#", "%", "&&", "||", "!!", "><", ">>>",
           "code", "data", "nothing", "on", "off", "noskipped", "purecode", "all", "none", "+$hex", "-0hex", "6502",
           "68000", "z80", "xyz", "MOMCPU", "MOMPASS", "MOMFILE", "MOMLINE", "MOMSECTION", "__LINE__", "1.0", "-0.0",
           "1.5e3", "'ab'", "'abcd'", "'abcdefghi'", "\"\\\"\"", "\t", "  ", "a b", "parent0", "x[parent0]", "x[]",
           "x[y]", "x[", "$$x", "+", "-", "/", "++", "--", "//", ".x"]
CONSTRUCT_LINES = ['s equ "' + "s" * 900 + '"', " section {s}" + "b" * 200 + "{s}", " endsection {s}" + "b" * 200 + "{s}",
                   "n" * 1030 + "{s}:", "o" * 1024 + " equ 1", " section " + "p" * 1100, "q{s}{s} set 2", "{s}" + "r" * 300 + " macro",
                   "m macro a,b", "m macro", " endm", "m macro a,{GLOBAL}", "m macro a=1,b,{GLOBAL:s}", "m macro {PUBLIC}",
                   "m macro a,{PUBLIC:s},{EXPORT}", "m macro a,{NOEXPAND},{INTLABEL}", "m macro a,{EXPIF},{NOEXPMACRO}",
                   "m macro a,b,{GLOBALSYMBOLS},{EXPREST}", " s_m 1", " m a=2", " section t", " public x:parent",
                   " global x", " forward x", " if 1", " if 0", " else", " elseif 1", " endif", " switch 1",
                   " case 1", " elsecase", " endcase", "s struct", "s union", " endstruct", " endunion", " section s",
                   " endsection", " endsection s", " save", " restore", " phase 100", " dephase", " rept 2",
                   " irp x,1,2", " irpc x,\"ab\"", " irpn 2,x,y,1,2,3", " irpn 0,x,1", " irpn -1,x,y", " m 1,2", " m",
                   " expect 1200", " endexpect", " pushv s,x", " popv s,x", "x set 1", "x equ 2", "f function a,a+1",
                   " exitm", " shift", " end", " include \"t.asm\"", " binclude \"t.asm\",1,2", " binclude \"t.asm\",-1",
                   " listing on", " newpage 3", " page 0", " page 1,1", " charset 'a','z',1", " charset", " codepage c2",
                   " codepage c2,c3", " enum a,b=3,c", " nextenum d", " radix 37", " radix 1", " outradix 2",
                   " segment xdata", " org $", " rorg -5", " align 3", " align 0", " align 1,2,3"]

# message numbers for EXPECT: the statement's own family (2130..2160) and frequent ones get half of the weight
EXPECT_OWN = [2130, 2140, 2150, 2160, 1200, 1320, 1110, 1010, 60, 100]
_errnums = None


def errnums():
    global _errnums
    if _errnums is None:
        path = os.path.join(os.environ.get("VERIF_REPO", "/repo"), "errmsg.h")
        try:
            _errnums = sorted({int(x) for x in re.findall(r"=\s*(\d+),", open(path).read())})
        except OSError:
            _errnums = list(EXPECT_OWN)
    return _errnums


_cpus = None


def cpus():
    global _cpus
    if _cpus is None:
        s = set()
        for n in corpus.names():
            m = re.search(rb"^\s+cpu\s+([A-Za-z0-9_./-]+)", corpus.load(n)["src"], re.M | re.I)
            if m:
                s.add(m.group(1).decode())
        _cpus = sorted(s)
    return _cpus


def budget(tier):
    return dict(examples=2800 if tier == "quick" else 150000, shards=16)


@composite
def strategy_(d, tier):
    kind = d.weighted([(5, "stmt"), (3, "mut"), (4, "tool")])
    if kind == "stmt" and d.bool(0.12):
        # structures with bit elements on the families whose BIT statement creates element references that
        # ENDSTRUCT has to resolve (H8, H16, KENBAK, PDK, S12Z, ST6, ST7, Z8, Z8000, eZ8)
        cpu = d.choice(["hd6413309", "hd6475348", "hd641016", "kenbak", "pms150", "s912zvh128f2clq", "st6218", "st7",
                        "z86c03", "z8002", "ez8"])
        lines = ["st\tstruct"]
        els = []
        for e in range(d.int(1, 4)):
            els.append("e%d" % e)
            lines.append("e%d\t%s" % (e, d.choice(["ds.b 1", "ds 1", "db ?", "res 1", "rmb 1", "dfs 1", "ds.w 1", "ds.b 2"])))
        for b in range(d.int(1, 4)):
            ref = d.choice(els + ["nosuch", "b0"])
            n = d.choice(["0", "3", "7", "#7", "#0"])
            lines.append("b%d\tbit\t%s" % (b, d.choice(["%s,%s" % (n, ref), "%s,%s" % (ref, n),
                                                         "%s.%s" % (ref, n.lstrip("#")), "[%s].%s" % (ref, n.lstrip("#"))])))
        lines.append(d.choice([" endstruct", " endstruct", " ends", ""]))
        lines.append(" nop")
        return dict(kind="stmt", cpu=cpu, lines=lines, opts=[])
    if kind == "stmt":
        cl = cpus()
        cpu = cl[d.int(0, len(cl) - 1)]
        lines = []
        for _ in range(d.int(1, 14)):
            w = d.weighted([(6, "op"), (3, "construct"), (2, "data")])
            if w == "construct":
                if d.bool(0.12):
                    nums = [d.choice(EXPECT_OWN) if d.bool(0.5) else d.choice(errnums()) for _ in range(d.int(1, 3))]
                    lines.append(" expect %s" % ",".join(str(n) for n in nums))
                    if d.bool(0.7):
                        lines.append(d.choice([" nop", " lda #300", " xyzzy", " db 1/0", ""]))
                    if d.bool(0.8):
                        lines.append(" endexpect")
                    continue
                if d.bool(0.1):
                    # a structure definition with plain elements and bit elements that refer to existing and to
                    # missing elements (several CPU families resolve such references at ENDSTRUCT)
                    sn = "st%d" % len(lines)
                    lines.append("%s\t%s" % (sn, d.choice(["struct", "struct", "union"])))
                    els = []
                    for e in range(d.int(1, 4)):
                        els.append("e%d" % e)
                        lines.append("e%d\t%s" % (e, d.choice(["ds 1", "ds.b 1", "rmb 1", "res 1", "dfs 1", "db ?", "ds.w 1",
                                                              "dc.b ?", "byte ?", "bss 1"])))
                    for b in range(d.int(0, 3)):
                        ref = d.choice(els + ["nosuch", "b0", sn])
                        n = d.choice(["0", "7", "#7", "8", "15", "-1"])
                        form = d.choice(["%s,%s" % (n, ref), "%s,%s" % (ref, n), "%s.%s" % (ref, n.lstrip("#")), ref])
                        lines.append("b%d\tbit\t%s" % (b, form))
                    if d.bool(0.85):
                        lines.append(" endstruct")
                    continue
                lines.append(d.choice(CONSTRUCT_LINES))
                continue
            op = d.choice(GLOBAL_OPS if w == "op" else DATA_OPS)
            na = d.weighted([(2, 0), (4, 1), (3, 2), (1, 3), (1, 5)])
            args = ",".join(d.choice(ARGPOOL) for _ in range(na))
            lab = d.weighted([(6, ""), (2, "lab%d" % len(lines)), (1, "x"), (1, "m")])
            lines.append("%s\t%s\t%s" % (lab, op.lower() if d.bool(0.5) else op, args))
        opts = d.subset(["-L", "-g", "-C", "-u", "-P", "-M", "-U", "-x", "-relaxed", "-compmode", "-s", "-I", "-A", "-r"], 0.12)
        if d.bool(0.3):
            opts += arg_options(d, lines, cl)
        return dict(kind="stmt", cpu=cpu, lines=lines, opts=opts)
    if kind == "mut":
        names = corpus.names()
        name = names[d.int(0, len(names) - 1)]
        ops = []
        for _ in range(d.int(1, 6)):
            ops.append([d.choice(["del", "dup", "swap", "splice", "trunc", "flip", "join"]), d.int(0, 100000), d.int(0, 100000)])
        return dict(kind="mut", test=name, ops=ops)
    tool = d.choice(["plist", "pbind", "p2bin", "p2hex", "alink", "dasl"])
    if tool == "dasl" and d.bool(0.4):
        # many separate code chunks: records of a hex file with gaps between them and/or several -binfile options;
        # counts around the powers of two where tables grow
        n = d.weighted([(3, d.int(1, 12)), (3, d.choice([15, 16, 17, 18, 31, 32, 33, 34, 63, 64, 65])), (2, d.int(13, 70))])
        step = d.choice([8, 16, 32, 100, 256])
        chunks = []
        a = d.choice([0, 0x100, 0x1000, 0xf000])
        for i in range(n):
            ln = d.int(1, min(6, step - 1))
            chunks.append([a, d.bytes(ln).hex() if d.bool(0.3) else ("01" * (ln - 1) + "39")])
            a += step if d.bool(0.9) else ln          # now and then two chunks touch
        if d.bool(0.2):
            d_ = chunks[:]
            chunks = [d_[(i * 7) % len(d_)] for i in range(len(d_))] if len(d_) % 7 else d_[::-1]
        ne = d.weighted([(2, 0), (3, 1), (3, len(chunks)), (1, d.int(0, len(chunks)))])
        return dict(kind="tool", tool="dasl", cpu=d.choice(["6800", "6802", "4004", "87C00"]),
                    mode="multi", chunks=chunks, fmt=d.weighted([(4, "hex"), (2, "bin"), (1, "both")]),
                    entries=[c[0] for c in chunks[:ne]], junkopt=None, data="", base=0, entry=None)
    if tool == "dasl":
        return dict(kind="tool", tool=tool, cpu=d.choice(["6800", "6802", "4004", "87C00", "6800", "4004", "87C00", "xyz", "87c00"]),
                    data=d.bytes(d.int(0, 64)).hex(), mode=d.choice(["bin", "hex", "hextext"]),
                    base=d.choice([0, 0x100, 0xfff0, 0xffffffff]), entry=d.choice([None, 0, 0x100, 0xffff, 0x12345678]),
                    junkopt=d.choice([None, "-cpu", "-binfile", "-entryaddress x", "-hexfile nofile", "-h"]))
    gran = d.choice([1, 2, 4])
    cp = {1: pgen.CPUS_G1, 2: [0x70, 0x71, 0x74], 4: pgen.CPUS_G4}[gran]
    f = pgen.gen_file(d, "a", gran=gran, cpus=cp, base_choices=[0, 0x100, 0xfff0, 0xfffffff0], max_recs=3,
                      segs=d.choice([(1,), (1, 2), (0, 1, 9)]))
    edits = []
    for _ in range(d.int(0, 4)):
        edits.append([d.choice(["trunc", "flip", "set", "insert", "hdr", "gran0", "len", "reloc"]), d.int(0, 100000), d.int(0, 255)])
    optpool = {
        "plist": [[]],
        "pbind": [[], ["-f", "$11"], ["-f", "x"], ["-f", ""], ["-f", "1,2,3,4,5,6,7,8,9,10,11,12,13,14,15,16,17,18,19,20"]],
        "p2bin": [[], ["-r", "0-$ffffffff"], ["-r", "$-$"], ["-r", "5-1"], ["-m", "odd"], ["-m", "x"], ["-S", "9"], ["-S", "B4"],
                  ["-e", "x"], ["-l", "300"], ["-s"], ["-segment", "data"], ["-segment", "x"], ["-f", "$11,$51"], ["-k"]],
        "p2hex": [[], ["-F", "Moto"], ["-F", "Intel"], ["-F", "Intel16"], ["-F", "Intel32"], ["-F", "MOS"], ["-F", "Tek"],
                  ["-F", "DSK"], ["-F", "Atmel"], ["-F", "Mico8"], ["-F", "C"], ["-F", "x"], ["-l", "0"], ["-l", "1"],
                  ["-l", "255"], ["-l", "2"], ["-M", "0"], ["-M", "4"], ["-i", "3"], ["-m", "4"], ["-a"], ["-R", "$ffffffff"],
                  ["-r", "$-0x"], ["-r", "0-$ffffffff"], ["-d", "0-5"], ["-e", "-1"], ["-avrlen", "1"], ["-avrlen", "3"],
                  ["-cformat", "dSLe"], ["-cformat", ""], ["-cformat", "xyz"], ["+5"], ["-segment", "data"]],
        "alink": [[]],
    }
    no = d.weighted([(3, 1), (2, 2), (1, 3)])
    opts = []
    for _ in range(no):
        opts += d.choice(optpool[tool])
    return dict(kind="tool", tool=tool, file=f, edits=edits, opts=opts)


def strategy(tier):
    return strategy_(tier)


# --------------------------------------------------------------------- materialise

def mutate_source(src, ops):
    lines = src.split(b"\n")
    for kind, a, b in ops:
        if not lines:
            break
        i, j = a % len(lines), b % len(lines)
        if kind == "del":
            del lines[i]
        elif kind == "dup":
            lines.insert(i, lines[i])
        elif kind == "swap":
            lines[i], lines[j] = lines[j], lines[i]
        elif kind == "splice":
            ta, tb = lines[i].split(), lines[j].split()
            if ta and tb:
                ta[a % len(ta)] = tb[b % len(tb)]
                lines[i] = b"\t" + b" ".join(ta)
        elif kind == "join":
            lines[i] = lines[i] + b" " + lines[j].strip()
        elif kind == "trunc":
            blob = b"\n".join(lines)
            blob = blob[:a % (len(blob) + 1)]
            lines = blob.split(b"\n")
        elif kind == "flip":
            if lines[i]:
                k = b % len(lines[i])
                lines[i] = lines[i][:k] + bytes([lines[i][k] ^ (1 << (a % 7))]) + lines[i][k + 1:]
    return b"\n".join(lines)


def mutate_pfile(blob, edits):
    b = bytearray(blob)
    invalid = []
    for kind, a, v in edits:
        if not b:
            break
        i = a % len(b)
        if kind == "trunc":
            del b[i:]
            invalid.append("trunc")
        elif kind == "flip":
            b[i] ^= 1 << (v % 8)
            invalid.append("flip")
        elif kind == "set":
            b[i] = v
            invalid.append("set")
        elif kind == "insert":
            b[i:i] = bytes([v]) * (1 + v % 7)
            invalid.append("insert")
        elif kind == "hdr" and len(b) > 2:
            b[2] = [0x82, 0x83, 0x84, 0x85, 0x86, 0xff, 0x80, 0x00, 0x7f][v % 9]
            invalid.append("hdr")
        elif kind == "gran0" and len(b) > 5:
            if b[2] == 0x81:
                b[5] = [0, 3, 255, 8][v % 4]
                invalid.append("gran")
        elif kind == "len" and len(b) > 12:
            off = 10 if b[2] == 0x81 else 7
            if off + 1 < len(b):
                b[off:off + 2] = [(0xff, 0xff), (0, 0), (1, 0), (0xfe, 0xff)][v % 4]
                invalid.append("len")
        elif kind == "reloc":
            b[2:2] = bytes([0x85]) + bytes([v, 0, 0, 0, v ^ 1, 0, 0, 0, 4, 0, 0, 0])
            invalid.append("reloc")
    return bytes(b), invalid


# repetitions are admitted to the work predicate: with every literal < 10000 their work is bounded by the input
WORK_BAD = re.compile(r"\b(while|read|maxnest|include)\b|/dev/|/proc/", re.I)
MACRO_DEF = re.compile(r"^[ \t]*([A-Za-z_.][A-Za-z0-9_.]*):?[ \t]+macro\b|^[ \t]*macro[ \t]+([A-Za-z_.][A-Za-z0-9_.]*)", re.I | re.M)


def lexical_work_ok(text):
    if len(text) > 65536 or WORK_BAD.search(text):
        return False
    # a macro that is called more than once may call itself more than once: recursion with a branching factor
    # describes exponential work (the nesting limit of 256 bounds the depth only)
    for m in MACRO_DEF.finditer(text):
        name = m.group(1) or m.group(2)
        if len(re.findall(r"(?<![A-Za-z0-9_.])%s(?![A-Za-z0-9_.])" % re.escape(name), text, re.I)) > 2:
            return False
    prod = 1
    for m in re.finditer(r"\d+", text):
        if len(m.group(0)) > 4:
            return False
        prod *= max(1, int(m.group(0)))
        if prod > 1000000:          # nested repetitions multiply
            return False
    if re.search(r"[$%@]|0x|h\b", text, re.I) and re.search(r"[0-9a-f]{5,}", text, re.I):
        return False
    return True


DEFVALS = ["", "=1", "=0", "=-1", "=$7fffffff", "=1.5", "=1e300", '="A"', '="ABCDEFGHIJKLMNOPQRSTUVWXYZ"', '=""',
           "=1+", "=nosuch", "==", '="unterminated', "=1/0", "='a'", "=(1,2)", '="a,b"', "=9999999999999999999999"]


def arg_options(d, lines, cl):
    """options that take an argument (every option of asl's table), with ordinary, boundary and malformed values;
    -D symbols are also used by a statement so that their value is read"""
    out = []
    for _ in range(d.int(1, 3)):
        k = d.weighted([(5, "D"), (2, "cpu"), (2, "radix"), (1, "split"), (2, "t"), (2, "maxerr"), (1, "maxinc"),
                        (1, "i"), (1, "o"), (1, "olist"), (1, "share"), (1, "E"), (2, "g"), (1, "noice"), (1, "alias"),
                        (2, "flag"), (1, "undef")])
        if k == "D":
            defs = []
            for _ in range(d.int(1, 3)):
                nm = d.choice(["dsym", "txt", "DSYM", "a", "x", "lab0", "1x", "", "a b", "nop"])
                v = d.choice(DEFVALS)
                defs.append(nm + v)
                if nm and d.bool(0.7):
                    lines.insert(d.int(0, len(lines)), "\t%s\t%s" % (d.choice(["db", "dc.b", "dw", "byt", "fcb", "data", "dfb"]), nm))
            out += ["-D", ",".join(defs)]
        elif k == "cpu":
            out += ["-cpu", d.choice([cl[d.int(0, len(cl) - 1)], "nosuch", "", "68000:cpu=1", "z80,x"])]
        elif k == "radix":
            out += ["-listradix", d.choice(["2", "8", "10", "16", "36", "1", "37", "0", "-1", "x", "3"]), "-L"]
        elif k == "split":
            out += ["-splitbyte", d.choice([":", ".", "ab", "", "'", "0"])]
        elif k == "t":
            out += ["-t", d.choice(["0", "1", "255", "511", "0x1ff", "-1", "x", "$ff", "65536"]), "-L"]
        elif k == "maxerr":
            out += ["-maxerrors", d.choice(["0", "1", "2", "5", "-1", "x", "99999999999"])]
        elif k == "maxinc":
            out += ["-maxinclevel", d.choice(["0", "1", "3", "300", "-1", "x"])]
        elif k == "i":
            out += ["-i", d.choice([".", "/nonexistent", "a:b:c", "", "." * 300])]
        elif k == "o":
            out += ["-o", d.choice(["out.p", "none/out.p", "", ".", "t.asm"])]
        elif k == "olist":
            out += ["-olist", d.choice(["out.lst", "none/out.lst", "", "."]), "-L"]
        elif k == "share":
            out += [d.choice(["-c", "-p", "-a"]), "-shareout", d.choice(["out.h", "none/out.h", "", "."])]
            lines.append("\tshared\tlab0,x,dsym")
        elif k == "E":
            out += ["-E", d.choice(["err.log", "none/err.log", "!1", "!2", "!0", "!9"])]
        elif k == "g":
            out += ["-g", d.choice(["MAP", "ATMEL", "NOICE", "map", "x", ""])]
        elif k == "noice":
            out += ["-noicemask", d.choice(["1", "0x7f", "0", "-1", "x", "65535"]), "-g", "NOICE"]
        elif k == "alias":
            out += ["-alias", d.choice(["mycpu=z80", "mycpu=nosuch", "z80=6502", "=", "a=b=c", "mycpu"])]
            lines.insert(0, "\tcpu\tmycpu")
        elif k == "undef":
            out += [d.choice(["+D", "+U", "+L", "+x", "+cpu", "+i", "+q"]), d.choice(["dsym", "x", "."])]
        else:
            out += [d.choice(["-gnuerrors", "-werror", "-w", "-warnranges", "-n", "-h", "-Y", "-X", "-l", "-G", "+G",
                              "-supmode", "-quiet", "-c", "-p", "-a", "-zzz", "-", "--", "-LL", "-Lg"])]
    return out


def build_run(case, d, flavour):
    """write the input, run the tool once; returns (tool, result, text-for-work-predicate or None, nontrivial info)"""
    k = case["kind"]
    if k == "stmt":
        src = "\tcpu %s\n" % case["cpu"] + "\n".join(case["lines"]) + "\n"
        run.write_files(d, {"t.asm": src})
        r = run.run(["asl", "-q"] + case["opts"] + ["t.asm"], d, flavour=flavour, timeout=60, cpu=12, fsize=1 << 26)
        return "asl", r, src, None
    if k == "mut":
        t = corpus.load(case["test"])
        src = mutate_source(t["src"], case["ops"])
        files = dict(t["extra"])
        files[case["test"] + ".asm"] = src
        run.write_files(d, files)
        from vf import asl as aslmod
        r = run.run(["asl"] + list(t["flags"]) + ["-q", "-i", aslmod.INCLUDE_DIR, case["test"] + ".asm"], d,
                    flavour=flavour, timeout=90, cpu=20, fsize=1 << 27)
        return "asl", r, None, None
    if k == "fuzz":
        from vf import fuzzrun
        data = bytes.fromhex(case["data"])
        tool = case["tool"]
        argv, inp = fuzzrun.argv_for(tool, data)
        run.write_files(d, {inp: data[1:]})
        r = run.run(argv, d, flavour=flavour, timeout=60, cpu=12, fsize=1 << 27)
        return tool, r, (data[1:].decode("latin-1") if tool == "asl" else ""), None
    tool = case["tool"]
    if tool == "dasl":
        data = bytes.fromhex(case["data"])
        argv = ["dasl", "-cpu", case["cpu"]]
        if case["mode"] == "multi":
            hexlines = []
            for i, (a, hx) in enumerate(case["chunks"]):
                b = bytes.fromhex(hx)
                as_hex = case["fmt"] == "hex" or (case["fmt"] == "both" and i % 2 == 0)
                if as_hex and a + len(b) <= 0x10000:
                    rec = bytes([len(b), (a >> 8) & 0xff, a & 0xff, 0]) + b
                    hexlines.append(":" + rec.hex().upper() + "%02X" % ((-sum(rec)) & 0xff))
                else:
                    run.write_files(d, {"c%d.bin" % i: b})
                    argv += ["-binfile", "c%d.bin@%d" % (i, a)]
            if hexlines:
                run.write_files(d, {"img.hex": "\n".join(hexlines) + "\n:00000001FF\n"})
                argv += ["-hexfile", "img.hex"]
            for e in case["entries"]:
                argv += ["-entryaddress", "%d" % e]
            r = run.run(argv, d, flavour=flavour, timeout=60, cpu=12, fsize=1 << 26)
            return tool, r, "", None
        if case["mode"] == "bin":
            run.write_files(d, {"img.bin": data})
            argv += ["-binfile", "img.bin@%d" % case["base"]]
        elif case["mode"] == "hex":
            rec = bytes([len(data) & 0xff, 0, 0, 0]) + data[:255]
            run.write_files(d, {"img.hex": ":" + rec.hex().upper() + "%02X" % ((-sum(rec)) & 0xff) + "\n:00000001FF\n"})
            argv += ["-hexfile", "img.hex"]
        else:
            run.write_files(d, {"img.hex": data})
            argv += ["-hexfile", "img.hex"]
        if case["entry"] is not None:
            argv += ["-entryaddress", "%d" % case["entry"]]
        if case["junkopt"]:
            argv += case["junkopt"].split()
        r = run.run(argv, d, flavour=flavour, timeout=60, cpu=12, fsize=1 << 26)
        return tool, r, "", None
    blob, invalid = mutate_pfile(pgen.file_bytes(case["file"]), case["edits"])
    run.write_files(d, {"a.p": blob, "b.p": pgen.file_bytes(case["file"])})
    argv = {"plist": ["plist", "a.p"], "pbind": ["pbind", "a.p", "b.p", "o.p"], "p2bin": ["p2bin", "a.p", "o.bin"],
            "p2hex": ["p2hex", "a.p", "o.hex"], "alink": ["alink", "a.p", "b.p", "o.p"]}[tool] + case["opts"]
    r = run.run(argv, d, flavour=flavour, timeout=60, cpu=12, fsize=1 << 28)
    return tool, r, "", invalid


def execute(case):
    with run.Work("c03") as d:
        tool, r, text, invalid = build_run(case, d, "asan")
    k = case["kind"]
    classes = ["kind:" + k, "tool:" + tool]
    nums = sorted(set(re.findall(r"(?:error|warning)[^\n]*", r.err)))[:6]
    nontriv = bool(r.status) or bool(nums) or bool(invalid)
    key = None
    if nontriv:
        what = case.get("cpu") or case.get("test") or ",".join(sorted(set(invalid or [])))
        key = "|".join([k, tool, str(what), str(r.status), engine.digest("".join(nums) + " ".join(case.get("opts", [])))])
    f = judge.judge(tool, r)
    detail = dict(argv=r.argv, status=r.status, signal=r.signal, cpu_s=round(r.cpu, 2), stderr=r.err[-1800:],
                  stdout=r.out[-300:])
    if f:
        return engine.bad(f["why"], key, classes + ["finding:" + f["kind"]], sig=f["sig"], **detail)
    if r.timed_out or r.signal in (9, 24, 25):
        if r.cpu >= 10 and text is not None and lexical_work_ok(text):
            return engine.bad("hang: %.1f s CPU on an input that describes no such work" % r.cpu, key,
                              classes + ["finding:hang"], sig="%s|hang" % tool, **detail)
        return engine.inconclusive("timeout/cpu-limit", classes)
    return engine.ok(key, classes)


def show(case):
    c = dict(case)
    if "file" in c:
        c["file"] = [(r["kind"], r.get("cpu"), r.get("seg"), r.get("gran"), r.get("addr"), len(r.get("data", "")) // 2)
                     for r in c["file"]["recs"]]
    if "data" in c and len(c["data"]) > 200:
        c["data"] = c["data"][:200] + "..."
    return c


def fixed_cases(tier):
    out = []
    # regression tier: inputs of DESIGN.md section 6 and every saved libFuzzer artifact / crash input
    for cpu, lines in [("6502", [" align 0"]), ("6502", [" elsecase"]), ("68000", [" irpn -1,x,y", " nop", " endm"]),
                       ("68000", [' dc.b substr("abc",-1,2)']), ("68000", [" dc.q -9223372036854775808/-1"]),
                       ("z80", [" endsection"]), ("z80", [" endstruct"]), ("z80", [" restore"]), ("z80", [" endm"]),
                       ("8051", [" case 1"]), ("8051", [" endcase"]), ("8051", [" dephase"]), ("8051", [" popv x,y"]),
                       ("68000", [" irpn 0,x,1", " nop", " endm"])]:
        out.append(dict(kind="stmt", cpu=cpu, lines=lines, opts=[]))
    for cpu, lines, opts in [("z80", [" db txt"], ["-D", 'txt="ABCDEFGHIJKLMNOPQRSTUVWXYZ"']),
                             ("z80", [" nop"], ["-D", "a=1/0"]), ("z80", [" nop"], ["-alias", "mycpu=z80"]),
                             ("68HC12X", [" db nosuch", " align 6502,2"], []),
                             ("8086", ["x equ 1", "x equ 2", "x: nop"], ["-X"]),
                             ("z80", [" nop"], ["."]), ("NS32016", [' long "abc"'], []),
                             ("KCPSM", [" load s0,abc)"], []), ("320C25", [' long "%s"' % ("x" * 200)], []),
                             ("z80", ["s struct", " save", "a db ?", " endstruct", " restore", " nop"], []),
                             ("z80", ['s set "val(s)"', "x equ val(s)"], []),
                             ("z80", ["f function x,f(x)+1", " db f(1)"], []),
                             ("z80", [" page 60,80", " db 1 ;" + "x" * 3000, " db 2" + "\t" * 400 + ";y"], ["-L"]),
                             ("z80", ["m macro", "\t" * 300 + "nop", " endm", " m"], []),
                             ("z80", ["x equ 1e308*10.0-1e308*10.0", " jp fwd", "fwd: nop"], []),
                             ("6809", [" assume dpr:$20", " cpu z80", " assume dpr:$20", " db assumedval(dpr)"], [])]:
        out.append(dict(kind="stmt", cpu=cpu, lines=lines, opts=opts))
    # dasl decoders: two-byte opcodes as entry points (87C00: every prefix byte x second byte; 6800 / 4004: every first byte
    # with three operand bytes), 120 entries per run (the tools take 256 arguments).
    # Regressions: 87C00 register prefix EC..EF + an opcode that only exists for register pairs spun for ever; more
    # than 256 arguments overflowed the argument bookkeeping of every tool
    for cpu in ("87C00", "6800", "4004"):
        seconds = range(256) if cpu == "87C00" else (0x00, 0x80, 0xff)
        pairs = ["%02x%02x0000" % (a, b) for a in range(256) for b in seconds]
        if tier == "quick" and cpu == "87C00":
            # quick: the prefix bytes (E0..FF) completely, a rotating eighth of the rest
            ph = engine.seed_from_env() % 8
            pairs = [p for k, p in enumerate(pairs) if int(p[:2], 16) >= 0xe0 or (k // 256) % 8 == ph]
        for q in range(0, len(pairs), 120):
            sub = [[0x1000 + 8 * j, hx] for j, hx in enumerate(pairs[q:q + 120])]
            out.append(dict(kind="tool", tool="dasl", cpu=cpu, mode="multi", chunks=sub, fmt="hex",
                            entries=[c[0] for c in sub], junkopt=None, data="", base=0, entry=None))
    out.append(dict(kind="tool", tool="dasl", cpu="87C00", mode="multi", chunks=[[0x1000 + 8 * j, "00"] for j in range(300)],
                    fmt="hex", entries=[0x1000 + 8 * j for j in range(300)], junkopt=None, data="", base=0, entry=None))
    for n in corpus.names():
        out.append(dict(kind="mut", test=n, ops=[]))       # the unmodified golden programs under the sanitizers
    root = os.path.join(engine.ROOT, "fuzz")
    for sub in ("regress", "seeds"):
        for path in sorted(glob.glob(os.path.join(root, sub, "*", "*"))):
            tool = os.path.basename(os.path.dirname(path))
            data = open(path, "rb").read()
            if 0 < len(data) <= 1 << 16:
                out.append(dict(kind="fuzz", tool=tool, data=data.hex(), origin=sub))
    # the saved corpus of the asl target (coverage-distinct inputs of earlier long campaigns): quick replays a
    # slice that rotates with the seed, thorough all of it
    from vf import fuzzcorpus
    items = fuzzcorpus.load()
    step = 6 if tier == "quick" else 1
    ph = engine.seed_from_env() % step
    for k, data in enumerate(items):
        if k % step == ph:
            out.append(dict(kind="fuzz", tool="asl", data=data.hex(), origin="corpus"))
    # artifacts of this run's libFuzzer campaigns (candidates only; the stand-alone judge decides)
    for tool, kind, data in _campaign.get("arts", []):
        out.append(dict(kind="fuzz", tool=tool, data=data.hex(), origin="libfuzzer-" + kind))
    return out


_campaign = {}


def prepare(tier):
    """coverage-guided campaigns, one libFuzzer target per tool, run before the Hypothesis shards"""
    if os.environ.get("VERIF_C03_NOFUZZ"):
        return
    from vf import fuzzrun
    secs = 25 if tier == "quick" else 600
    arts, stats = fuzzrun.campaign(engine.seed_from_env(), secs, workers_per_target=2)
    # keep at most 40 artifacts per tool for the judge (smallest first)
    per = {}
    for a in sorted(arts, key=lambda a: len(a[2])):
        per.setdefault(a[0], [])
        if len(per[a[0]]) < 40:
            per[a[0]].append(a)
    _campaign["arts"] = [a for v in per.values() for a in v]
    _campaign["stats"] = stats
    _campaign["found"] = len(arts)


def coverage_extra(tier, classes):
    st = _campaign.get("stats", {})
    return dict(libfuzzer=dict(targets=st, total_execs=sum(v["execs"] for v in st.values()),
                               artifacts_saved=_campaign.get("found", 0),
                               artifacts_judged=len(_campaign.get("arts", [])),
                               note="artifacts are candidates; each was replayed stand-alone by the sanitizer judge"))


def _sig(prefix):
    def pred(case, out):
        return str(out.detail.get("sig", "")).startswith(prefix)
    return pred


KNOWN = {}
