"""C11  Macro, repetition and inclusion constructs are transparent.

A case is a *construct program* (main file, include files, binary files; CPU 68000 / Z80 / 6502; with or
without -U).  `vf.macromodel` carries the constructs out by hand, following the manual's textual
substitution rules, and yields a flat program without MACRO / REPT / IRP / IRPN / IRPC / WHILE / EXITM /
SHIFT / INCLUDE / BINCLUDE / IF.  Both programs are assembled by asl; the code files are read with the
independent reader vf.pfile and compared record by record.  The flat program is never produced by asl.
"""
import os, re
from vf import engine, pfile, asl, macromodel as M
from vf.gen import composite

ID = "C11"
RULE = ("case = construct program (68000 / Z80 / 6502, with or without -U) built from 1-4 scenarios (quick; up to 8 in "
        "thorough): macro definition + 1-3 calls (0-6 parameters; positional / fewer / excess / empty / keyword / mixed "
        "arguments, defaults, ALLARGS, ARGCOUNT, ATTRIBUTE, SHIFT, EXITM in IF, label-, opcode- and size-valued "
        "parameters), REPT (count -5..40, parameter, ARGCOUNT), IRP, IRPN (1-4 names, ragged tails, count from a "
        "variable), IRPC, WHILE with a SET counter, bounded recursion, SHIFT lists (manual's pushlist), macros with "
        "9-20 parameters and adjacent \\a\\\\b\\ forms, macro-defining macros, INCLUDE (plain, defining macros, "
        "inside bodies, nested 3 deep, empty, skipped), BINCLUDE file[,offset[,length]] (0..530 bytes), GLOBALSYMBOLS / "
        "LABEL / private labels, INTLABEL, a macro hiding an instruction (!name); bodies hold data statements, labels "
        "+ backward / forward references, SET, IF/ELSE, comments and further constructs up to 3 levels deep; "
        "parameter names are drawn so that they occur inside longer identifiers, arguments spell other parameters' "
        "names, `_` and \\name\\ concatenation are used inside and outside string constants.  Fixed families: REPT "
        "counts, 0..20 parameters, all 400 ordered pairs of 20 parameters adjacent (3 spellings), IRPN sizes x tails, "
        "the manual's examples, GLOBALSYMBOLS for all six constructs, regression inputs.  Oracle: flat program from "
        "vf.macromodel (never from asl), code files equal record by record.  non-trivial = nesting depth >= 2, or a "
        "parameter name occurring inside a longer identifier, or an empty / defaulted / keyword / excess argument, or "
        "a zero-iteration loop, or SHIFT / EXITM executed; distinct by (CPU, -U, construct set, argument classes, "
        "highest substituted parameter number, buckets of #calls, #iterations, #flat lines)")
ASSUMPTIONS = [
    "code files are compared after joining records that continue each other (same CPU, segment, granularity, "
    "consecutive addresses): BINCLUDE ends a record after every call, a DC.B line does not; the split of "
    "contiguous data into records is not part of the property",
    "case-insensitive mode: the manual says parameter names in string constants must be written in upper case "
    "and implies (IRPC caution) that MACRO/IRP/IRPN arguments are converted to upper case; cases whose flat "
    "program depends on either detail (argument letters reaching a string constant, lower-case parameter name "
    "inside a string constant) are discarded and counted",
    "ARGCOUNT is only used when the call has at least as many arguments as the macro has parameters (manual: "
    "'never lower than the formal parameter count', behaviour: number of arguments written); after SHIFT it is "
    "the number of remaining arguments, and ALLARGS is the list of the remaining arguments (only asserted for "
    "calls with plain positional arguments)",
    "two \\name\\ forms that share a backslash (\\a\\b\\) are not defined by the manual: not generated",
    "a label private to an expansion may have the name of a symbol defined earlier outside (scenario 'shadow': references in "
    "the body, also in front of the private definition, mean the body's own label); names of labels of an *enclosing expansion* "
    "are still never reused (the manual does not say which one such a reference means)",
    "INTLABEL / __LABEL__ (fourth implicit parameter of the manual) is included although the property text does not "
    "list it; a label produced through __LABEL__ is private to the expansion like every label of a body",
    "source lines stay below 256 characters and never end in a backslash (continuation character)",
    "the operator != is not used in generated conditions: asl rejects `if 1!=2` ('wrong number of operands') "
    "although the manual lists != as alias of <> (belongs to C08/C12, reported there)",
    "EQU inside a body is not generated (the manual's DefVec example makes it global, the rule for labels local)",
    "IF / WHILE / REPT / IRPN / BINCLUDE operands are restricted to the model's expression language (decimal and "
    "hex integers, SET/EQU symbols, + - *, comparisons, && ||, parentheses, string comparison)",
    "IRPN count <= 0 belongs to C03; WHILE only with a SET counter whose termination the model proves by running it",
    "Z80: no apostrophes (AF'), variables are written with := ; TAB characters only outside string constants",
    "68000 with PADDING ON: 'a label in a source line immediately before' a padded statement moves with it; IF / "
    "EXITM / SHIFT / INCLUDE / MACRO / skipped lines vanish in the flat program and would make a label line "
    "'immediately before': such cases are discarded (label-then-vanishing-statement-under-PADDING)",
    "both programs reporting errors counts as agreement (no code file in both); for GLOBALSYMBOLS the error "
    "must be 'symbol double defined' in both",
]

CPUS = {
    "68000": dict(hasattrs=True, byte=["dc.b"], word=["dc.w", "dc.l"], setop="set", nop="nop",
                  imm=["moveq\t#%s,d0", "move.b\t#%s,d1"], hexf="$%x"),
    "z80": dict(hasattrs=False, byte=["db"], word=["dw"], setop=":=", nop="nop", imm=["ld\ta,%s"], hexf="0%xh"),
    "6502": dict(hasattrs=False, byte=["byt", "fcb"], word=["adr", "fdb"], setop="set", nop="nop",
                 imm=["lda\t#%s"], hexf="$%x"),
}
ONLY = set(filter(None, os.environ.get("C11_ONLY", "").split(",")))


def budget(tier):
    return dict(examples=8000 if tier == "quick" else 40000, shards=16)


# =========================================================================================== generator

SINGLE = list("fgknpqtuv")
MULTI = ["p1", "p2", "p10", "p11", "pa", "pb", "ab", "ba", "va", "val", "arg", "ar", "n1", "n2", "x1", "cnt", "la",
         "lab", "qq", "kk", "pp", "nn", "fg", "gf", "tt", "uv", "vu"]
RESERVED = {"ATTRIBUTE", "ALLARGS", "ARGCOUNT", "SET", "EQU", "IF", "ENDM", "ENDR", "REPT", "IRP", "IRPN", "IRPC",
            "WHILE", "MACRO", "EXITM", "SHIFT", "INCLUDE", "BINCLUDE", "ELSE", "ENDIF", "ELSEIF", "NOP", "CPU",
            "DB", "DW", "DC", "BYT", "FCB", "ADR", "FDB", "LD", "LDA", "MOVEQ", "MOVE", "ORG", "END"}


class Gen:
    def __init__(self, d, tier):
        self.d = d
        self.tier = tier
        self.cpu = d.weighted([(5, "68000"), (3, "z80"), (2, "6502")])
        self.c = CPUS[self.cpu]
        self.U = d.bool(0.25)
        self.used = set(RESERVED)          # upper-cased global names in use
        self.equs = []                     # (name, value)
        self.family = set()                # forms of the zt family in use
        self.files = {}
        self.bins = {}
        self.macros = []
        self.n = 0
        self.ws = d.weighted([(3, "\t"), (2, " "), (1, "  ")])

    # ---------- names
    def key(self, s):
        return s.upper()

    def fresh(self, prefix):
        while True:
            self.n += 1
            s = "%s%d" % (prefix, self.n)
            if self.key(s) not in self.used:
                self.used.add(self.key(s))
                return s

    def spell(self, s):
        """in case-insensitive mode spelling does not matter: vary it"""
        if self.U:
            return s
        return self.d.weighted([(5, s), (2, s.upper()), (1, s.capitalize())])

    def spell_any(self, s):
        """implicit parameter names are case-insensitive even with -U"""
        return self.d.weighted([(5, s), (2, s.lower()), (1, s.capitalize())])

    def param_names(self, k, visible):
        """k parameter names, distinct from everything visible (case-insensitively) and from globals"""
        d = self.d
        taken = {self.key(v["name"]) for v in visible}
        out = []
        pool = SINGLE + MULTI
        if self.cpu == "68000":
            pool = pool + ["b", "w", "l"]
        tries = 0
        while len(out) < k:
            tries += 1
            if k > 8 or tries > 40:
                s = "p%d" % (len(out) + 1) if d.bool(0.7) else self.fresh("a")
            else:
                s = d.choice(pool)
                if d.bool(0.15) and out:
                    # a name that contains / extends another parameter's name
                    base = d.choice(out)
                    s = d.choice([base + "x", base + "1", "x" + base, base + base])
            if d.bool(0.2):
                s = s.upper()
            elif d.bool(0.1):
                s = s.capitalize()
            if self.U and out and d.bool(0.12):
                t = d.choice(out).swapcase()
                if t not in out and t[0].isalpha():
                    out.append(t)              # distinct parameter in case-sensitive mode
                    continue
            if self.key(s) in taken or self.key(s) in self.used or not s[0].isalpha():
                continue
            taken.add(self.key(s))
            out.append(s)
        return out

    def role_for(self, name, want=None):
        if self.cpu == "68000" and name.lower() in ("b", "w", "l"):
            return "size"
        if want:
            return want
        return self.d.weighted([(5, "int"), (3, "cint"), (2, "dig"), (2, "str"), (1, "qstr")])

    def equ(self, name, value=None):
        k = self.key(name)
        if k in self.used:
            return any(self.key(n) == k for n, _ in self.equs)
        self.used.add(k)
        self.equs.append((name, self.d.int(0, 9) if value is None else value))
        return True

    # ---------- literals
    def num(self, v):
        d = self.d
        if v < 0 or d.bool(0.75):
            return str(v)
        return self.c["hexf"] % v

    def sp(self):
        return self.ws

    def stmt(self, op, args="", label=""):
        if args and '"' not in args and "'" not in args and self.d.bool(0.04):
            args += self.sp() + "; " + self.d.choice(["c", "p1 x", "note a"])
        lab = ""
        if label:
            lab = label + (":" if self.d.bool(0.7) else "")
        elif self.d.bool(0.05):
            return " " + op + (" " + args if args else "")
        return lab + self.sp() + op + (self.sp() + args if args else "")

    # ---------- argument values
    def arg_for(self, p, visible, ints_only=False):
        """an argument text for parameter spec p; `visible` = parameters of the place of the call"""
        d = self.d
        role = p["role"]
        same = [v for v in visible if v["role"] == role or (role == "int" and v["role"] == "cint")]
        if same and role != "lab" and d.bool(0.4):
            v = d.choice(same)
            if role in ("int", "cint") and d.bool(0.3):
                return "(%s+1)" % self.spell(v["name"])
            return self.spell(v["name"])
        if role == "cint":
            return d.weighted([(6, str(d.int(0, 9))), (2, "(%d+%d)" % (d.int(0, 4), d.int(0, 4))), (1, self.c["hexf"] % d.int(0, 12)),
                               (1, "( %d + %d )" % (d.int(0, 4), d.int(0, 4))), (1, str(d.int(10, 40)))])
        if role == "int":
            c = d.weighted([(5, "lit"), (2, "sum"), (2, "sym"), (1, "hex"), (1 if self.cpu != "z80" and not ints_only else 0, "chr")])
            if c == "lit":
                return str(d.int(0, 60))
            if c == "chr":
                return "'%s'" % d.choice("aAzZ09 ,;")
            if c == "sum":
                return "(%d+%d)" % (d.int(0, 20), d.int(0, 20))
            if c == "hex":
                return self.c["hexf"] % d.int(0, 60)
            # a global symbol that is spelled like one of the macro's own parameters
            cand = p.get("siblings") or []
            cand = [s for s in cand if len(s) > 1 and self.key(s) not in {self.key(v["name"]) for v in visible}]
            if cand and not ints_only:
                s = d.choice(cand)
                if self.equ(s):
                    return self.spell(s) + d.choice(["", "+1", "*2"])
            return str(d.int(0, 60))
        if role == "dig":
            return str(d.int(1, 3))
        if role == "size":
            return d.choice(["b", "w", "l"])
        if role == "str":
            if not ints_only and d.int(0, 99) < 8:
                return d.choice(["(1,2)", "[3,4]", "(X,(Y,Z))", "[0]"])
            n = d.int(0, 4) if d.bool(0.8) else 0
            alpha = "ABCXYZ0123456789" if not self.U else "abXYZq0189"
            return "".join(d.choice(alpha) for _ in range(n))
        if role == "lab":
            return self.fresh("la")
        if role == "dir":
            return d.choice(self.c["byte"])
        if role == "qstr":
            n = d.int(1, 5)
            alpha = "abcXYZ019 ,;" if d.bool(0.3) else "abcXYZ019"
            return '"' + "".join(d.choice(alpha) for _ in range(n)) + '"'
        return "0"


SCEN = [(8, "macro"), (4, "rept"), (4, "irp"), (3, "irpn"), (3, "irpc"), (3, "while"), (3, "rec"), (3, "shift"),
        (3, "many"), (2, "defmac"), (3, "include"), (2, "binclude"), (3, "glob"), (1, "intlabel"), (3, "shadow"),
        (2, "volume")]


class Body:
    """generates the lines of a construct body"""

    def __init__(self, g):
        self.g = g
        self.d = g.d

    def ident_near(self, visible):
        """an identifier that merely contains a visible parameter name (must not be replaced)"""
        g, d = self.g, self.d
        if not visible:
            return None
        for _ in range(4):
            p = d.choice(visible)["name"]
            s = d.choice([p + "x", "x" + p, p + "1", p + p, "z" + p + "z", p + "0"])
            if not s[0].isalpha():
                continue
            if any(g.key(s) == g.key(v["name"]) for v in visible):
                continue
            if g.equ(s):
                return g.spell(s) if not g.U else s
        return None

    def pform(self, p):
        """spelling of a parameter reference (plain)"""
        return self.g.spell(p["name"])

    def int_expr(self, visible, allow_argcount=False):
        g, d = self.g, self.d
        ints = [v for v in visible if v["role"] in ("int", "cint")]
        digs = [v for v in visible if v["role"] == "dig"]
        c = d.weighted([(3, "lit"), (6 if ints else 0, "par"), (3 if digs else 0, "fam"), (2 if visible else 0, "near"),
                        (1 if allow_argcount else 0, "argc")])
        if c == "par":
            p = self.pform(d.choice(ints))
            return d.weighted([(4, p), (2, p + "+1"), (1, "1+" + p), (1, "(" + p + ")"), (1, p + "*2"), (1, "\\" + p + "\\+0")])
        if c == "fam":
            return self.family_ref(digs)
        if c == "near":
            s = self.ident_near(visible)
            if s:
                return s
        if c == "argc":
            return g.spell_any("ARGCOUNT")
        return g.num(d.int(0, 99))

    def family_ref(self, digs):
        """zt<sep><D>[<sep><E>] with D, E digit parameters, in `_` or backslash form"""
        g, d = self.g, self.d
        a = d.choice(digs)
        two = d.bool(0.5)
        b = d.choice(digs) if two else None
        s1 = d.choice(["_", "\\"])
        out = "zt"
        form = ""
        if s1 == "_":
            out += "_" + self.pform(a)
            form += "_"
        else:
            out += "\\" + self.pform(a) + "\\"
        if two:
            s2 = d.choice(["_", "\\", "\\_"])
            if s2 == "_":
                out += "_" + self.pform(b)
                form += "d_"
            elif s2 == "\\":
                out += "\\" + self.pform(b) + "\\"
                form += "d"
            else:
                out += "_\\" + self.pform(b) + "\\"
                form += "d_"
            form += "d"
        else:
            form += "d"
        # a plain name directly after a closing backslash would also be "delimited": fine, it is one
        g.family.add(form)
        return out

    def str_expr(self, visible):
        g, d = self.g, self.d
        strs = [v for v in visible if v["role"] in ("str", "dig", "cint")]
        lits = ["Q", "zz", "k9", "", "-", " "]
        if not strs or d.bool(0.15):
            near = ""
            if visible and d.bool(0.5):
                p = d.choice(visible)["name"]
                near = d.choice([p + "x", "y" + p])         # not a whole name: stays
            return '"' + d.choice(lits) + near + '"'
        parts = [d.choice(lits)]
        for _ in range(d.int(1, 2)):
            p = d.choice(strs)["name"]
            if not g.U:
                p = p.upper()                               # manual: upper case inside string constants
            f = d.weighted([(3, "plain"), (3, "us"), (3, "bs")])
            prev = parts[-1]
            if f == "plain":
                if prev and M.alnum(prev[-1]):
                    parts.append(d.choice([" ", "-", "_", "."]))
                parts.append(p)
                parts.append(d.choice(["", " ", "-", "_z", ".q"]))
            elif f == "us":
                parts.append("_" + p + "_")
                parts.append(d.choice(["", "w"]))
            else:
                parts.append("\\" + p + "\\")
                parts.append(d.choice(["", "w", "7"]))
        s = "".join(parts)
        if s.endswith("\\"):
            s += "z"
        return '"' + s + '"'

    def data_line(self, ctx, label=""):
        g, d = self.g, self.d
        vis = ctx["visible"]
        k = d.weighted([(6, "ints"), (3, "str"), (1, "mixed"), (1 if ctx.get("sizes") else 0, "size"),
                        (3 if ctx.get("attr") else 0, "attr"), (2 if ctx.get("qstr") else 0, "qstr")])
        bd = d.choice(g.c["byte"])
        if k == "ints":
            n = d.int(1, 3)
            return g.stmt(bd, ",".join(self.int_expr(vis, ctx.get("argcount")) for _ in range(n)), label)
        if k == "str":
            return g.stmt(bd, self.str_expr(vis), label)
        if k == "mixed":
            return g.stmt(bd, self.int_expr(vis) + "," + self.str_expr(vis), label)
        if k == "size":
            p = d.choice(ctx["sizes"])
            return g.stmt("dc." + self.pform(p), self.int_expr(vis), label)
        if k == "attr":
            return g.stmt("dc." + g.spell_any("ATTRIBUTE"), self.int_expr(vis), label)
        p = d.choice(ctx["qstr"])
        return g.stmt(bd, self.pform(p), label)

    def comment(self, ctx):
        vis = ctx["visible"]
        t = self.d.weighted([(6, "; note"), (1, "; endm"), (1, "; rept 2"), (1, ";macro x,y")])
        if vis and self.d.bool(0.6):
            t += " " + self.d.choice(vis)["name"] + " x"
        return (self.g.sp() if self.d.bool() else "") + t

    def cond(self, ctx):
        """(text, kind) of an IF condition the model can decide"""
        g, d = self.g, self.d
        vis = ctx["visible"]
        cints = [v for v in vis if v["role"] in ("cint", "dig")]
        blank = [v for v in vis if v["role"] in ("cint", "dig", "str")]
        c = d.weighted([(4 if cints else 0, "cmp"), (3 if blank else 0, "blank"), (1, "lit"),
                        (2 if ctx.get("argcount") else 0, "argc"), (2 if ctx.get("vars") else 0, "var")])
        op = d.choice(["<", "<=", ">", ">=", "=", "<>", "=="])
        if c == "cmp":
            return "%s%s%d" % (self.pform(d.choice(cints)), op, d.int(0, 6))
        if c == "blank":
            p = d.choice(blank)["name"]
            if not g.U:
                p = p.upper()
            return '"%s"%s""' % (p, d.choice(["<>", "=", "=="]))
        if c == "argc":
            return "%s%s%d" % (g.spell_any("ARGCOUNT"), op, d.int(0, 5))
        if c == "var":
            return "%s%s%d" % (d.choice(ctx["vars"]), op, d.int(0, 6))
        return "%d%s%d" % (d.int(0, 3), op, d.int(0, 3))

    def make(self, ctx, depth, size):
        """-> list of lines.  ctx: visible, macro (spec or None), labels (allowed), argcount, attr, sizes, qstr, vars"""
        g, d = self.g, self.d
        lines = []
        labels = []                 # labels defined in this body (for references)
        n = d.int(0, size)
        pending_refs = 0
        for _ in range(n):
            opts = [(8, "data"), (1, "comment"), (1, "blank"), (1, "nop"), (2 if ctx["visible"] else 0, "imm"),
                    (3 if ctx.get("labels") else 0, "label"), (2 if labels or ctx.get("outer_labels") else 0, "ref"),
                    (2 if ctx.get("labels") else 0, "fwd"),
                    (3 if depth < 3 else 0, "nest"), (2 if g.macros and depth < 3 else 0, "call"),
                    (2, "if"), (1 if ctx.get("exitm") else 0, "exitm"), (1 if ctx.get("shift") else 0, "shift"),
                    (1, "set")]
            k = d.weighted(opts)
            if k == "data":
                lines.append(self.data_line(ctx))
            elif k == "comment":
                lines.append(self.comment(ctx))
            elif k == "blank":
                lines.append("")
            elif k == "nop":
                lines.append(g.stmt(g.c["nop"]))
            elif k == "imm":
                ints = [v for v in ctx["visible"] if v["role"] in ("int", "cint", "dig")]
                if ints:
                    lines.append(self.g.sp() + d.choice(g.c["imm"]) % self.pform(d.choice(ints)))
            elif k == "label":
                lab = g.fresh(d.choice(["L", "lb", "Lab"]))
                labels.append(lab)
                lines.append(self.data_line(ctx, lab) if d.bool(0.6) else lab + ":")
            elif k == "ref":
                lab = d.choice(labels + list(ctx.get("outer_labels", [])))
                lines.append(g.stmt(d.choice(g.c["word"]), g.spell(lab) if not g.U else lab))
            elif k == "fwd":
                lab = g.fresh("F")
                labels.append(lab)
                lines.append(g.stmt(d.choice(g.c["word"]), lab))
                lines.append(None)          # placeholder: the definition comes later in this body
                pending_refs += 1
                lines[-1] = ("def", lab)
            elif k == "nest":
                lines += self.nested(ctx, depth + 1, labels)
            elif k == "call":
                lines += self.call(d.choice(g.macros), ctx)
            elif k == "if":
                c = self.cond(ctx)
                lines.append(g.stmt(d.choice(["if", "IF"]), c))
                lines += self.make(dict(ctx, labels=False), depth, 2)
                if d.bool(0.4):
                    lines.append(g.stmt("else") if d.bool(0.8) else g.stmt("elseif"))
                    lines += self.make(dict(ctx, labels=False), depth, 2)
                lines.append(g.stmt("endif"))
            elif k == "exitm":
                v = d.weighted([(5, "if"), (2, "nested"), (1, "else"), (1, "plain")])
                if v == "plain":
                    lines.append(g.stmt(d.choice(["exitm", "EXITM"])))
                elif v == "if":
                    lines.append(g.stmt("if", self.cond(ctx)))
                    if d.bool(0.5):
                        lines.append(self.data_line(ctx))
                    lines.append(g.stmt(d.choice(["exitm", "EXITM"])))
                    lines.append(g.stmt("endif"))
                elif v == "nested":
                    lines += [g.stmt("if", self.cond(ctx)), self.data_line(ctx), g.stmt("if", self.cond(ctx)),
                              g.stmt("exitm"), g.stmt("endif"), self.data_line(ctx), g.stmt("endif")]
                else:
                    lines += [g.stmt("if", self.cond(ctx)), self.data_line(ctx), g.stmt("else"), g.stmt("exitm"),
                              g.stmt("endif")]
            elif k == "shift":
                lines.append(g.stmt(d.choice(["shift", "SHIFT"])))
            elif k == "set":
                v = g.fresh("sv")
                lines.append(v + g.sp() + g.c["setop"] + g.sp() + self.int_expr([x for x in ctx["visible"]
                                                                                   if x["role"] == "cint"]))
        # place the definitions of forward-referenced labels at the end, in shuffled positions after their use
        out = []
        deferred = []
        for ln in lines:
            if isinstance(ln, tuple):
                deferred.append(ln[1])
            else:
                out.append(ln)
                if deferred and d.bool(0.5):
                    out.append(deferred.pop(0) + ":")
        for lab in deferred:
            out.append(lab + ":" + (g.sp() + g.c["nop"] if d.bool(0.3) else ""))
        return out

    # ---------- nested constructs inside a body
    def nested(self, ctx, depth, outer_labels):
        d = self.d
        k = d.weighted([(3, "rept"), (3, "irp"), (2, "irpn"), (2, "irpc"), (2, "while")])
        sub = dict(ctx, outer_labels=list(ctx.get("outer_labels", [])) + list(outer_labels), exitm=True, inloop=True)
        return getattr(self, "c_" + k)(sub, depth)

    def ctrl(self):
        d = self.d
        return d.weighted([(8, None), (2, "{GLOBALSYMBOLS}"), (1, "{NOGLOBALSYMBOLS}"), (1, "{globalsymbols}")])

    def with_ctrl(self, args, ctl):
        if ctl is None:
            return args
        return ctl + "," + args if self.d.bool() else args + "," + ctl

    def c_rept(self, ctx, depth, size=3):
        g, d = self.g, self.d
        ctl = self.ctrl()
        glob = ctl is not None and "NO" not in ctl.upper()
        cints = [v for v in ctx["visible"] if v["role"] == "cint"]
        c = d.weighted([(6, "lit"), (1, "neg"), (2, "zero"), (3 if cints else 0, "par"), (1 if ctx.get("argcount") else 0, "argc"),
                        (1, "big")])
        if c == "lit":
            cnt = str(d.int(1, 4))
        elif c == "neg":
            cnt = str(-d.int(1, 5))
        elif c == "zero":
            cnt = "0"
        elif c == "par":
            cnt = self.pform(d.choice(cints))
        elif c == "argc":
            cnt = g.spell_any("ARGCOUNT")
        else:
            cnt = str(d.int(5, 40))
            size = 1
        body = self.make(dict(ctx, labels=not glob), depth if c != "big" else 3, size)
        return [g.stmt(d.choice(["rept", "REPT", "Rept"]), self.with_ctrl(cnt, ctl),
                       g.fresh("R") if d.bool(0.1) and not ctx.get("nolabel") else "")] + body + [self.endm()]

    def open_label(self, ctx):
        """-> (label for the line that opens a construct or "", lines that refer to it behind the construct)"""
        g, d = self.g, self.d
        if ctx.get("nolabel") or not d.bool(0.25):
            return "", []
        lab = g.fresh("K")
        return lab, ([g.stmt(d.choice(g.c["word"]), lab)] if d.bool(0.8) else [])

    def endm(self):
        e = self.g.stmt(self.d.weighted([(6, "endm"), (2, "ENDM"), (2, "endr")]))
        if self.d.int(0, 99) < 6:
            e += self.g.sp() + "; end, of x"
        return e

    def irp_args(self, ctx, role, n):
        g = self.g
        return [g.arg_for(dict(role=role, name="?"), ctx["visible"], ints_only=True) for _ in range(n)]

    def c_irp(self, ctx, depth):
        g, d = self.g, self.d
        ctl = self.ctrl()
        glob = ctl is not None and "NO" not in ctl.upper()
        name = g.param_names(1, ctx["visible"])[0]
        role = g.role_for(name, d.weighted([(4, "int"), (3, "cint"), (2, "dig"), (2, "str"), (1, "qstr")]))
        if role == "size":
            role = "int"
        n = d.int(1, 4) if d.int(0, 99) < 90 else d.int(12, 24)
        after = []
        if d.int(0, 99) < 12:
            role = "lab"
        args = self.irp_args(ctx, role, n)
        if role == "str" and d.bool(0.3):
            args[d.int(0, n - 1)] = ""
        if ctx.get("allargs_ints") and d.bool(0.3):
            args = [g.spell_any("ALLARGS")]
        p = dict(name=name, role=role)
        sub = dict(ctx, visible=ctx["visible"] + [p], labels=not glob)
        if role == "qstr":
            sub["qstr"] = list(ctx.get("qstr") or []) + [p]
        body = self.make(sub, depth, 3)
        if role == "lab":
            body.insert(d.int(0, len(body)), g.stmt(d.choice(g.c["byte"]), str(d.int(0, 99)), g.spell(name)))
            if d.bool(0.6):
                body.insert(d.int(0, len(body)), g.stmt(d.choice(g.c["word"]), g.spell(name)))
            if glob and not ctx["visible"] and not ctx.get("inloop"):
                # with GLOBALSYMBOLS the labels named by the arguments exist outside
                after = [g.stmt(d.choice(g.c["word"]), d.choice(args))]
        hdr = self.with_ctrl(name + "," + ",".join(args), ctl) if ctl and d.bool() else name + "," + ",".join(args) + \
            ("," + ctl if ctl else "")
        lab, ref = self.open_label(ctx)
        return [g.stmt(d.choice(["irp", "IRP"]), hdr, lab)] + body + [self.endm()] + after + ref

    def c_irpn(self, ctx, depth):
        g, d = self.g, self.d
        ctl = self.ctrl()
        glob = ctl is not None and "NO" not in ctl.upper()
        k = d.int(1, 4)
        names = g.param_names(k, ctx["visible"])
        params = []
        for nm in names:
            r = g.role_for(nm, d.weighted([(4, "str"), (3, "dig"), (2, "cint")]))
            if r == "size":
                r = "str"
            params.append(dict(name=nm, role=r))
        groups = d.int(1, 3)
        total = groups * k - (d.int(0, k - 1) if groups > 1 or k == 1 else 0)
        total = max(total, k)
        if d.bool(0.5) and groups > 0:
            total = max(k, groups * k - d.int(0, k - 1))
        args = [g.arg_for(params[i % k], ctx["visible"], ints_only=True) for i in range(total)]
        sub = dict(ctx, visible=ctx["visible"] + params, labels=not glob)
        # ragged tail: values of the last group may be empty -> only string / blank-tested uses are safe
        body = self.make(sub, depth, 3)
        pre = []
        kk = str(k)
        if d.bool(0.2):
            v = g.fresh("nk")
            pre = [v + g.sp() + g.c["setop"] + g.sp() + str(k)]
            kk = v if d.bool(0.7) else "%s+0" % v
        hdr = "%s,%s,%s" % (kk, ",".join(names), ",".join(args))
        if ctl:
            hdr += "," + ctl
        lab, ref = self.open_label(ctx)
        return pre + [g.stmt(d.choice(["irpn", "IRPN"]), hdr, lab)] + body + [self.endm()] + ref

    def c_irpc(self, ctx, depth):
        g, d = self.g, self.d
        ctl = self.ctrl()
        glob = ctl is not None and "NO" not in ctl.upper()
        name = g.param_names(1, ctx["visible"])[0]
        kind = d.weighted([(3, "dig"), (3, "str")])
        if kind == "dig":
            s = "".join(str(d.int(1, 3)) for _ in range(d.int(0, 4)))
        else:
            s = "".join(d.choice("abXY09 z,;.-") for _ in range(d.int(0, 5)))
        p = dict(name=name, role=kind)
        sub = dict(ctx, visible=ctx["visible"] + [p], labels=not glob)
        body = self.make(sub, depth, 3)
        hdr = '%s,"%s"' % (name, s)
        if ctl:
            hdr += "," + ctl
        lab, ref = self.open_label(ctx)
        return [g.stmt(d.choice(["irpc", "IRPC"]), hdr, lab)] + body + [self.endm()] + ref

    def c_while(self, ctx, depth):
        g, d = self.g, self.d
        ctl = self.ctrl()
        glob = ctl is not None and "NO" not in ctl.upper()
        v = g.fresh("wc")
        start = d.int(0, 3)
        cints = [x for x in ctx["visible"] if x["role"] == "cint"]
        if cints and d.bool(0.4):
            lim = self.pform(d.choice(cints))
        else:
            lim = str(d.int(0, 5))
        op = d.choice(["<", "<=", "<>"]) if False else d.choice(["<", "<="])
        sub = dict(ctx, labels=not glob, vars=list(ctx.get("vars", [])) + [v])
        body = self.make(sub, depth, 2)
        step = d.weighted([(4, 1), (1, 2)])
        inc = v + g.sp() + g.c["setop"] + g.sp() + "%s+%d" % (v, step)
        pos = d.int(0, len(body))
        # the increment must not sit inside an IF block of the body: put it first or last
        if pos not in (0, len(body)):
            pos = len(body)
        body.insert(pos, inc)
        lab, ref = self.open_label(ctx)
        return [v + g.sp() + g.c["setop"] + g.sp() + str(start),
                g.stmt(d.choice(["while", "WHILE"]), self.with_ctrl("%s%s%s" % (v, op, lim), ctl), lab)] + body + \
            [self.endm()] + ref

    # ---------- macro calls
    def call(self, m, ctx, label=""):
        g, d = self.g, self.d
        params = m["params"]
        n = len(params)
        vis = ctx["visible"]
        need_full = m.get("argcount") or m.get("allargs_ints")
        mode = d.weighted([(5, "exact"), (2 if not need_full else 0, "fewer"), (2, "excess"),
                           (2 if not need_full else 0, "empties"), (3 if n and not m.get("nokw") else 0, "kw"),
                           (2 if n > 1 and not m.get("nokw") else 0, "mixed")])
        args = []
        for p in params:
            args.append(g.arg_for(dict(p, siblings=[q["name"] for q in params if q is not p]), vis,
                                  ints_only=m.get("allargs_ints")))
        if mode == "fewer" and n:
            keep = d.int(0, n - 1)
            # parameters that lose their argument must tolerate an empty text or have a default
            if all(p.get("default") is not None or p["role"] == "str" for p in params[keep:]):
                args = args[:keep]
        elif mode == "excess":
            for _ in range(d.int(1, 3)):
                args.append(str(d.int(0, 9)) if m.get("allargs_ints") or d.bool(0.7) else "")
        elif mode == "empties" and n:
            for i, p in enumerate(params):
                if (p.get("default") is not None or p["role"] == "str") and d.bool(0.6):
                    args[i] = ""
        elif mode in ("kw", "mixed") and n:
            npos = d.int(1, n - 1) if mode == "mixed" else 0
            kws = []
            idx = list(range(npos, n))
            idx = d.shuffle(idx)
            for i in idx:
                p = params[i]
                if (p.get("default") is not None or p["role"] == "str") and d.bool(0.3):
                    if d.bool(0.5):
                        continue                      # left out: default / empty
                    kws.append("%s=" % g.spell(p["name"]))      # explicitly empty
                else:
                    kws.append("%s=%s" % (g.spell(p["name"]), args[i]))
            args = args[:npos] + kws
        if m.get("allargs_data") and not args:
            args = [str(d.int(0, 9))]
        name = g.spell(m["name"])
        if m.get("attr"):
            a = d.weighted([(3, "b"), (2, "w"), (2, "l"), (1, "")])
            if a:
                name += "." + a
        elif g.c["hasattrs"] and d.int(0, 99) < 6:
            name += "." + d.choice(["b", "w", "l", "s"])
        sep = d.weighted([(8, ","), (1, ", "), (1, " , ")])
        if sep != "," and args and args[-1] == "":
            sep = ","
        line = g.stmt(name, sep.join(args), label)
        return [line]

    # ---------- macro definition
    def macro(self, ctx_visible=(), depth=0, nparams=None, name=None, force=None):
        """define a macro; returns (lines, spec)"""
        g, d = self.g, self.d
        force = force or {}
        if nparams is None:
            nparams = d.weighted([(1, 0), (3, 1), (4, 2), (3, 3), (2, 4), (1, 6)])
        names = g.param_names(nparams, list(ctx_visible))
        params = []
        for nm in names:
            role = g.role_for(nm)
            p = dict(name=nm, role=role)
            if d.bool(0.3):
                dflt = g.arg_for(p, [], ints_only=True)
                if dflt != "" and "=" not in dflt:
                    p["default"] = dflt
            params.append(p)
        ctl = self.ctrl() if not force.get("noglob") else None
        glob = ctl is not None and "NO" not in ctl.upper()
        name = name or g.fresh(d.choice(["m", "mac", "M"]))
        attr = g.c["hasattrs"] and d.weighted([(1, True), (1, False)])
        uses_argc = d.bool(0.3)
        allargs_ints = all(p["role"] in ("int", "cint", "dig") for p in params) and d.bool(0.4)
        shift = d.bool(0.25) and nparams > 0
        spec = dict(name=name, params=params, glob=glob, attr=attr, argcount=uses_argc, allargs_ints=allargs_ints,
                    shift=shift)
        if shift and (uses_argc or allargs_ints):
            spec["nokw"] = True
        ctx = dict(visible=list(ctx_visible) + params, macro=spec, labels=not glob, argcount=uses_argc, attr=attr,
                   sizes=[p for p in params if p["role"] == "size"], qstr=[p for p in params if p["role"] == "qstr"],
                   exitm=True, shift=shift, allargs_ints=allargs_ints)
        body = self.make(ctx, depth, d.weighted([(1, 0), (3, 2), (4, 4), (2, 6)]))
        if not allargs_ints and not shift and nparams < 6 and d.int(0, 99) < 18:
            # a parameter that names a label: defined (and referenced) in the body, private to the expansion
            ln = g.fresh(d.choice(["lp", "LQ", "lbl"]))
            lp = dict(name=ln, role="lab")
            params.append(lp)
            spec["nokw"] = spec.get("nokw", False)
            at = d.int(0, len(body))
            body.insert(at, g.stmt(d.choice(g.c["byte"]), str(d.int(0, 99)), g.spell(ln)))
            for _ in range(d.int(0, 2)):
                body.insert(d.int(0, len(body)), g.stmt(d.choice(g.c["word"]), g.spell(ln)))
        if not allargs_ints and not shift and nparams < 6 and d.int(0, 99) < 10:
            # a parameter in the opcode field
            dn = g.fresh(d.choice(["op", "OPC"]))
            params.append(dict(name=dn, role="dir"))
            for _ in range(d.int(1, 2)):
                body.insert(d.int(0, len(body)), g.stmt(g.spell(dn), self.int_expr(ctx["visible"])))
        if attr:
            # the attribute of the call replaces ATTRIBUTE (manual: move.ATTRIBUTE op,-(sp))
            a = g.spell_any("ATTRIBUTE")
            body.insert(d.int(0, len(body)), d.weighted([(3, g.stmt("dc." + a, self.int_expr(ctx["visible"]))),
                                                           (2, g.sp() + "move." + a + g.sp() + "d0,d1"),
                                                           (1, g.stmt(d.choice(g.c["byte"]), '"<' + a + '>"'))]))
        if allargs_ints and d.bool(0.7):
            body.insert(d.int(0, len(body)), g.stmt(d.choice(g.c["byte"]), g.spell_any("ALLARGS")))
            spec["allargs_data"] = True
            spec["nokw"] = True
        plist = []
        for p in params:
            plist.append(p["name"] + ("=" + p["default"] if p.get("default") is not None else ""))
        if ctl:
            plist.insert(d.int(0, len(plist)), ctl)
        if d.bool(0.1):
            plist.insert(d.int(0, len(plist)), d.choice(["{NOEXPAND}", "{EXPAND}", "{NOEXPIF}"]))
        lines = [name + (":" if d.bool(0.1) else "") + g.sp() + d.choice(["macro", "MACRO", "Macro"]) +
                 (g.sp() + ",".join(plist) if plist else "")] + body + [self.endm()]
        return lines, spec


def top_ctx():
    return dict(visible=[], macro=None, labels=False, nolabel=False)


def scenario(g, b, kind):
    """-> lines of one top-level scenario"""
    d = g.d
    ctx = top_ctx()
    if kind == "macro":
        lines, spec = b.macro()
        g.macros.append(spec)
        for _ in range(d.int(1, 3)):
            lines += b.call(spec, ctx, g.fresh("C") if d.bool(0.15) else "")
            if d.bool(0.3):
                lines.append(b.data_line(ctx))
        return lines
    if kind in ("rept", "irp", "irpn", "irpc", "while"):
        return getattr(b, "c_" + kind)(ctx, 1)
    if kind == "rec":
        return rec_scenario(g, b)
    if kind == "shift":
        return shift_scenario(g, b)
    if kind == "shadow":
        return shadow_scenario(g, b)
    if kind == "many":
        return many_scenario(g, b)
    if kind == "defmac":
        return defmac_scenario(g, b)
    if kind == "include":
        return include_scenario(g, b)
    if kind == "binclude":
        return binclude_scenario(g, b)
    if kind == "glob":
        return glob_scenario(g, b)
    if kind == "intlabel":
        return intlabel_scenario(g, b)
    if kind == "volume":
        return volume_scenario(g, b)
    raise ValueError(kind)


def rec_scenario(g, b):
    """bounded recursion: countdown with IF or with EXITM"""
    d = g.d
    name = g.fresh("rc")
    n = g.param_names(1, [])[0]
    extra = g.param_names(d.int(0, 1), [dict(name=n)])
    bd = d.choice(g.c["byte"])
    pn = g.spell(n)
    plist = [n] + extra
    evis = [dict(name=e, role="int") for e in extra]
    ctx = dict(visible=[dict(name=n, role="cint")] + evis, macro=None, labels=True, exitm=False)
    pay = b.make(ctx, 1, 2)
    selfcall = g.stmt(g.spell(name), ",".join(["(%s-1)" % pn] + [g.spell(e) for e in extra]))
    style = d.weighted([(2, "if"), (2, "exitm"), (1, "mutual")])
    if style == "mutual":
        # two macros calling each other; the second one is defined after the first one's body names it
        other = g.fresh("rd")
        qn = g.param_names(1, [])[0]
        lines = [name + g.sp() + "macro" + g.sp() + n, g.stmt("if", "%s>0" % pn), g.stmt(bd, pn),
                 g.stmt(g.spell(other), "(%s-1)" % pn), g.stmt("endif"), b.endm(),
                 other + g.sp() + "macro" + g.sp() + qn, g.stmt("if", "%s>0" % g.spell(qn)), g.stmt(bd, g.spell(qn) + "+100"),
                 g.stmt(g.spell(name), "(%s-1)" % g.spell(qn)), g.stmt("endif"), b.endm()]
        for _ in range(d.int(1, 2)):
            lines.append(g.stmt(g.spell(d.choice([name, other])), str(d.int(0, 6))))
        return lines
    lines = [name + g.sp() + "macro" + g.sp() + ",".join(plist)]
    if style == "if":
        lines += [g.stmt("if", "%s>0" % pn), g.stmt(bd, pn)] + pay + [selfcall, g.stmt("endif")]
    else:
        lines += [g.stmt("if", "%s<=0" % pn), g.stmt("exitm"), g.stmt("endif"), g.stmt(bd, pn)]
        if d.bool():
            lines += pay + [selfcall]
        else:
            lines += [selfcall] + pay
    lines.append(b.endm())
    for _ in range(d.int(1, 2)):
        n0 = d.int(0, 4) if d.int(0, 99) < 85 else d.int(8, 14)
        lines.append(g.stmt(g.spell(name), ",".join([str(n0)] + [str(d.int(0, 9)) for _ in extra])))
    return lines


def shadow_scenario(g, b):
    """a body label with the name of a symbol that is already defined outside, referenced in the body before its
    private definition (the reference means the body's own label: it is private to the expansion)"""
    d = g.d
    nm = g.fresh(d.choice(["slot", "lp", "Tgt"]))
    bd, wd = d.choice(g.c["byte"]), d.choice(g.c["word"])
    lines = [g.stmt(bd, str(d.int(1, 9)), nm)]
    body = []
    for _ in range(d.int(1, 3)):
        body.append(g.stmt(wd, g.spell(nm) + d.choice(["", "+1", "+2"])))
        if d.bool(0.5):
            body.append(g.stmt(bd, ",".join(str(d.int(0, 99)) for _ in range(d.int(1, 4)))))
    body.append(g.stmt(bd, str(d.int(10, 99)), g.spell(nm)))
    if d.bool(0.4):
        body.append(g.stmt(wd, g.spell(nm)))
    how = d.weighted([(4, "macro"), (2, "rept"), (2, "irp")])
    if how == "macro":
        mn = g.fresh("shw")
        lines += [mn + g.sp() + "macro"] + body + [b.endm()] + [g.stmt(g.spell(mn))] * d.int(1, 3)
    elif how == "rept":
        lines += [g.stmt("rept", str(d.int(1, 3)))] + body + [b.endm()]
    else:
        q = g.param_names(1, [])[0]
        lines += [g.stmt("irp", q + "," + ",".join(str(d.int(0, 9)) for _ in range(d.int(1, 3))))] + body + [b.endm()]
    if d.bool(0.5):
        lines.append(g.stmt(wd, g.spell(nm)))          # the outer symbol is still what the rest of the program sees
    return lines


def shift_scenario(g, b):
    """variable argument lists: the manual's pushlist recursion, or SHIFT steps between uses"""
    d = g.d
    name = g.fresh("sh")
    bd = d.choice(g.c["byte"])
    style = d.weighted([(3, "pushlist"), (3, "steps"), (2, "irp")])
    if style == "pushlist":
        p = g.param_names(1, [])[0]
        P = p if g.U else p.upper()
        lines = [name + g.sp() + "macro" + g.sp() + p,
                 g.stmt("if", '"%s"<>""' % P), g.stmt(bd, g.spell(p)), g.stmt("shift"),
                 g.stmt(g.spell(name), g.spell_any("ALLARGS")), g.stmt("endif"), b.endm()]
        m = d.int(0, 6)
        lines.append(g.stmt(g.spell(name), ",".join(str(d.int(0, 99)) for _ in range(m))))
        return lines
    if style == "irp":
        p = g.param_names(1, [])[0]
        q = g.param_names(1, [dict(name=p)])[0]
        lines = [name + g.sp() + "macro" + g.sp() + p,
                 g.stmt("irp", "%s,%s" % (q, g.spell_any("ALLARGS"))), g.stmt(bd, g.spell(q) + d.choice(["", "+1"])),
                 b.endm(), b.endm()]
        m = d.int(1, 6)
        lines.append(g.stmt(g.spell(name), ",".join(str(d.int(0, 99)) for _ in range(m))))
        return lines
    n = d.int(1, 4)
    ps = g.param_names(n, [])
    # "holes": some arguments of the call are empty (also at the position of the last parameter, also among the
    # excess arguments); every use is written  p+0  so that an empty value is still an expression (+0)
    holes = d.bool(0.45)
    dflt = [str(d.int(1, 9)) if holes and d.bool(0.3) else "" for _ in ps]
    lines = [name + g.sp() + "macro" + g.sp() + ",".join(p + ("=" + v if v else "") for p, v in zip(ps, dflt))]
    use_argc = d.bool(0.5)
    use_all = d.bool(0.5)
    for step in range(d.int(1, 4)):
        items = [g.spell(d.choice(ps)) + ("+0" if holes else "") for _ in range(d.int(1, 3))]
        if use_argc and d.bool(0.6):
            items.append(g.spell_any("ARGCOUNT"))
        lines.append(g.stmt(bd, ",".join(items)))
        if use_all and d.bool(0.4):
            if holes:
                lines.append(g.stmt(bd, '"<%s>"' % "ALLARGS"))
            else:
                lines.append(g.stmt("if", "%s>0" % g.spell_any("ARGCOUNT")))
                lines.append(g.stmt(bd, g.spell_any("ALLARGS")))
                lines.append(g.stmt("endif"))
        if d.bool(0.2):
            lines += [g.stmt("rept", str(d.int(1, 2))), g.stmt("shift"), b.endm()]
        else:
            lines.append(g.stmt("shift"))
    if holes:
        lines.append(g.stmt(bd, ",".join(g.spell(p) + "+0" for p in ps)))
    lines.append(b.endm())
    for _ in range(d.int(1, 2)):
        # enough arguments that every parameter still has a value after the last SHIFT
        m = n + d.int(0, 3) + (6 if d.bool(0.8) else 0)
        args = [str(d.int(0, 99)) for _ in range(m)]
        if holes:
            for i in range(m):
                if d.bool(0.5 if i == n - 1 else 0.2):
                    args[i] = ""
            if args[-1] == "":
                args[-1] = str(d.int(0, 99))       # a trailing comma is a different matter (empty last argument)
        lines.append(g.stmt(g.spell(name), ",".join(args)))
    return lines


def many_scenario(g, b):
    """9-20 parameters; uses of high parameter numbers, adjacent backslash forms"""
    d = g.d
    n = d.weighted([(2, 9), (2, 10), (2, 13), (2, 16), (3, 17), (2, 18), (3, 20), (1, 12)])
    name = g.fresh("mm")
    ps = ["%s%d" % (d.choice(["p", "P"]) if not g.U else "p", i + 1) for i in range(n)]
    if d.bool(0.3):
        ps = g.param_names(n, [])
    roles = [d.weighted([(3, "dig"), (2, "int")]) for _ in ps]
    bd = d.choice(g.c["byte"])
    lines = []
    body = []
    digs = [i for i in range(n) if roles[i] == "dig"]
    ints = [i for i in range(n) if roles[i] == "int"]
    hi = [i for i in range(n) if i >= 7]        # parameters 8, 9, 12: token bytes TAB, LF, CR
    for _ in range(d.int(2, 6)):
        k = d.weighted([(3, "ints"), (4 if len(digs) >= 2 else 0, "adj"), (2 if digs else 0, "one"), (2, "str")])
        if k == "ints":
            pick = [d.choice(hi if d.bool(0.6) else list(range(n))) for _ in range(d.int(1, 4))]
            body.append(g.stmt(bd, ",".join(g.spell(ps[i]) + d.choice(["", "+1"]) for i in pick)))
        elif k == "adj":
            # two digit parameters directly adjacent: zt\a\\b\ -> symbol ztXY ; also \a\b (plain after backslash form)
            pool = [i for i in digs if i >= 8] or digs
            i = d.choice(pool if d.bool(0.7) else digs)
            if d.bool(0.5):
                later = [x for x in digs if x >= 15]
                j = d.choice(later) if later and d.bool(0.6) else d.choice(digs)
            else:
                j = d.choice(digs)
            if d.bool(0.5) and len([x for x in digs if x >= 15]) >= 2:
                i, j = d.shuffle([x for x in digs if x >= 15])[:2]
            f = d.weighted([(3, "zt\\%s\\\\%s\\"), (2, "zt\\%s\\%s"), (1, "zt_%s_%s"), (1, "zt\\%s\\_%s")])
            g.family.add("dd")
            g.family.add("_d_d")
            g.family.add("d_d")
            body.append(g.stmt(bd, f % (g.spell(ps[i]), g.spell(ps[j]))))
        elif k == "one":
            i = d.choice(digs)
            g.family.add("d")
            g.family.add("_d")
            body.append(g.stmt(bd, d.choice(["zt\\%s\\", "zt_%s"]) % g.spell(ps[i])))
        else:
            pick = [d.choice(list(range(n))) for _ in range(d.int(1, 3))]
            s = "".join(d.choice(["_%s_", "\\%s\\", "-%s-"]) % (ps[i] if g.U else ps[i].upper()) for i in pick)
            if d.bool(0.25):
                s += d.choice(["ARGCOUNT", "\\ARGCOUNT\\", "-ARGCOUNT"])
            if s.endswith("\\"):
                s += "."
            body.append(g.stmt(bd, '"' + s + '"'))
    lines.append(name + g.sp() + "macro" + g.sp() + ",".join(ps))
    lines += body
    lines.append(b.endm())
    for _ in range(d.int(1, 2)):
        args = [str(d.int(1, 3)) if roles[i] == "dig" else str(d.int(0, 60)) for i in range(n)]
        if d.bool(0.2):
            args = args[:d.int(max(0, n - 3), n)] if not digs else args
        lines.append(g.stmt(g.spell(name), ",".join(args)))
    return lines


def defmac_scenario(g, b):
    """a macro that defines a macro whose name / parameter come from its arguments"""
    d = g.d
    outer = g.fresh("dm")
    pn, pv = g.param_names(2, [])
    inner_p = g.param_names(1, [dict(name=pn), dict(name=pv)])[0]
    bd = d.choice(g.c["byte"])
    lines = [outer + g.sp() + "macro" + g.sp() + "%s,%s" % (pn, pv),
             g.spell(pn) + g.sp() + "macro" + g.sp() + inner_p,
             g.stmt(bd, "%s,%s" % (g.spell(inner_p), g.spell(pv))),
             b.endm(), b.endm()]
    made = []
    for _ in range(d.int(1, 2)):
        nm = g.fresh("in")
        made.append(nm)
        lines.append(g.stmt(g.spell(outer), "%s,%d" % (nm, d.int(0, 50))))
    for nm in made:
        for _ in range(d.int(1, 2)):
            lines.append(g.stmt(g.spell(nm), str(d.int(0, 50))))
    return lines


def include_scenario(g, b):
    d = g.d
    lines = []
    style = d.weighted([(3, "plain"), (3, "macros"), (2, "inbody"), (2, "nested"), (1, "empty"), (1, "skipped")])
    fn = g.fresh("inc").lower()
    ext = d.choice([".inc", ".asm", ".i"])
    ref = d.weighted([(3, '"%s%s"' % (fn, ext)), (2, "%s%s" % (fn, ext))])
    if ext == ".inc" and d.bool(0.5):
        ref = d.choice([fn, '"%s"' % fn])
    ctx = top_ctx()
    if style == "empty":
        g.files[fn + ext] = d.choice(["", "\n", "; nothing\n", " ; c"])
        lines.append(g.stmt("include", ref))
    elif style == "skipped":
        g.files[fn + ext] = b.data_line(ctx) + "\n"
        lines += [g.stmt("if", d.choice(["0", "1=2"])), g.stmt("include", ref), g.stmt("else"), b.data_line(ctx), g.stmt("endif")]
    elif style == "plain":
        g.files[fn + ext] = "\n".join(b.make(ctx, 1, 4) + [b.data_line(ctx)]) + "\n"
        lines.append(g.stmt(d.choice(["include", "INCLUDE"]), ref))
    elif style == "macros":
        ml, spec = b.macro()
        g.files[fn + ext] = "\n".join(ml) + ("\n" if d.bool(0.8) else "")
        lines.append(g.stmt("include", ref))
        g.macros.append(spec)
        for _ in range(d.int(1, 2)):
            lines += b.call(spec, ctx)
    elif style == "inbody":
        # the file is read as it is: a parameter of the surrounding body is NOT replaced in it
        p = g.param_names(1, [])[0]
        if g.equ(p) or True:
            pass
        inc_lines = [b.data_line(ctx)]
        if g.equ(p):
            inc_lines.append(g.stmt(d.choice(g.c["byte"]), g.spell(p)))
        if d.bool(0.5):
            lab = g.fresh("IL")
            inc_lines += [lab + ":", g.stmt(d.choice(g.c["word"]), lab)]
        g.files[fn + ext] = "\n".join(inc_lines) + "\n"
        kind = d.choice(["macro", "rept", "irp"])
        if kind == "macro":
            mn = g.fresh("im")
            lines += [mn + g.sp() + "macro" + g.sp() + p, g.stmt(d.choice(g.c["byte"]), g.spell(p) + "+1"),
                      g.stmt("include", ref), b.endm()]
            for _ in range(d.int(1, 2)):
                lines.append(g.stmt(mn, str(d.int(0, 50))))
        elif kind == "rept":
            lines += [g.stmt("rept", str(d.int(0, 3))), g.stmt("include", ref), b.data_line(ctx), b.endm()]
        else:
            lines += [g.stmt("irp", "%s,%d,%d" % (p, d.int(0, 50), d.int(0, 50))), g.stmt("include", ref),
                      g.stmt(d.choice(g.c["byte"]), g.spell(p)), b.endm()]
    else:
        fn2 = g.fresh("inc").lower()
        fn3 = g.fresh("inc").lower()
        g.files[fn3 + ".inc"] = "\n".join(b.make(ctx, 2, 2) + [b.data_line(ctx)]) + "\n"
        g.files[fn2 + ".inc"] = "\n".join([b.data_line(ctx), g.stmt("include", fn3), b.data_line(ctx)] +
                                          (c_wrap(b, ctx) if d.bool(0.5) else [])) + "\n"
        g.files[fn + ext] = "\n".join([b.data_line(ctx), g.stmt("include", '"%s.inc"' % fn2), b.data_line(ctx)]) + "\n"
        lines.append(g.stmt("include", ref))
    return lines


def volume_scenario(g, b):
    """many executions of one construct in a single run: REPT n1 { REPT n2 { INCLUDE / macro call / IRP / WHILE /
    BINCLUDE } } with n1*n2 up to 400 (counts 0..40 per level, as in the property's scope): whatever a construct
    books per execution (include depth, nesting level, expansion counters) has to be given back every time"""
    d = g.d
    ctx = top_ctx()
    n1 = d.weighted([(3, d.int(20, 40)), (2, 40), (2, d.int(2, 19))])
    n2 = d.weighted([(3, d.int(5, 10)), (2, d.int(1, 4)), (1, d.int(11, 20))])
    while n1 * n2 > 420:
        n2 -= 1
    bd = d.choice(g.c["byte"])
    cnt = g.fresh("VC")
    inner = d.weighted([(5, "include"), (3, "macro"), (2, "irp"), (1, "while"), (1, "binclude"), (2, "incmacro")])
    pre, body = [cnt + g.sp() + "set" + g.sp() + "0"], []
    step = [cnt + g.sp() + "set" + g.sp() + cnt + "+1", g.stmt(bd, "%s&255" % cnt)]
    if inner in ("include", "incmacro"):
        fn = g.fresh("inc").lower()
        if inner == "include":
            g.files[fn + ".inc"] = "\n".join(step) + "\n"
        else:
            mn = g.fresh("vm")
            p = g.param_names(1, [])[0]
            pre += [mn + g.sp() + "macro" + g.sp() + p] + step + [g.stmt(bd, g.spell(p) + "+1"), b.endm()]
            g.files[fn + ".inc"] = g.stmt(mn, str(d.int(0, 50))) + "\n"
        body = [g.stmt("include", d.choice(['"%s.inc"' % fn, fn]))]
    elif inner == "macro":
        mn, mn2 = g.fresh("vm"), g.fresh("vm")
        p = g.param_names(1, [])[0]
        pre += [mn + g.sp() + "macro" + g.sp() + p] + step + [g.stmt(bd, g.spell(p) + "+1"), b.endm()]
        pre += [mn2 + g.sp() + "macro" + g.sp() + p, g.stmt(mn, g.spell(p) + "+2"), b.endm()]
        body = [g.stmt(d.choice([mn, mn2]), str(d.int(0, 50)))]
    elif inner == "irp":
        p = g.param_names(1, [])[0]
        body = [g.stmt("irp", "%s,%d,%d" % (p, d.int(0, 50), d.int(0, 50)))] + step + [g.stmt(bd, g.spell(p)), b.endm()]
    elif inner == "while":
        w = g.fresh("VW")
        body = [w + g.sp() + "set" + g.sp() + "0", g.stmt("while", "%s<2" % w)] + step + \
               [w + g.sp() + "set" + g.sp() + w + "+1", b.endm()]
    else:
        fn = g.fresh("bin").lower() + ".bin"
        g.bins[fn] = bytes(d.int(0, 255) for _ in range(d.int(1, 3))).hex()
        body = [g.stmt("binclude", '"%s"' % fn)] + step
    lines = pre + [g.stmt("rept", str(n1)), g.stmt("rept", str(n2))] + body + [b.endm()]
    if d.bool(0.5):
        lines += step
    lines += [b.endm()]
    return lines


def c_wrap(b, ctx):
    return b.c_rept(ctx, 2)


def binclude_scenario(g, b):
    d = g.d
    fn = g.fresh("bin").lower() + ".bin"
    size = d.weighted([(3, d.int(0, 8)), (4, d.int(9, 64)), (2, d.int(250, 262)), (1, d.int(500, 530))])
    data = bytes(d.int(0, 255) for _ in range(min(size, 12))) if size else b""
    # longer files continue with a deterministic pattern (keeps the number of draws small)
    data = data + bytes((i * 7 + 3) & 0xff for i in range(len(data), size))
    g.bins[fn] = data.hex()
    lines = []
    ref = d.choice(['"%s"' % fn, fn])
    for _ in range(d.int(1, 3)):
        form = d.weighted([(3, 1), (3, 2), (4, 3)])
        args = [ref]
        if form >= 2:
            off = d.weighted([(3, 0), (4, d.int(0, size)), (1, size)])
            args.append(g.num(off))
            if form == 3:
                ln = d.weighted([(1, 0), (4, d.int(0, size - off)), (2, size - off)])
                args.append(g.num(ln))
        style = d.weighted([(5, "top"), (2, "rept"), (2, "macro")])
        if style == "top":
            lines.append(g.stmt(d.choice(["binclude", "BINCLUDE"]), ",".join(args), g.fresh("B") if d.bool(0.2) else ""))
        elif style == "rept":
            lines += [g.stmt("rept", str(d.int(0, 3))), g.stmt("binclude", ",".join(args)), b.endm()]
        else:
            mn = g.fresh("bm")
            po, pl = g.param_names(2, [])
            lines += [mn + g.sp() + "macro" + g.sp() + "%s,%s" % (po, pl),
                      g.stmt("binclude", "%s,%s,%s" % (ref, g.spell(po), g.spell(pl))), b.endm()]
            for _ in range(d.int(1, 2)):
                off = d.int(0, size)
                lines.append(g.stmt(mn, "%d,%d" % (off, d.int(0, size - off))))
        if d.bool(0.5):
            lines.append(b.data_line(top_ctx()))
    return lines


def glob_scenario(g, b):
    """labels with and without GLOBALSYMBOLS: visible outside / double definition / private"""
    d = g.d
    lab = g.fresh("GL")
    bd = d.choice(g.c["byte"])
    wd = d.choice(g.c["word"])
    kind = d.weighted([(3, "macro"), (2, "rept"), (2, "irp")])
    globalsyms = d.bool(0.6)
    times = d.weighted([(3, 1), (2, 2), (1, 3)])
    ctl = "{GLOBALSYMBOLS}" if globalsyms else d.choice(["", "{NOGLOBALSYMBOLS}"])
    outside_ref = d.bool(0.7) if globalsyms and times == 1 else d.bool(0.1)
    inner_ref = d.bool(0.6)
    body = [g.stmt(bd, str(d.int(0, 99)), lab)]
    if not globalsyms and d.bool(0.3):
        # "<Name> label $" always creates a global symbol
        pc = {"68000": "*", "z80": "$", "6502": "*"}[g.cpu]
        body = [lab + g.sp() + d.choice(["label", "LABEL"]) + g.sp() + pc, g.stmt(bd, str(d.int(0, 99)))]
        outside_ref = times == 1 or d.bool(0.2)
    if inner_ref:
        body.insert(d.int(0, 1), g.stmt(wd, lab))
    lines = []
    if kind == "macro":
        mn = g.fresh("gm")
        lines += [mn + g.sp() + "macro" + (g.sp() + ctl if ctl else "")] + body + [b.endm()]
        lines += [g.stmt(mn)] * times
    elif kind == "rept":
        lines += [g.stmt("rept", (ctl + "," if ctl else "") + str(times))] + body + [b.endm()]
    else:
        p = g.param_names(1, [])[0]
        lines += [g.stmt("irp", p + "," + ",".join(str(d.int(0, 9)) for _ in range(times)) + ("," + ctl if ctl else ""))]
        lines += body + [g.stmt(bd, g.spell(p)), b.endm()]
    if outside_ref:
        lines.append(g.stmt(wd, lab))
    return lines


def intlabel_scenario(g, b):
    """{INTLABEL}: the label of the calling line replaces __LABEL__ in the body (and is not defined on the call line)"""
    d = g.d
    mn = g.fresh("il")
    p = g.param_names(1, [])[0]
    bd = d.choice(g.c["byte"])
    wd = d.choice(g.c["word"])
    L = g.spell_any("__LABEL__")
    body = d.weighted([(3, [L + g.sp() + bd + g.sp() + g.spell(p)]), (2, [g.stmt(bd, "1"), L + ":", g.stmt(bd, g.spell(p))]),
                       (1, [L, g.stmt(bd, g.spell(p))])])
    if d.bool(0.6):
        body.insert(d.int(0, len(body)), g.stmt(wd, L))
    lines = [mn + g.sp() + "macro" + g.sp() + d.choice(["{INTLABEL},%s", "%s,{INTLABEL}", "{intlabel},%s"]) % p] + body + [b.endm()]
    for _ in range(d.int(1, 3)):
        lines.append(g.stmt(mn, str(d.int(0, 99)), g.fresh("IL")))
    return lines


@composite
def strategy_(d, tier):
    g = Gen(d, tier)
    b = Body(g)
    nscen = d.weighted([(4, 1), (4, 2), (2, 3), (1, 4)]) if tier == "quick" else d.weighted([(2, 1), (3, 2), (3, 3), (2, 5), (1, 8)])
    body = []
    kinds = []
    scen = [(w, k) for w, k in SCEN if not ONLY or k in ONLY]
    for _ in range(nscen):
        k = d.weighted(scen)
        kinds.append(k)
        part = scenario(g, b, k)
        if k in ("rept", "irp", "irpn", "irpc", "while", "binclude") and d.int(0, 99) < 10:
            # conditional assembly around a whole construct: skipped constructs are skipped as a unit
            c = d.choice(["1=0", "0", "1", "2>1"])
            part = [g.stmt("if", c)] + part + ([g.stmt("else"), b.data_line(top_ctx())] if d.bool() else []) + [g.stmt("endif")]
            kinds.append("if-wrapped")
        body += part
        if d.bool(0.3):
            body.append(b.data_line(top_ctx()))
    pre = [g.stmt("cpu", g.cpu)]
    if g.cpu == "68000" and d.int(0, 99) < 55:
        pre.append(g.stmt("padding", "off"))
    if d.weighted([(24, False), (1, True)]):
        # a macro hides the machine instruction of the same name; !name reaches the instruction
        kinds.append("override")
        pre += [g.c["nop"] + g.sp() + "macro", g.stmt(g.c["byte"][0], str(d.int(0, 255))),
                g.sp() + "!" + g.c["nop"], b.endm()]
    for name, val in g.equs:
        pre.append(name + g.sp() + "equ" + g.sp() + str(val))
    fam = []
    for form in sorted(g.family):
        fam += family_names(form)
    for i, nm in enumerate(sorted(set(fam))):
        pre.append(nm + g.sp() + "equ" + g.sp() + str((i * 5 + 1) % 97))
    files = {k: "\n".join(ln + " " if ln.endswith("\\") else ln for ln in v.split("\n")) for k, v in g.files.items()}
    # a line must not end in a backslash (continuation character): a blank follows
    files["t.asm"] = "\n".join(ln + " " if ln.endswith("\\") else ln for ln in pre + body) + "\n"
    return dict(cpu=g.cpu, U=g.U, files=files, bins=g.bins, kinds=kinds)


def family_names(form):
    """all symbols zt... a form can produce with digit arguments 1..3"""
    out = [""]
    for ch in form:
        if ch == "d":
            out = [o + str(k) for o in out for k in (1, 2, 3)]
        else:
            out = [o + ch for o in out]
    return ["zt" + o for o in out]


def strategy(tier):
    return strategy_(tier)


# =========================================================================================== oracle

MSG = re.compile(r"(?:error|warning): (.*)")
PADOFF = re.compile(r"^\s+padding\s+off", re.I | re.M)


def cfg_of(case, **over):
    c = CPUS[case["cpu"]]
    cfg = dict(hasattrs=c["hasattrs"], U=case["U"], bytedir=c["byte"][0],
               bins={k: bytes.fromhex(v) for k, v in case.get("bins", {}).items()})
    cfg.update(over)
    return cfg


def neutral(lines):
    """spelling that cannot matter: letter case outside string constants (case-insensitive mode)"""
    return [M.upstring(x) for x in lines]


def model(case):
    """-> (flat lines, expander) ; raises Unsupported / ProgramError"""
    flat, e = M.expand(case["files"], "t.asm", cfg_of(case))
    if not case["U"]:
        alt, _ = M.expand(case["files"], "t.asm", cfg_of(case, upcase_args=False))
        if neutral(alt) != neutral(flat):
            raise M.Unsupported("letter case of an inserted argument reaches a string constant")
        alt, _ = M.expand(case["files"], "t.asm", cfg_of(case, strict_strings=True))
        if alt != flat:
            raise M.Unsupported("lower-case parameter name inside a string constant")
    return flat, e


def norm_records(p):
    """records of a code file, contiguous data joined"""
    recs = pfile.parse(p, strict=True)
    out = []
    for r in recs:
        if r["kind"] == "data":
            n = len(r["data"]) // r["gran"]
            if out and out[-1][0] == "data" and out[-1][1:4] == (r["cpu"], r["seg"], r["gran"]) \
                    and out[-1][4] + len(out[-1][5]) // r["gran"] == r["addr"]:
                out[-1] = out[-1][:5] + (out[-1][5] + r["data"],)
            elif n or True:
                out.append(("data", r["cpu"], r["seg"], r["gran"], r["addr"], r["data"]))
        elif r["kind"] == "entry":
            out.append(("entry", r["addr"]))
        else:
            out.append(("creator", r["text"]))
    return [r for r in out if not (r[0] == "data" and len(r[5]) == 0)]


def bucket(n):
    for b in (0, 1, 2, 3, 5, 8, 16, 40, 100):
        if n <= b:
            return b
    return 999


def execute(case):
    classes = ["cpu:" + case["cpu"], "U" if case["U"] else "nocase"] + ["scen:" + k for k in set(case.get("kinds", []))]
    try:
        flat, e = model(case)
    except M.Unsupported as x:
        return engine.discarded("unsupported:" + str(x).split(":")[0][:60], classes)
    except M.ProgramError as x:
        return engine.discarded("program-error:" + str(x)[:40], classes)
    if e.flags and case["cpu"] == "68000" and not PADOFF.search(case["files"]["t.asm"]):
        return engine.discarded("label-then-vanishing-statement-under-PADDING", classes)
    st = e.stats
    feats = sorted(e.features)
    classes += ["feat:" + f for f in feats]
    classes.append("depth:%d" % min(st["maxdepth"], 5))
    nt = []
    for k, lab in (("nearmiss", "name-inside-identifier"), ("kw", "keyword-arg"), ("defaulted", "default-arg"),
                   ("empty_args", "empty-arg"), ("excess", "excess-arg"), ("zero_iter", "zero-iteration"),
                   ("shifts", "shift"), ("exitm", "exitm"), ("recursion", "recursion"), ("local_labels", "local-label"),
                   ("bsl_subst", "backslash-form"), ("adjacent", "adjacent-forms"), ("nested_defs", "macro-defining-macro"),
                   ("includes", "include"), ("bincludes", "binclude")):
        if st[k]:
            classes.append(lab)
            if k in ("nearmiss", "kw", "defaulted", "empty_args", "zero_iter", "shifts", "exitm", "excess"):
                nt.append(lab)
    if st["maxdepth"] >= 2:
        nt.append("depth%d" % st["maxdepth"])
    if st["maxparam"] >= 9:
        classes.append("param>=9")
    if st["maxparam"] >= 16:
        classes.append("param>=16")
    if st["adjacent_hi"] >= 16:
        classes.append("adjacent-forms>=16")
    key = None
    if nt:
        key = "|".join([case["cpu"], str(case["U"]), ",".join(feats), ",".join(nt), str(st["maxparam"]),
                        str(bucket(st["calls"])), str(bucket(st["iters"])), str(bucket(len(flat)))])
    argv = ("-U",) if case["U"] else ()
    files = dict(case["files"])
    for k, v in case.get("bins", {}).items():
        files[k] = bytes.fromhex(v)
    flat_src = "\n".join(flat) + "\n"
    a = asl.assemble(files, args=argv)
    b = asl.assemble({"t.asm": flat_src}, args=argv)
    if a.timed_out or b.timed_out:
        return engine.inconclusive("timeout", classes)
    detail = dict(construct=case["files"]["t.asm"], flat=flat_src, a=a.brief(500), b=b.brief(500))
    if a.signal or b.signal:
        return engine.bad("asl killed by signal %s/%s" % (a.signal, b.signal), key, classes, **detail)
    a_ok = a.status == 0 and a.p is not None
    b_ok = b.status == 0 and b.p is not None
    if MSG.findall(a.err) or MSG.findall(b.err):
        # measured only: the property speaks about the code file
        classes.append("diagnostics-equal" if MSG.findall(a.err) == MSG.findall(b.err) else "diagnostics-differ")
    if not a_ok and not b_ok:
        classes.append("both-error")
        if "symbol double defined" in b.err:
            classes.append("double-defined")
            if "symbol double defined" not in a.err:
                return engine.bad("the flat program defines a symbol twice, the construct program fails differently",
                                  key, classes, **detail)
        return engine.ok(key, classes)
    if a_ok != b_ok:
        return engine.bad("construct program %s, hand expansion %s" % ("assembles" if a_ok else "is rejected",
                                                                        "assembles" if b_ok else "is rejected"),
                          key, classes, **detail)
    try:
        ra = norm_records(a.p)
        rb = norm_records(b.p)
    except pfile.FormatError as x:
        return engine.bad("code file not well formed: %s" % x, key, classes, **detail)
    if ra != rb:
        why = "code files differ"
        for i in range(max(len(ra), len(rb))):
            x = ra[i] if i < len(ra) else None
            y = rb[i] if i < len(rb) else None
            if x != y:
                why += ": record %d construct=%s expansion=%s" % (i, brief_rec(x), brief_rec(y))
                break
        return engine.bad(why, key, classes, **detail)
    if not any(r[0] == "data" for r in ra):
        classes.append("no-code")
    return engine.ok(key, classes)


def brief_rec(r):
    if r is None:
        return "none"
    if r[0] == "data":
        return "data@%x:%s" % (r[4], r[5][:48].hex())
    return str(r)


def show(case):
    return dict(cpu=case["cpu"], U=case["U"], src=case["files"]["t.asm"][:1200])


def mk(cpu, src, U=False, files=None, bins=None, kind="fixed"):
    f = {"t.asm": src if src.endswith("\n") else src + "\n"}
    f.update(files or {})
    return dict(cpu=cpu, U=U, files=f, bins={k: v.hex() for k, v in (bins or {}).items()}, kinds=[kind])


def fixed_cases(tier):
    out = []
    Z = " cpu z80\n"
    M68 = " cpu 68000\n"
    # --- REPT counts (0..40 and negative), labels private per repetition
    for n in (-3, -1, 0, 1, 2, 3, 16, 39, 40):
        out.append(mk("z80", Z + " db 1\n rept %d\nL: db 2\n dw L\n endm\n db 3\n" % n, kind="fix-rept"))
        out.append(mk("68000", M68 + "n set %d\n rept n+1-1\n dc.b 2\n endm\n dc.b 3\n" % n, kind="fix-rept"))
    # --- 0..20 parameters, every parameter used, plain and in a string, both spellings of the concatenation
    for n in range(0, 21):
        ps = ["p%d" % i for i in range(1, n + 1)]
        body = ""
        if n:
            body += " db " + ",".join(ps) + "\n"
            body += ' db "' + "".join("\\%s\\" % p.upper() for p in ps) + '."\n'
            body += ' db "' + "_".join(p.upper() for p in ps) + '"\n'
        body += " db ARGCOUNT\n"
        src = Z + "m macro " + ",".join(ps) + "\n" + body + " endm\n m " + ",".join(str(i % 10) for i in range(n)) + "\n"
        out.append(mk("z80", src, kind="fix-nparams"))
    # --- every ordered pair of 20 parameters directly adjacent (exhaustive), three spellings
    ps = ["p%d" % i for i in range(1, 21)]
    pre = "".join("zt%d%d equ %d\n" % (a, b, a * 16 + b) for a in (1, 2, 3) for b in (1, 2, 3))
    args = ",".join(str(i % 3 + 1) for i in range(20))
    for form in ("zt\\%s\\\\%s\\ ", "zt\\%s\\%s", '"\\%s\\\\%s\\_"'):
        up = form.startswith('"')
        body = "".join(" db " + form % ((a.upper(), b.upper()) if up else (a, b)) + "\n" for a in ps for b in ps)
        out.append(mk("z80", Z + pre + "m macro " + ",".join(ps) + "\n" + body + " endm\n m " + args + "\n",
                      kind="fix-adjacent"))
    # implicit parameters next to explicit ones
    out.append(mk("68000", M68 + "m macro " + ",".join(ps[:17]) + '\n dc.b "\\P16\\ARGCOUNT.\\P17\\ALLARGS.\\P16\\ATTRIBUTE"\n'
                  " dc.ATTRIBUTE p16\n endm\n m.w " + ",".join(str(i) for i in range(17)) + "\n", kind="fix-adjacent"))
    # --- a label on the line that opens a construct, at an odd address, the first body line padded: the label moves with
    #     the padding exactly as a label on a line of its own in front of the expanded lines does
    for opener, closer in (("rept 2", "endm"), ("irp x,5,6", "endm"), ("irpn 1,x,5,6", "endm"), ("irpn 2,x,y,5,6,7", "endm"),
                           ('irpc x,"12"', "endm"), ("while wc<2", "endm"), ("lm 5", None)):
        for first in (" dc.w 4660\n", " dc.l 1\n", " nop\n", " dc.b 7\n"):
            pre = M68 + "wc set 0\nlm macro p\n%s dc.b p\n endm\n" % first
            if closer:
                body = "kl: %s\n%s dc.b 9\nwc set wc+1\n %s\n" % (opener, first, closer)
            else:
                body = "kl: %s\n" % opener
            out.append(mk("68000", pre + " dc.b 1\n" + body + " dc.l kl\n dc.b 2\n" + body.replace("kl:", "km:") + " dc.l km\n",
                          kind="fix-open-label"))
    # --- IRPN group sizes 1..4, ragged tails
    for k in (1, 2, 3, 4):
        names = ["q%d" % i for i in range(k)]
        for total in range(k, 3 * k + 1):
            body = ' db "' + "-".join(n.upper() for n in names) + '"\n'
            src = Z + " irpn %d,%s,%s\n%s endm\n db 255\n" % (k, ",".join(names), ",".join(str(i) for i in range(total)), body)
            out.append(mk("z80", src, kind="fix-irpn"))
    # --- argument binding, enumerated: positional lists over {value, empty} up to 5 arguments, keyword sets over
    #     {absent, value, empty} in two orders, one positional followed by keywords
    import itertools
    for cpu, hdr, bd in (("z80", Z, "db"), ("68000", M68, "dc.b")):
        mac = "bm macro pa,pb=7,pc\n %s \"<PA|PB|PC>\"\n endm\nbn macro pa=1,pb=2,pc=3\n %s pa,pb,pc\n endm\nbo macro pa=1,pb=2,pc=3\n %s pa,pb,pc,ARGCOUNT\n endm\n" % (bd, bd, bd)
        calls = []
        for n in range(0, 6):
            for combo in itertools.product(["", "5"], repeat=n):
                calls.append(" bm " + ",".join(x and str(i + 4) for i, x in enumerate(combo)))
                calls.append(" bn " + ",".join(x and str(i + 4) for i, x in enumerate(combo)))
                if n >= 3:
                    calls.append(" bo " + ",".join(x and str(i + 4) for i, x in enumerate(combo)))
        for combo in itertools.product([None, "", "9"], repeat=3):
            kws = ["%s=%s" % (nm, v) for nm, v in zip(("pa", "pb", "pc"), combo) if v is not None]
            if kws:
                calls.append(" bm " + ",".join(kws))
                calls.append(" bm " + ",".join(reversed(kws)))
                rest = [k for k in kws if not k.startswith("pa")]
                if all(not k.endswith("=") for k in rest):
                    calls.append(" bn 8" + "".join("," + k for k in rest))
        for i in range(0, len(calls), 40):
            out.append(mk(cpu, hdr + mac + "\n".join(calls[i:i + 40]) + "\n", kind="fix-binding"))
    # --- the manual's examples
    out.append(mk("z80", Z + 'pushlist macro reg\n if "REG"<>""\n db reg\n shift\n pushlist ALLARGS\n endif\n endm\n'
                  " pushlist 1,2,3,4,5,6\n", kind="fix-manual"))
    out.append(mk("z80", Z + "pushlist macro reg\n irp reg2,ALLARGS\n db reg2\n endm\n endm\n pushlist 1,2,3\n", kind="fix-manual"))
    out.append(mk("z80", Z + "module_function equ 5\nmodulefunction equ 6\nconcat macro part1,part2\n db part1_part2\n"
                  " db \\part1\\\\part2\\ \n endm\n concat module,function\n", kind="fix-manual"))
    out.append(mk("68000", M68 + " padding off\ndc_len macro args\n dc.ATTRIBUTE ARGCOUNT\n if ARGCOUNT<>0\n dc.ATTRIBUTE ALLARGS\n"
                  " endif\n endm\n dc_len.b 1,2,3\n dc_len.w 1\n dc_len.l 5,6,7,8,9,10\n", kind="fix-manual"))
    out.append(mk("68000", M68 + "cnt set 1\nsq set cnt*cnt\n while sq<=100\n dc.l sq\ncnt set cnt+1\nsq set cnt*cnt\n endm\n",
                  kind="fix-manual"))
    out.append(mk("z80", Z + ' irpc char,"Hello World"\n db "CHAR"\n endm\n', kind="fix-manual"))
    out.append(mk("68000", M68 + "push macro op\n move.ATTRIBUTE op,-(sp)\n endm\npop macro op\n move.ATTRIBUTE (sp)+,op\n endm\n"
                  " push.w d0\n pop.l a2\n", kind="fix-manual"))
    out.append(mk("z80", Z + "VecCnt set 0\nDefV macro Name\n db VecCnt\nVecCnt set VecCnt+4\n endm\n DefV a\n DefV b\n db VecCnt\n",
                  kind="fix-manual"))
    # --- regression inputs of the defects found with this check
    out.append(mk("z80", Z + " rept 2\n rept 1\n endm\nL1: db 1\n endm\n", kind="fix-regress"))
    out.append(mk("z80", Z + "em macro\n endm\nm2 macro\n em\nL1: db 1\n dw L1\n endm\n m2\n m2\n", kind="fix-regress"))
    out.append(mk("z80", Z + "m macro a,b\n shift\n db a,b\n endm\n m 1,2,3\n", kind="fix-regress"))
    out.append(mk("z80", Z + "m macro a,b\n db ARGCOUNT\n shift\n db a,ARGCOUNT\n db ALLARGS\n endm\n m 1,2,3,4\n", kind="fix-regress"))
    out.append(mk("z80", Z + 'm macro a,b\n shift\n db "A","B",0\n endm\n m 1,2\n', kind="fix-regress"))
    # a body label that has the name of an already defined outer symbol, referenced before its private definition;
    # nothing else in these programs asks for a second pass (seeds C11-d / C01-d)
    for cpu, P, bd, wd in (("z80", Z, "db", "dw"), ("68000", M68, "dc.b", "dc.w"), ("6502", " cpu 6502\n", "byt", "adr")):
        for cons in ("m macro\n%s endm\n m\n m\n", " rept 2\n%s endm\n", " irp zz,1,2\n%s endm\n"):
            body = " %s slot\n %s 5\nslot: %s 2,3\n" % (wd, bd, bd)
            out.append(mk(cpu, P + "slot: %s 1,1\n" % bd + cons % body + " %s slot\n" % wd, kind="shadow"))
    # empty argument at the position of the last formal parameter, excess arguments, SHIFT (seed C11-a)
    for call in ("4,,6", "4,,6,8", ",,6", "4,", "1,2,,3", "4,,,6"):
        out.append(mk("z80", Z + "m macro a,b\n db a+0,b+0,ARGCOUNT\n shift\n db a+0,b+0,ARGCOUNT\n db \"<ALLARGS>\"\n"
                      " shift\n db a+0,b+0,ARGCOUNT\n db \"<ALLARGS>\"\n endm\n m " + call + "\n", kind="shift-holes"))
        out.append(mk("z80", Z + "m macro a,b=7\n db a+0,b+0\n shift\n db a+0,b+0\n shift\n db a+0,b+0\n endm\n m "
                      + call + "\n", kind="shift-holes"))
    out.append(mk("z80", Z + ' db 1\n irpc c,""\n db 9\n endm\n db 2\n', kind="fix-regress"))
    out.append(mk("z80", Z + " irp F,1,2\n db F\n exitm\n endm\n db 9\n", kind="fix-regress"))
    out.append(mk("z80", Z + ' irpn 2,F,G,1,2,3\n db F\n if "G"=""\n exitm\n endif\n endm\n db 9\n', kind="fix-regress"))
    out.append(mk("z80", Z + ' binclude "e.bin"\n db 2\n binclude "f.bin",3\n binclude "f.bin",1,0\n', bins={"e.bin": b"", "f.bin": b"abc"},
                  kind="fix-regress"))
    # --- GLOBALSYMBOLS: visible outside after one expansion, double definition after two
    for hdr, ftr in (("gm macro {GLOBALSYMBOLS}\n", " endm\n gm\n"), (" rept {GLOBALSYMBOLS},1\n", " endm\n"),
                     (" irp x,1,{GLOBALSYMBOLS}\n", " endm\n"), (' irpc x,"1",{GLOBALSYMBOLS}\n', " endm\n"),
                     (" irpn 1,x,1,{GLOBALSYMBOLS}\n", " endm\n"),
                     ("w set 0\n while {GLOBALSYMBOLS},w<1\nw set w+1\n", " endm\n")):
        out.append(mk("z80", Z + hdr + "G1: db 7\n" + ftr + " dw G1\n", kind="fix-glob"))
    for hdr, ftr in (("gm macro {GLOBALSYMBOLS}\n", " endm\n gm\n gm\n"), (" rept {GLOBALSYMBOLS},2\n", " endm\n"),
                     (" irp x,1,2,{GLOBALSYMBOLS}\n", " endm\n"), (' irpc x,"12",{GLOBALSYMBOLS}\n', " endm\n"),
                     (" irpn 1,x,1,2,{GLOBALSYMBOLS}\n", " endm\n"),
                     ("w set 0\n while {GLOBALSYMBOLS},w<2\nw set w+1\n", " endm\n")):
        out.append(mk("z80", Z + hdr + "G1: db 7\n" + ftr, kind="fix-glob"))
        # without the control parameter the same program is fine
        out.append(mk("z80", Z + hdr.replace("{GLOBALSYMBOLS},", "").replace(",{GLOBALSYMBOLS}", "").replace(" {GLOBALSYMBOLS}", "")
                      + "G1: db 7\n dw G1\n" + ftr, kind="fix-glob"))
    return out


KNOWN = {}
