"""C20  Diagnostics point at the offending source position.

Generated domain: a program tree (main file, optional second source, include files up to depth 3,
macro definitions and calls, REPT / IRP / IRPN / IRPC / WHILE blocks, EXITM, EXPECT blocks,
conditionally skipped blocks, construct headers with a wrong operand count, continuation lines,
long lines, CRLF files, files without final newline) whose statements are error-free except for
planted, self-contained faulty statements of a known message class.
Oracle: a small reference interpreter of that tree (written here, independent of asl) walks the
program in assembly order and computes for every fault that is assembled the position the
diagnostic has to name: file, physical line, construct chain with body lines / iteration
arguments, include chain.  The parsed error channel has to be exactly that multiset.
"""
import os, re
from collections import Counter
from vf import engine, run
from vf.gen import composite

ID = "C20"
RULE = ("case = program tree over main file (+ optional second source) + include files (depth <= 3, sub directory "
        "reached by path or -i, re-inclusion, .INC default extension) with macro definitions/calls (parameters that "
        "select a good or faulty mnemonic / operand), REPT (iteration-selected faults), IRP, IRPN, IRPC, WHILE, "
        "nested to depth 3, EXITM (plain and iteration-selected), EXPECT/ENDEXPECT blocks with matching / missing / "
        "surplus numbers, IF-skipped blocks (also holding constructs and a missing include), construct headers with a "
        "wrong operand count, comment lines that swallow the next line by a trailing backslash, statements / "
        "headers / ENDM / calls / INCLUDE split by 1-3 backslash continuations, long lines, CRLF and missing final "
        "newline; faults: unknown mnemonic #1200, operand count #1110, range overflow #1320, numbered warnings #30 "
        "#50, ENDEXPECT without EXPECT #2160, user ERROR / WARNING, and (in otherwise clean programs) undefined symbol #1010; 5 targets; options "
        "-x 0..2, -n, -gnuerrors, -E default|!1|!2|file|bare, -q, -L, -w, -Werror, sources given with a directory.  non-trivial = some reported or suppressed "
        "fault lies inside >= 1 construct or include file, or an EXPECT announces a number that does not occur; "
        "distinct by (set of (nesting shape, fault class) of the diagnostics, format, -x, -n)")
ASSUMPTIONS = [
    "position syntax is the one asl prints (file(line) NAME(n) / REPT k(n) / WHILE k/n / IRP:arg(n) / IRPN:a,b(n) / "
    "IRPC:'c'(n); GNU: file:line with an 'In file included from' chain); the manual fixes no syntax, the oracle "
    "judges the facts in it: file, line, construct kind, iteration or iteration argument, body line",
    "the file line shown for a fault inside an expansion is the last line read from that file (macro call line, "
    "closing ENDM of a repetition); body lines count logical lines from 1",
    "continuation lines inside macro/repetition bodies are only generated at the end of a body that lies directly "
    "in a file (whether a body line number counts physical or logical lines is not documented)",
    "within one EXPECT block a message number is announced at most once and occurs at most once, or is announced "
    "exactly as often as it occurs (multiplicity of EXPECT arguments is not documented); EXPECT blocks never nest "
    "dynamically and EXITM never leaves an open EXPECT block",
    "undefined-symbol faults only in programs without any other fault, without EXPECT and without warnings "
    "(reported from pass 2 on; EXPECT 1010 fires its 'did not occur' in pass 1)",
    "user ERROR/WARNING statements carry no message number; with -n only the numbered classes are compared by number; "
    "no WARNING statements in programs assembled with -w (whether -w silences them is not documented)",
    "IRPC strings are quoted (an unquoted digit string is an integer expression); IRPN argument lists are whole "
    "batches",
    "files of the sub directory contain neither INCLUDE nor macro calls (the search directory of an INCLUDE inside a "
    "macro body called from another directory is not part of this property)",
    "lines stay below 256 characters (documented limit)",
    "message texts of the numbers used are taken from doc/error-messages.md",
]

DOC = os.path.join(os.environ.get("VERIF_DOC", "/repo/doc"), "error-messages.md")

# ---------------------------------------------------------------- statement tables

CPUS = {
    "6502": dict(good=["nop", "inx", "clc", "lda #1", "sta $10", "lda #255"], unk=["xyzzy", "frob 1"],
                 argc=["nop 1,2,3", "inx 1"], range=["lda #300", "lda #256"], undef="lda %s",
                 ops=["nop", "inx", "clc"], argt="lda #%s", chrt="lda #250+%s"),
    "z80": dict(good=["nop", "ld a,1", "inc b", "ld a,255"], unk=["xyzzy", "frob 1"],
                argc=["nop 1,2", "ld a"], range=["ld a,300", "ld a,256"], undef="ld a,(%s)",
                ops=["nop", "halt", "exx"], argt="ld a,%s", chrt="ld a,250+%s"),
    "68000": dict(good=["nop", "moveq #1,d0", "rts", "moveq #127,d0"], unk=["xyzzy", "frob 1"],
                  argc=["nop 1", "moveq #1"], range=["moveq #300,d0", "moveq #128,d0"], undef="move.l %s,d0",
                  ops=["nop", "rts", "trapv"], argt="moveq #%s,d0", chrt="moveq #122+%s,d0"),
    "8051": dict(good=["nop", "mov a,#1", "inc a", "mov a,#255"], unk=["xyzzy", "frob 1"],
                 argc=["nop 1", "mov a"], range=["mov a,#300", "mov a,#256"], undef="mov a,%s",
                 ops=["nop", "ret", "reti"], argt="mov a,#%s", chrt="mov a,#250+%s"),
    "8080": dict(good=["nop", "mvi a,1", "inr b", "mvi a,255"], unk=["xyzzy", "frob 1"],
                 argc=["nop 1", "mvi a"], range=["mvi a,300", "mvi a,256"], undef="lda %s",
                 ops=["nop", "hlt", "ret"], argt="mvi a,%s", chrt="mvi a,250+%s"),
}
WARN = {"68000": [("shared nosuch", 30), ("reset", 50), ("stop #1", 50)]}
WARN_DEFAULT = [("shared nosuch", 30)]
BAD_OPS = ["xyzzy", "frob"]
ARG_OK = ["1", "17", "127"]
ARG_BAD = ["300", "999"]
CHR_OK = "012345"
CHR_BAD = "6789"
NUM = {"unk": 1200, "argc": 1110, "range": 1320, "undef": 1010, "noexp": 2160}
SURPLUS = [1010, 1350, 1445, 10, 1820, 1815]
NUMBERED = (1200, 1110, 1320, 30, 50)
BADHDR = {"rept": "rept", "rept2": "rept 1,2", "irp": "irp PX", "irpc": "irpc PX", "while": "while"}


def warn_of(cpu, v):
    w = WARN.get(cpu, WARN_DEFAULT)
    return w[v % len(w)]


def num_of(it, cpu):
    """message number of a statement item (None: unnumbered or not a fault)"""
    if it["c"] == "warn":
        return warn_of(cpu, it["v"])[1]
    return NUM.get(it["c"])


def _manual_messages():
    want = set(NUM.values()) | set(SURPLUS) | {2130} | set(NUMBERED)
    out = {}
    try:
        with open(DOC, encoding="utf-8") as f:
            for ln in f:
                c = [x.strip() for x in ln.split("|")]
                if len(c) > 4 and c[1].isdigit() and int(c[1]) in want:
                    out[int(c[1])] = c[3]
    except OSError:
        pass
    return out


MSG = _manual_messages()


def budget(tier):
    return dict(examples=10000 if tier == "quick" else 90000, shards=16)


# ---------------------------------------------------------------- generator

def walk(items):
    for it in items:
        yield it
        if "body" in it:
            yield from walk(it["body"])


def bound_items(items, g):
    """static upper bound of the number of occurrences of each message number when `items` run once"""
    c = Counter()

    def times(body, n):
        for num, v in bound_items(body, g).items():
            c[num] += v * n
    for it in items:
        k = it["k"]
        if k in ("ln", "itf"):
            n = num_of(it, g.cpu)
            if n is not None:
                c[n] += 1
        elif k == "pl":
            c[1200 if it["t"] == "op" else 1320] += 1
        elif k == "badhdr":
            c[1110] += 1
        elif k == "inc":
            c.update(g.files[it["f"]]["bound"])
        elif k == "call":
            c.update(g.macro(it["name"])["bound"])
        elif k in ("rept", "while"):
            times(it["body"], max(it["n"], 0))
        elif k == "irp":
            times(it["body"], len(it["args"]))
        elif k == "irpn":
            times(it["body"], len(it["args"]) // it["n"])
        elif k == "irpc":
            times(it["body"], len(it["s"]))
        elif k == "expect":
            times(it["body"], 1)
    return c


def has_expect(items, g):
    for it in items:
        k = it["k"]
        if k == "expect" or (k == "ln" and it["c"] == "noexp"):
            return True
        if k == "inc" and g.files[it["f"]]["has_expect"]:
            return True
        if k == "call" and g.macro(it["name"])["has_expect"]:
            return True
        if "body" in it and k not in ("mdef", "skip", "badhdr") and has_expect(it["body"], g):
            return True
    return False


class Gen:
    def __init__(self, d, cpu, mode, tier):
        self.d, self.cpu, self.mode, self.tier = d, cpu, mode, tier
        self.files = {}      # name -> dict(items, dir, eol, nl, reinc, has_expect, bound, height)
        self.macros = []     # dict(name, params, has_expect, bound)
        self.uid = 0
        self.pfault = d.choice([15, 25, 40])
        self.W = ""
        self.maxfiles, self.maxmac, self.maxmain = (7, 7, 14) if tier == "thorough" else (5, 5, 9)

    def macro(self, name):
        return next(m for m in self.macros if m["name"] == name)

    def nid(self):
        self.uid += 1
        return self.uid

    def cuts(self, cx, p=0.15):
        """continuation cut points for a header / ENDM / call / INCLUDE line of a source that allows them"""
        if cx["cont_ok"] and self.d.bool(p):
            return [self.d.int(0, 99) for _ in range(self.d.weighted([(4, 1), (2, 2), (1, 3)]))]
        return []

    # ---- simple statements
    def stmt(self, cx, force_fault=False, allow_cont=True):
        d = self.d
        if force_fault or d.int(0, 99) >= 100 - self.pfault:
            if self.mode == "undef":
                it = dict(k="ln", c="undef", s=self.nid())
            else:
                it = dict(k="ln", c=d.weighted([(3, "unk"), (3, "argc"), (3, "range"), (2, "warn"), (1, "uerr"),
                                                (1, "uwarn")]), v=d.int(0, 2))
                if not cx["in_expect"] and d.weighted([(11, False), (1, True)]):
                    it["c"] = "noexp"      # ENDEXPECT without EXPECT
                if it["c"] == "uwarn" and self.W == "w":
                    it["c"] = "uerr"       # whether -w also silences the WARNING statement is not documented
        else:
            c = d.weighted([(8, "good"), (1, "comment"), (1, "blank"), (1, "longc")])
            it = dict(k="ln", c=c, v=d.int(0, 5))
            if c == "longc":
                it["len"] = d.choice([126, 127, 128, 129, 200, 240, 250])
            if c == "good" and cx["once"] and cx["src"] == "file" and d.bool(0.15):
                it["lab"] = self.nid()
        if it["c"] in ("good", "unk", "argc", "range", "warn", "undef", "noexp"):
            if d.bool(0.1):
                it["pad"] = d.choice([3, 40, 126, 127, 128, 200, 249])     # total length reached by a trailing comment
            if d.bool(0.1):
                it["uc"] = True
        if allow_cont and cx["cont_ok"] and it["c"] not in ("blank", "longc") and d.bool(0.18):
            it["cont"] = [d.int(0, 99) for _ in range(d.weighted([(4, 1), (2, 2), (1, 3)]))]
        return it

    def value(self, kind, bad):
        d = self.d
        if kind == "op":
            return d.choice(BAD_OPS) if bad else d.choice(CPUS[self.cpu]["ops"])
        if kind == "arg":
            return d.choice(ARG_BAD) if bad else d.choice(ARG_OK)
        return d.choice(CHR_BAD) if bad else d.choice(CHR_OK)

    def pbad(self):
        if self.mode == "undef":
            return False
        return self.d.int(0, 99) >= 60

    # ---- item lists
    def items(self, n, cx):
        """cx: src ('file'|'body'), once (runs exactly once), depth (dynamic construct nesting), bd (static body
        depth inside the file), incdepth, leaf (no include / call), in_expect, params [(name, kind)], rep ((counter
        id, iterations) of the counting repetition whose body this is), cont_ok, exitm (EXITM allowed)"""
        out = [self.item(dict(cx)) for _ in range(n)]
        if cx["src"] == "body" and cx["bd"] == 1 and self.d.bool(0.3):
            # continuation lines in bodies only behind everything that can report
            for _ in range(self.d.int(1, 2)):
                it = self.stmt(dict(cx, cont_ok=False), allow_cont=False)
                if it["c"] in ("good", "comment"):
                    it["cont"] = [self.d.int(0, 99) for _ in range(self.d.int(1, 2))]
                    it.pop("lab", None)
                    out.append(it)
        return out

    def item(self, cx):
        d = self.d
        deep = cx["depth"] < 3
        std = self.mode == "std"
        w = [(10, "stmt")]
        if cx["params"]:
            w.append((6, "pl"))
        if cx["rep"] is not None:
            w.append((4, "itf"))
        w += [(1, "swallow"), (1, "skip")]
        if deep:
            w += [(2, "rept"), (2, "irp"), (1, "irpn"), (1, "irpc"), (1, "while")]
        if self.macros and deep and not cx["leaf"]:
            w.append((8, "call"))
        if cx["src"] == "file" and cx["once"] and cx["depth"] == 0 and not cx["in_expect"] and not cx["leaf"] \
                and len(self.macros) < self.maxmac:
            w.append((5, "mdef"))
        if cx.get("pending") is not None and cx["bd"] == 1 and not cx["in_expect"] and not cx["pending"]:
            w.append((2, "mdef"))          # a macro defined by the macro whose body this is
        if cx["incdepth"] < 3 and not cx["leaf"] and (len(self.files) < self.maxfiles or any(f["reinc"] for f in self.files.values())):
            w.append((3, "inc"))
        if not cx["in_expect"] and std:
            w.append((3, "expect"))
        if std:
            w.append((1, "badhdr"))
        if cx["src"] == "body" and cx["exitm"] and not cx["in_expect"]:
            w.append((1, "exitm"))
        kind = d.weighted(w)
        return getattr(self, "g_" + kind)(cx)

    def g_stmt(self, cx):
        return self.stmt(cx)

    def g_pl(self, cx):
        name, kind = self.d.choice(cx["params"])
        return dict(k="pl", t=kind, p=name)

    def g_itf(self, cx):
        cid, n = cx["rep"]
        if self.mode == "undef":
            return dict(k="itf", c="undef", s=self.nid(), cid=cid, it=self.d.int(1, max(n, 1) + 1))
        return dict(k="itf", c=self.d.choice(["unk", "argc", "range", "warn"]), v=self.d.int(0, 2), cid=cid,
                    it=self.d.int(1, max(n, 1) + 1))

    def g_exitm(self, cx):
        d = self.d
        if cx["rep"] is not None and d.bool(0.6):
            cid, n = cx["rep"]
            return dict(k="exitm", cid=cid, it=d.int(1, max(n, 1) + 1))
        return dict(k="exitm", wrap=d.bool(0.4))

    def g_swallow(self, cx):
        if not cx["cont_ok"]:
            return self.stmt(cx)
        return dict(k="swallow", c=self.d.choice(["unk", "argc", "range"]), v=self.d.int(0, 1))

    def skipbody(self):
        d = self.d
        body = []
        for _ in range(d.int(1, 3)):
            w = d.weighted([(6, "ln"), (1, "rept"), (1, "macro"), (1, "irp"), (1, "noinc")])
            if w == "ln":
                body.append(dict(k="ln", c=d.choice(["unk", "argc", "range", "good"]), v=d.int(0, 1)))
            else:
                body.append(dict(k="blk", w=w, c=d.choice(["unk", "argc", "range"]), v=d.int(0, 1)))
        return body

    def g_skip(self, cx):
        return dict(k="skip", how=self.d.int(0, 2), body=self.skipbody())

    def g_badhdr(self, cx):
        d = self.d
        return dict(k="badhdr", w=d.choice(sorted(BADHDR)), body=self.skipbody(), hc=self.cuts(cx), ec=self.cuts(cx))

    def body_cx(self, cx, params=None, rep=None, fresh=False):
        c = dict(cx, src="body", once=False, depth=cx["depth"] + 1, bd=cx["bd"] + 1, rep=rep, cont_ok=False,
                 exitm=True)
        if not fresh:
            c["pending"] = None
        if fresh:
            c["params"] = list(params or [])
        else:
            c["params"] = list(cx["params"]) + list(params or [])
        return c

    def nbody(self):
        return self.d.weighted([(2, 1), (3, 2), (3, 3), (1, 4), (1, 5)])

    def g_rept(self, cx):
        d = self.d
        n = d.weighted([(1, 0), (3, 1), (4, 2), (3, 3)])
        cid = self.nid()
        ctr = d.bool(0.6)
        nb = 0 if (not ctr and d.weighted([(9, False), (1, True)])) else self.nbody()
        body = self.items(nb, self.body_cx(cx, rep=(cid, n) if ctr else None))
        return dict(k="rept", n=n, id=cid, ctr=ctr, body=body, endr=d.bool(0.2), hc=self.cuts(cx), ec=self.cuts(cx))

    def g_while(self, cx):
        d = self.d
        n = d.weighted([(1, 0), (3, 1), (4, 2), (2, 3)])
        cid = self.nid()
        body = self.items(self.nbody() - 1, self.body_cx(cx, rep=(cid, n)))
        return dict(k="while", n=n, id=cid, body=body, hc=self.cuts(cx), ec=self.cuts(cx))

    def g_irp(self, cx):
        d = self.d
        kind = d.choice(["op", "arg"])
        p = "PI%d" % self.nid()
        args = [self.value(kind, self.pbad()) for _ in range(d.int(1, 3))]
        body = self.items(self.nbody(), self.body_cx(cx, params=[(p, kind)]))
        if not any(b["k"] == "pl" and b["p"] == p for b in body):
            body.insert(d.int(0, len(body)), dict(k="pl", t=kind, p=p))
        return dict(k="irp", p=p, t=kind, args=args, body=body, hc=self.cuts(cx), ec=self.cuts(cx))

    def g_irpn(self, cx):
        d = self.d
        cnt = d.int(1, 2) if d.bool(0.8) else 3
        kinds = [d.choice(["op", "arg"]) for _ in range(cnt)]
        ps = ["PN%d" % self.nid() for _ in range(cnt)]
        iters = d.int(1, 3)
        args = [self.value(kinds[j], self.pbad() and d.bool(0.6)) for _ in range(iters) for j in range(cnt)]
        body = self.items(self.nbody(), self.body_cx(cx, params=list(zip(ps, kinds))))
        if not any(b["k"] == "pl" for b in body):
            body.insert(d.int(0, len(body)), dict(k="pl", t=kinds[0], p=ps[0]))
        return dict(k="irpn", n=cnt, ps=ps, ts=kinds, args=args, body=body, hc=self.cuts(cx), ec=self.cuts(cx))

    def g_irpc(self, cx):
        d = self.d
        p = "PC%d" % self.nid()
        s = "".join(self.value("chr", self.pbad()) for _ in range(d.int(1, 3)))
        body = self.items(self.nbody(), self.body_cx(cx, params=[(p, "chr")]))
        if not any(b["k"] == "pl" and b["p"] == p for b in body):
            body.insert(d.int(0, len(body)), dict(k="pl", t="chr", p=p))
        return dict(k="irpc", p=p, s=s, body=body, hc=self.cuts(cx), ec=self.cuts(cx))

    def g_mdef(self, cx):
        d = self.d
        name = "Mac%d" % self.nid()
        params = [("PM%d" % self.nid(), d.choice(["op", "arg"])) for _ in range(d.weighted([(2, 0), (3, 1), (2, 2)]))]
        inner = cx.get("pending") is not None
        pending = None if inner else []
        nb = 0 if d.weighted([(12, False), (1, True)]) else self.nbody()
        bcx = self.body_cx(dict(cx, in_expect=False, pending=pending), params=params, fresh=True)
        body = self.items(nb, bcx)
        if pending:
            # a macro defined behind an EXITM of the defining body never comes into existence
            names = set()
            for b in body:
                if b["k"] == "exitm":
                    break
                if b["k"] == "mdef":
                    names.add(b["name"])
            pending[:] = [q for q in pending if q["name"] in names]
        m = dict(name=name, params=params, has_expect=has_expect(body, self), bound=bound_items(body, self),
                 pending=pending or [], single=bool(pending), used=False)
        if inner:
            cx["pending"].append(m)        # exists once the defining macro has been expanded
        else:
            self.macros.append(m)
        return dict(k="mdef", name=name, params=[list(p) for p in params], body=body, hc=self.cuts(cx),
                    ec=self.cuts(cx))

    def g_call(self, cx):
        d = self.d
        cand = [m for m in self.macros if not (cx["in_expect"] and m["has_expect"])
                and not (m["single"] and (m["used"] or not cx["once"] or cx["in_expect"]))]
        if not cand:
            return self.stmt(cx)
        m = d.choice(cand)
        if m["single"]:                    # a macro that defines macros is expanded exactly once
            m["used"] = True
            self.macros.extend(m["pending"])
        args = []
        for _, kind in m["params"]:
            same = [p for p, k in cx["params"] if k == kind]
            if same and d.weighted([(2, False), (1, True)]):
                args.append("@" + d.choice(same))         # hands the caller's own parameter on
            else:
                args.append(self.value(kind, self.pbad()))
        return dict(k="call", name=m["name"], args=args, uc=d.bool(0.3), hc=self.cuts(cx))

    def g_inc(self, cx):
        d = self.d
        reuse = [n for n, f in self.files.items()
                 if f["reinc"] and cx["incdepth"] + 1 + f["height"] <= 3 and not (cx["in_expect"] and f["has_expect"])]
        form = d.weighted([(4, 0), (1, 1), (1, 2), (1, 3)])
        if reuse and (len(self.files) >= self.maxfiles or d.bool(0.3)):
            return dict(k="inc", f=d.choice(sorted(reuse)), form=form, hc=self.cuts(cx))
        if len(self.files) >= self.maxfiles:
            return self.stmt(cx)
        name = "i%d.inc" % self.nid()
        sub = "sub" if d.bool(0.25) else ""      # files in the sub directory are leaves (no include, no call)
        self.file(name, sub, dict(cx, incdepth=cx["incdepth"] + 1, leaf=cx["leaf"] or bool(sub)))
        return dict(k="inc", f=name, form=form, hc=self.cuts(cx))

    def file(self, name, sub, cx):
        d = self.d
        c = dict(cx, src="file", params=[], rep=None, cont_ok=True, bd=0, exitm=False, pending=None)
        n = d.int(2, self.maxmain) if name == "t.asm" else d.int(1, 5)
        items = self.items(n, c)
        height = 0
        for it in walk(items):
            if it["k"] == "inc":
                height = max(height, 1 + self.files[it["f"]]["height"])
        self.files[name] = dict(items=items, dir=sub, eol=d.weighted([(4, "lf"), (1, "crlf")]),
                                nl=not d.bool(0.15), reinc=not cx["once"], has_expect=has_expect(items, self),
                                bound=bound_items(items, self), height=height)

    def g_expect(self, cx):
        d = self.d
        hc, ec = self.cuts(cx), self.cuts(cx)
        if d.bool(0.2):
            # multiplicity form: one repetition of static statements, announced exactly as often as they occur
            n = d.int(2, 3)
            body = [self.stmt(dict(cx, cont_ok=False, once=False, in_expect=True), force_fault=(i == 0))
                    for i in range(d.int(1, 2))]
            body = [b for b in body if b["c"] not in ("uerr", "uwarn")] or [dict(k="ln", c="unk", v=0)]
            occ = Counter(num_of(b, self.cpu) for b in body if num_of(b, self.cpu) is not None)
            nums = []
            for num, o in sorted(occ.items()):
                if d.bool(0.75):
                    nums += [num] * (o * n)
            for s in d.subset(SURPLUS, 0.15):
                nums.append(s)
            if not nums:
                nums = [d.choice(SURPLUS)]
            rep = dict(k="rept", n=n, id=self.nid(), ctr=False, body=body, endr=False, hc=[], ec=[])
            return dict(k="expect", nums=d.shuffle(nums), body=[rep], hc=hc, ec=ec)
        budget_ = Counter({n: 1 for n in NUMBERED})
        c = dict(cx, in_expect=True)
        save = self.pfault
        body = []
        for i in range(d.int(1, 4)):
            self.pfault = 60 if i == 0 else save
            it = self.item(c)
            b = bound_items([it], self)
            if any(b[n] > budget_[n] for n in b):
                it = dict(k="ln", c="good", v=i)
            else:
                budget_.subtract(b)
            body.append(it)
        self.pfault = save
        pool = [1200, 1110, 1320, 30] + ([50] if self.cpu == "68000" else [])
        nums = d.subset(pool, 0.4) + d.subset(SURPLUS, 0.12)
        if not nums:
            nums = [d.choice(pool + SURPLUS)]
        return dict(k="expect", nums=d.shuffle(nums), body=body, hc=hc, ec=ec)


@composite
def strategy_(d, tier):
    cpu = d.weighted([(4, "6502"), (2, "z80"), (2, "68000"), (1, "8051"), (1, "8080")])
    mode = d.weighted([(6, "std"), (1, "undef")])
    g = Gen(d, cpu, mode, tier)
    g.W = d.weighted([(8, ""), (1, "werror"), (1, "w")])
    cx = dict(src="file", once=True, depth=0, bd=0, incdepth=0, leaf=False, in_expect=False, params=[], rep=None,
              cont_ok=True, exitm=False, pending=None)
    g.file("t.asm", "", cx)
    # (the draw distribution favours the first alternatives; weights are set from the measured class histogram)
    if d.weighted([(8, False), (1, True)]):
        g.file("u.asm", "", dict(cx, leaf=True))
    o = dict(x=d.weighted([(1, 0), (1, 1), (1, 2)]), n=d.weighted([(3, True), (1, False)]),
             gnu=d.weighted([(1, False), (1, True)]),
             E=d.weighted([(2, "default"), (1, "!1"), (1, "!2"), (2, "file"), (1, "bare")]),
             q=d.weighted([(2, True), (1, False)]), L=d.weighted([(6, False), (1, True)]),
             ipath=d.weighted([(2, False), (1, True)]), ind=d.weighted([(5, "\t"), (1, " "), (1, "    ")]),
             W=g.W, root=d.weighted([(5, ""), (1, "m")]))
    files = {n: dict(items=f["items"], dir=f["dir"], eol=f["eol"], nl=f["nl"]) for n, f in g.files.items()}
    return dict(cpu=cpu, mode=mode, files=files, opts=o)


def strategy(tier):
    return strategy_(tier)


# ---------------------------------------------------------------- layout: tree -> physical files + numbered nodes

class Src:
    """a line source: a file (counts physical lines) or a construct body (counts logical lines)"""

    def __init__(self, parent=None):
        self.parent, self.n, self.phys = parent, 0, []

    def add(self, phys):
        if self.parent is None:
            self.n += len(phys)
            self.phys.extend(phys)
        else:
            self.n += 1
            self.parent.add(phys)
        return self.n


def split_cont(text, cuts):
    if not cuts or len(text) < 2:
        return [text]
    pos = sorted({1 + (c * (len(text) - 1)) // 100 for c in cuts})
    pos = [p for p in pos if 0 < p < len(text)]
    out, last = [], 0
    for p in pos:
        out.append(text[last:p] + "\\")
        last = p
    out.append(text[last:])
    return out


def stmt_text(it, t, cpu, ind="\t"):
    c = it["c"]
    if c == "good":
        s = t["good"][it["v"] % len(t["good"])]
    elif c in ("unk", "argc", "range"):
        s = t[c][it["v"] % len(t[c])]
    elif c == "warn":
        s = warn_of(cpu, it["v"])[0]
    elif c == "undef":
        s = t["undef"] % ("undef%d" % it["s"])
    elif c == "noexp":
        s = "endexpect"
    elif c == "uerr":
        s = 'error "e"'
    elif c == "uwarn":
        s = 'warning "w"'
    elif c == "comment":
        return "; note %d" % it["v"]
    elif c == "longc":
        return ";" + "c" * it["len"]
    elif c == "blank":
        return ""
    else:
        raise ValueError(c)
    if it.get("uc"):
        s = s.upper()
    pre = ("lbl%d:" % it["lab"]) if it.get("lab") else ""
    s = pre + ind + s
    if it.get("pad"):
        s += " ;" + "p" * max(0, it["pad"] - len(s) - 2)
    return s


class Layout:
    def __init__(self, case):
        self.case = case
        self.cpu = case["cpu"]
        self.t = CPUS[self.cpu]
        self.ind = case["opts"].get("ind", "\t")
        self.ipath = case["opts"].get("ipath", False)
        self.nodes = {}
        self.text = {}
        for name, f in case["files"].items():
            src = Src()
            if name in ("t.asm", "u.asm"):
                src.add([self.ind + "cpu " + self.cpu])
            self.nodes[name] = self.lay(f["items"], src)
            eol = "\r\n" if f["eol"] == "crlf" else "\n"
            self.text[name] = eol.join(src.phys) + (eol if f["nl"] else "")

    def incname(self, it):
        name = it["f"]
        d = self.case["files"][name]["dir"]
        form = it.get("form", 0)
        base = name[:-4] if form in (1, 2) else name          # default extension .INC
        p = base if (not d or self.ipath) else d + "/" + base
        return '"%s"' % p if form in (0, 1) else p

    def stmt(self, it):
        return stmt_text(it, self.t, self.cpu, self.ind)

    def skiplines(self, src, body):
        I = self.ind
        for b in body:
            if b["k"] == "ln":
                src.add([self.stmt(b)])
            else:
                f = self.stmt(dict(b, k="ln"))
                w = b["w"]
                if w == "rept":
                    lines = [I + "rept 2", f, I + "endm"]
                elif w == "macro":
                    lines = ["Skm" + I + "macro", f, I + "endm"]
                elif w == "irp":
                    lines = [I + "irp PS,1,2", f, I + "endm"]
                else:
                    lines = [I + 'include "nofile.inc"']
                for ln in lines:
                    src.add([ln])

    def lay(self, items, src):
        out = []
        t, I = self.t, self.ind

        def add(text, cuts=None):
            return src.add(split_cont(text, cuts))
        for it in items:
            k = it["k"]
            if k == "ln":
                text = self.stmt(it)
                ln = add(text, it.get("cont"))
                c = it["c"]
                out.append(dict(k="ln", cls=c, num=num_of(it, self.cpu), ln=ln, text=text,
                                fault=c in NUM or c in ("uerr", "uwarn", "warn")))
            elif k == "pl":
                tmpl = {"op": "%s", "arg": t["argt"], "chr": t["chrt"]}[it["t"]]
                out.append(dict(k="pl", t=it["t"], p=it["p"], ln=add(I + tmpl % it["p"]), tmpl=I + tmpl))
            elif k == "itf":
                add(I + "if cr%d=%d" % (it["cid"], it["it"]))
                text = self.stmt(dict(it, k="ln"))
                ln = add(text)
                add(I + "endif")
                out.append(dict(k="itf", cid=it["cid"], it=it["it"], cls=it["c"], num=num_of(it, self.cpu), ln=ln,
                                text=text))
            elif k == "exitm":
                if "cid" in it:
                    add(I + "if cr%d=%d" % (it["cid"], it["it"]))
                    add(I + "exitm")
                    add(I + "endif")
                elif it.get("wrap"):
                    add(I + "if 1")
                    add(I + "exitm")
                    add(I + "endif")
                else:
                    add(I + "exitm")
                out.append(dict(k="exitm", cid=it.get("cid"), it=it.get("it")))
            elif k == "swallow":
                src.add(["; swallowed \\", self.stmt(dict(it, k="ln"))])
            elif k == "skip":
                how = it["how"]
                if how == 0:
                    add(I + "if 0")
                elif how == 1:
                    add(I + "ifdef nosuchsymbol")
                else:
                    add(I + "if 1")
                    add(I + "nop")
                    add(I + "else")
                self.skiplines(src, it["body"])
                add(I + "endif")
            elif k == "badhdr":
                text = I + BADHDR[it["w"]]
                ln = add(text, it.get("hc"))
                self.skiplines(Src(src), it["body"])
                add(I + "endm", it.get("ec"))
                out.append(dict(k="ln", cls="argc", num=1110, ln=ln, text=text, fault=True))
            elif k == "inc":
                ln = add(I + "include " + self.incname(it), it.get("hc"))
                out.append(dict(k="inc", f=it["f"], ln=ln))
            elif k == "mdef":
                add("%s%smacro %s" % (it["name"], I, ",".join(p for p, _ in it["params"])), it.get("hc"))
                body = self.lay(it["body"], Src(src))
                add(I + "endm", it.get("ec"))
                out.append(dict(k="mdef", name=it["name"], params=[p for p, _ in it["params"]], body=body))
            elif k == "call":
                nm = it["name"].upper() if it.get("uc") else it["name"].lower()
                ln = add((I + "%s %s" % (nm, ",".join(a.lstrip("@") for a in it["args"]))).rstrip(), it.get("hc"))
                out.append(dict(k="call", name=it["name"], args=it["args"], ln=ln))
            elif k in ("rept", "while"):
                sym = "cr%d" % it["id"]
                counting = k == "while" or it["ctr"]
                if counting:
                    add("%s%seval 0" % (sym, I))
                add(I + ("rept %d" % it["n"] if k == "rept" else "while %s<%d" % (sym, it["n"])), it.get("hc"))
                bs = Src(src)
                if counting:
                    bs.add(["%s%seval %s+1" % (sym, I, sym)])
                body = self.lay(it["body"], bs)
                end = add(I + ("endr" if it.get("endr") else "endm"), it.get("ec"))
                out.append(dict(k=k, n=it["n"], cid=it["id"], body=body, end=end))
            elif k == "irp":
                add(I + "irp %s,%s" % (it["p"], ",".join(it["args"])), it.get("hc"))
                body = self.lay(it["body"], Src(src))
                end = add(I + "endm", it.get("ec"))
                out.append(dict(k="irp", ps=[it["p"]], n=1, args=it["args"], body=body, end=end))
            elif k == "irpn":
                add(I + "irpn %d,%s,%s" % (it["n"], ",".join(it["ps"]), ",".join(it["args"])), it.get("hc"))
                body = self.lay(it["body"], Src(src))
                end = add(I + "endm", it.get("ec"))
                out.append(dict(k="irpn", ps=it["ps"], n=it["n"], args=it["args"], body=body, end=end))
            elif k == "irpc":
                add(I + 'irpc %s,"%s"' % (it["p"], it["s"]), it.get("hc"))
                body = self.lay(it["body"], Src(src))
                end = add(I + "endm", it.get("ec"))
                out.append(dict(k="irpc", p=it["p"], s=it["s"], body=body, end=end))
            elif k == "expect":
                ln = add(I + "expect %s" % ",".join(str(n) for n in it["nums"]), it.get("hc"))
                body = self.lay(it["body"], src)
                text = I + "endexpect"
                end = add(text, it.get("ec"))
                out.append(dict(k="expect", nums=it["nums"], body=body, ln=ln, end=end, text=text))
            else:
                raise ValueError(k)
        return out


# ---------------------------------------------------------------- reference interpreter

class ExitM(Exception):
    pass


class Model:
    def __init__(self, lay):
        self.lay = lay
        self.frames = []
        self.macros = {}
        self.expect = None
        self.diags = []        # reported
        self.suppressed = []   # (shape, num)
        self.surplus = 0
        self.exits = 0

    def pos(self):
        ctx, chain, f, line = [], [], None, None
        for fr in reversed(self.frames):
            if fr["kind"] == "file":
                if f is None:
                    f, line = fr["name"], fr["cur"]
                else:
                    chain.append([fr["name"], fr["cur"]])
            elif f is None:
                ctx.append([fr["kind"], fr["label"], fr["cur"]])
        ctx.reverse()
        shape = ">".join(fr["kind"] for fr in self.frames)
        return f, line, ctx, chain, shape

    def emit(self, num, cls, text, extnum=None):
        f, line, ctx, chain, shape = self.pos()
        if num is not None and self.expect is not None and num in self.expect:
            self.expect.remove(num)
            self.suppressed.append((shape, num))
            return
        kind = "warning" if cls in ("uwarn", "warn") else "error"
        msg = {"uerr": "e", "uwarn": "w"}.get(cls) or MSG.get(num, "?")
        self.diags.append(dict(file=f, line=line, ctx=ctx, chain=chain, num=num, kind=kind, msg=msg, cls=cls,
                               text=text, extnum=extnum, shape=shape))

    def lookup(self, p):
        for fr in reversed(self.frames):
            if p in fr.get("bind", {}):
                return fr["bind"][p]
            if fr["kind"] in ("file", "MACRO"):
                break
        raise KeyError(p)

    def run_file(self, name):
        self.frames.append(dict(kind="file", name=name, cur=0))
        self.run(self.lay.nodes[name])
        self.frames.pop()

    def loop(self, node, kind, labels, binds):
        top = self.frames[-1]
        top["cur"] = node["end"]
        depth = len(self.frames)
        try:
            for i, lab in enumerate(labels):
                self.frames.append(dict(kind=kind, label=lab, cur=0, bind=binds[i] if binds else {},
                                        cid=node.get("cid"), iter=i + 1))
                self.run(node["body"])
                self.frames.pop()
        except ExitM:
            del self.frames[depth:]

    def run(self, nodes):
        top = self.frames[-1]
        for nd in nodes:
            k = nd["k"]
            if k == "ln":
                top["cur"] = nd["ln"]
                if nd["fault"]:
                    self.emit(nd["num"], nd["cls"], nd["text"])
            elif k == "pl":
                top["cur"] = nd["ln"]
                v = self.lookup(nd["p"])
                bad = v in BAD_OPS if nd["t"] == "op" else v in ARG_BAD if nd["t"] == "arg" else v in CHR_BAD
                if bad:
                    self.emit(1200 if nd["t"] == "op" else 1320, "unk" if nd["t"] == "op" else "range",
                              nd["tmpl"] % v)
            elif k == "itf":
                top["cur"] = nd["ln"]
                fr = next(fr for fr in reversed(self.frames) if fr.get("cid") == nd["cid"])
                if fr["iter"] == nd["it"]:
                    self.emit(nd["num"], nd["cls"], nd["text"])
            elif k == "exitm":
                if nd["cid"] is None:
                    self.exits += 1
                    raise ExitM()
                fr = next(fr for fr in reversed(self.frames) if fr.get("cid") == nd["cid"])
                if fr["iter"] == nd["it"]:
                    self.exits += 1
                    raise ExitM()
            elif k == "inc":
                top["cur"] = nd["ln"]
                self.run_file(nd["f"])
            elif k == "mdef":
                self.macros[nd["name"].upper()] = nd
            elif k == "call":
                top["cur"] = nd["ln"]
                m = self.macros[nd["name"].upper()]
                depth = len(self.frames)
                args = [self.lookup(a[1:]) if a.startswith("@") else a for a in nd["args"]]
                self.frames.append(dict(kind="MACRO", label=nd["name"].upper(), cur=0,
                                        bind=dict(zip(m["params"], args))))
                try:
                    self.run(m["body"])
                except ExitM:
                    pass
                del self.frames[depth:]
            elif k == "rept":
                self.loop(nd, "REPT", [str(i + 1) for i in range(nd["n"])], None)
            elif k == "while":
                self.loop(nd, "WHILE", [str(i + 1) for i in range(nd["n"])], None)
            elif k in ("irp", "irpn"):
                n = nd["n"]
                groups = [nd["args"][i:i + n] for i in range(0, len(nd["args"]), n)]
                self.loop(nd, k.upper(), [",".join(g) for g in groups], [dict(zip(nd["ps"], g)) for g in groups])
            elif k == "irpc":
                self.loop(nd, "IRPC", list(nd["s"]), [{nd["p"]: ch} for ch in nd["s"]])
            elif k == "expect":
                top["cur"] = nd["ln"]
                self.expect = list(nd["nums"])
                self.run(nd["body"])
                top["cur"] = nd["end"]
                left, self.expect = self.expect, None
                for num in left:
                    self.surplus += 1
                    self.emit(2130, "expected", nd["text"], extnum=num)
            else:
                raise ValueError(k)


# ---------------------------------------------------------------- parsing of the error channel

NAT_HDR = re.compile(r"^> > > (?P<file>[^\s(]+)\((?P<line>\d+)\)(?P<rest>.*?): (?P<kind>error|warning)"
                     r"(?: #(?P<num>\d+))?: (?P<msg>.*)$")
REST = re.compile(r"^(?P<ctx>.*?)(?::(?P<col>\d+))?$")
TOK = re.compile(r"\s*(?:REPT (\d+)\((\d+)\)|WHILE (\d+)/(\d+)|(IRPN?):(.*?)\((\d+)\)|IRPC:'(.)'\((\d+)\)"
                 r"|([A-Za-z_][A-Za-z0-9_]*)\((\d+)\))")
GNU_HDR = re.compile(r"^(?P<file>[^\s:]+):(?P<line>\d+)(?::(?P<col>\d+))?(?: #(?P<enum>\d+))?: "
                     r"(?:(?P<kind>warning)(?: #(?P<wnum>\d+))?: )?(?P<msg>.*)$")
GNU_INC = re.compile(r"^(?:In file included from|\s+from) (?P<file>[^\s:]+):(?P<line>\d+)(?P<t>[,:])$")


def parse_ctx(s):
    out, i = [], 0
    s = s.rstrip()
    while i < len(s):
        m = TOK.match(s, i)
        if not m or m.end() == i:
            return None
        g = m.groups()
        if g[0] is not None:
            out.append(["REPT", g[0], int(g[1])])
        elif g[2] is not None:
            out.append(["WHILE", g[2], int(g[3])])
        elif g[4] is not None:
            out.append([g[4], g[5], int(g[6])])
        elif g[7] is not None:
            out.append(["IRPC", g[7], int(g[8])])
        else:
            out.append(["MACRO", g[9].upper(), int(g[10])])
        i = m.end()
    return out


def parse_native(text):
    """-> (diags, stray) ; diags carry 'extra' = following non-header lines"""
    diags, stray = [], []
    for ln in text.splitlines():
        if not ln.strip():
            continue
        m = NAT_HDR.match(ln)
        if m:
            r = REST.match(m.group("rest"))
            ctx = parse_ctx(r.group("ctx"))
            diags.append(dict(file=m.group("file"), line=int(m.group("line")), ctx=ctx, raw=ln,
                              num=int(m.group("num")) if m.group("num") else None, kind=m.group("kind"),
                              msg=m.group("msg"), extra=[], chain=[]))
        elif ln.startswith("> > > ") and diags:
            diags[-1]["extra"].append(ln[6:])
        else:
            stray.append(ln)
    return diags, stray


def parse_gnu(text):
    diags, stray, chain = [], [], []
    for ln in text.splitlines():
        if not ln.strip():
            continue
        m = GNU_INC.match(ln)
        if m:
            chain.append([m.group("file"), int(m.group("line"))])
            continue
        m = GNU_HDR.match(ln)
        if m:
            num = m.group("enum") or m.group("wnum")
            diags.append(dict(file=m.group("file"), line=int(m.group("line")), ctx=[], raw=ln,
                              num=int(num) if num else None, kind=m.group("kind") or "error", msg=m.group("msg"),
                              extra=[], chain=chain))
            chain = []
        elif diags and not chain:
            diags[-1]["extra"].append(ln)
        else:
            stray.append(ln)
    if chain:
        stray.append("dangling include chain %r" % chain)
    return diags, stray


def norm(s):
    return " ".join(s.upper().split())


# ---------------------------------------------------------------- execute

def sources(case):
    return [n for n in ("t.asm", "u.asm") if n in case["files"]]


def argv_of(case):
    o = case["opts"]
    argv = ["asl"]
    if o["q"] or o["E"] == "!1":
        argv.append("-q")
    argv += ["-x"] * o["x"]
    if o["n"]:
        argv.append("-n")
    if o["gnu"]:
        argv.append("-gnuerrors")
    if o.get("L"):
        argv.append("-L")
    if o.get("W") == "werror":
        argv.append("-Werror")
    elif o.get("W") == "w":
        argv.append("-w")
    root = o.get("root", "")
    pre = root + "/" if root else ""
    if o.get("ipath") and any(f["dir"] for f in case["files"].values()):
        argv += ["-i", pre + "sub"]
    if o["E"] in ("!1", "!2"):
        argv += ["-E", o["E"]]
    elif o["E"] == "file":
        argv += ["-E", "errs.txt"]
    argv += [pre + s for s in sources(case)]
    if o["E"] == "bare":
        argv.append("-E")
    return argv


def key_of(d, o):
    """comparison key of one diagnostic (expected or observed)"""
    num = d["num"] if o["n"] else None
    if o["gnu"]:
        return (d["file"], d["line"], "", tuple((f, l) for f, l in d["chain"]), num, d["kind"])
    ctx = d["ctx"]
    c = "?unparsed" if ctx is None else " ".join("%s:%s(%d)" % (k, str(lab).upper(), bl) for k, lab, bl in ctx)
    return (d["file"], d["line"], c, (), num, d["kind"])


def execute(case):
    o = case["opts"]
    lay = Layout(case)
    mdl = Model(lay)
    for s in sources(case):
        mdl.macros = {}
        mdl.run_file(s)
    exp = mdl.diags
    if o.get("W") == "w":          # "suppress issue of warnings"
        exp = [d for d in exp if d["kind"] != "warning"]
    elif o.get("W") == "werror":   # "treat warnings as errors"
        exp = [dict(d, kind="error") for d in exp]
    fmt = "gnu" if o["gnu"] else "native"
    classes = ["cpu:" + case["cpu"], "mode:" + case["mode"], "fmt:" + fmt, "x%d" % o["x"], "E:" + o["E"]]
    classes += ["opt-" + k for k in ("n", "q", "L", "ipath") if o.get(k)]
    if o.get("W"):
        classes.append("opt-" + o["W"])
    if o.get("root"):
        classes.append("main-in-subdir")
    if o.get("ind", "\t") != "\t":
        classes.append("indent-spaces")
    kinds = {it["k"] for f in case["files"].values() for it in walk(f["items"])}
    classes += ["has:" + k for k in sorted(kinds - {"ln"})]
    allitems = [it for f in case["files"].values() for it in walk(f["items"])]
    if any(it.get("cont") for it in allitems):
        classes.append("has:cont-stmt")
    if any(it.get("hc") or it.get("ec") for it in allitems):
        classes.append("has:cont-header")
    if any(it.get("pad", 0) > 100 for it in allitems):
        classes.append("has:longstmt")
    if any(f["eol"] == "crlf" for f in case["files"].values()):
        classes.append("has:crlf")
    if any(not f["nl"] for f in case["files"].values()):
        classes.append("has:nofinalnl")
    if any(f["dir"] for f in case["files"].values()):
        classes.append("has:subdir")
    if "u.asm" in case["files"]:
        classes.append("has:second-source")
    if any(b["k"] == "mdef" for it in allitems if it["k"] == "mdef" for b in walk(it["body"])):
        classes.append("has:mdef-in-macro")
    if any(a.startswith("@") for it in allitems if it["k"] == "call" for a in it["args"]):
        classes.append("has:arg-handed-on")
    if mdl.exits:
        classes.append("exitm-taken")
    shapes = set()
    for d in exp:
        shapes.add((d["shape"], d["cls"]))
    for sh, num in mdl.suppressed:
        shapes.add((sh, "supp%d" % num))
    nested = sorted(s for s in shapes if s[0] != "file")
    depth = max([s[0].count(">") for s in shapes], default=0)
    classes.append("faultdepth%d" % min(depth, 5))
    classes.append("diags:%s" % ("0" if not exp else "1-3" if len(exp) <= 3 else "4-10" if len(exp) <= 10 else ">10"))
    inside = set()
    for s in shapes:
        inside.update(s[0].split(">")[1:])
        if s[0].count("file") > 1:
            inside.add("include%d" % (s[0].count("file") - 1))
        inside.add("cls:" + s[1][:4])
    classes += ["fault-in:" + p for p in sorted(inside)]
    if mdl.suppressed:
        classes.append("expect-suppressed")
    if mdl.surplus:
        classes.append("expect-surplus")
    key = None
    if nested or mdl.surplus:
        key = "|".join([";".join("%s/%s" % s for s in nested[:12]), "S%d" % min(mdl.surplus, 3), fmt,
                        "x%d" % o["x"], "n%d" % o["n"]])
    argv = argv_of(case)
    pre = o["root"] + "/" if o.get("root") else ""
    with run.Work("c20") as wd:
        files = {}
        for name, f in case["files"].items():
            p = pre + ((f["dir"] + "/" + name) if f["dir"] else name)
            os.makedirs(os.path.dirname(os.path.join(wd, p)), exist_ok=True)
            files[p] = lay.text[name].encode("latin-1")
        run.write_files(wd, files)
        r = run.run(argv, wd, timeout=60, cpu=30)
        if r.timed_out:
            return engine.inconclusive("timeout", classes)
        if o["E"] == "file":
            chan = (run.read(wd, "errs.txt") or b"").decode("latin-1")
        elif o["E"] == "bare":
            chan = "".join((run.read(wd, pre + s[:-4] + ".log") or b"").decode("latin-1") for s in sources(case))
        elif o["E"] == "!1":
            chan = r.out
        else:
            chan = r.err
    detail = dict(argv=argv, status=r.status, signal=r.signal, channel=chan[:3000],
                  files={n: t for n, t in lay.text.items()},
                  expected=[[d["file"], d["line"], d["ctx"], d["chain"], d["num"], d["kind"]] for d in exp][:60])
    if r.signal:
        return engine.bad("asl killed by signal %d" % r.signal, key, classes, **detail)
    if r.status not in (0, 2):
        return engine.bad("asl exit status %s on a program without fatal errors" % r.status, key, classes,
                          stderr=r.err[-400:], **detail)
    got, stray = (parse_gnu if o["gnu"] else parse_native)(chan)
    if stray:
        return engine.bad("line on the error channel that is no diagnostic: %r" % stray[0][:120], key, classes, **detail)
    if o["x"] == 0 and any(d["extra"] for d in got):
        return engine.bad("extra lines after a diagnostic without -x: %r" % next(d["extra"] for d in got if d["extra"]),
                          key, classes, **detail)
    for d in got:
        if d["ctx"] is None:
            return engine.bad("position of a diagnostic cannot be read: %r" % d["raw"][:160], key, classes, **detail)
    ce = Counter(key_of(d, o) for d in exp)
    cg = Counter(key_of(d, o) for d in got)
    if ce != cg:
        missing = sorted((ce - cg).elements(), key=repr)
        surplus = sorted((cg - ce).elements(), key=repr)
        why = "diagnostic positions differ from the planted faults: "
        if missing:
            why += "not reported (or reported elsewhere) %s" % fmtkey(missing[0])
        if surplus:
            why += ("; " if missing else "") + "reported but not planted %s" % fmtkey(surplus[0])
        return engine.bad(why, key, classes, missing=[list(map(str, m)) for m in missing][:20],
                          surplus=[list(map(str, m)) for m in surplus][:20], **detail)
    # message text, extended message of 'expected error did not occur', echoed source line (-x -x)
    bye, byg = {}, {}
    for d in exp:
        bye.setdefault(key_of(d, o), []).append(d)
    for d in got:
        byg.setdefault(key_of(d, o), []).append(d)
    for k, el in bye.items():
        gl = byg[k]
        em = Counter(d["msg"] for d in el)
        gm = Counter(msg_of(d, o) for d in gl)
        if em != gm:
            return engine.bad("message text at %s: got %s, fault planted there gives %s" %
                              (fmtkey(k), sorted(gm), sorted(em)), key, classes, **detail)
        if o["x"] >= 1:
            want = Counter(MSG.get(d["extnum"], "?") for d in el if d["extnum"] is not None)
            if want:
                have = Counter()
                for d in gl:
                    for w in want:
                        if ext_has(d, w, o):
                            have[w] += 1
                            break
                if have != want:
                    return engine.bad("ENDEXPECT at %s must report %s as not occurred, extended messages say %s" %
                                      (fmtkey(k), sorted(want.elements()), [d["extra"] or d["msg"] for d in gl]),
                                      key, classes, **detail)
        if o["x"] >= 2:
            want = Counter(norm(d["text"]) for d in el)
            have = Counter()
            for d in gl:
                hit = [norm(e) for e in d["extra"] if norm(e) in want]
                if hit:
                    have[hit[0]] += 1
            if have != want:
                return engine.bad("source line echoed with -x -x at %s: got %s, faulty statement is %s" %
                                  (fmtkey(k), [d["extra"] for d in gl], sorted(want)), key, classes, **detail)
    want_status = 2 if any(d["kind"] == "error" for d in exp) else 0
    if r.status != want_status:
        return engine.bad("exit status %s with %d error diagnostics" % (r.status, sum(d["kind"] == "error" for d in exp)),
                          key, classes, **detail)
    return engine.ok(key, classes)


def msg_of(d, o):
    m = d["msg"]
    if o["gnu"] and o["x"] >= 1:
        i = m.find(" '")
        if i >= 0 and m.endswith("'"):
            m = m[:i]
    return m


def ext_has(d, text, o):
    if o["gnu"]:
        return d["msg"].endswith(" '%s'" % text)
    return text in d["extra"]


def fmtkey(k):
    f, line, ctx, chain, num, kind = k
    s = "%s(%d)" % (f, line)
    if ctx:
        s += " " + ctx
    if chain:
        s += " included from " + ",".join("%s:%d" % c for c in chain)
    if num is not None:
        s += " #%d" % num
    return s + " " + kind


def coverage_extra(tier, classes):
    return dict(classes_full=dict(sorted(classes.items())))


def show(case):
    try:
        lay = Layout(case)
        return dict(argv=argv_of(case), files=lay.text)
    except Exception:
        return case


# ---------------------------------------------------------------- fixed cases

def _f(items, **kw):
    return dict(dict(items=items, dir="", eol="lf", nl=True), **kw)


def _case(files, cpu="6502", mode="std", **o):
    opts = dict(x=0, n=True, gnu=False, E="default", q=True, L=False, ipath=False, ind="\t", W="", root="")
    opts.update(o)
    return dict(cpu=cpu, mode=mode, files=files, opts=opts)


def fixed_cases(tier):
    good = dict(k="ln", c="good", v=0)
    unk = dict(k="ln", c="unk", v=0)
    rng = dict(k="ln", c="range", v=0)
    argc = dict(k="ln", c="argc", v=0)
    out = []
    for gnu in (False, True):
        for x in (0, 2):
            # main file + one include
            out.append(_case({"t.asm": _f([good, unk, dict(k="inc", f="i1.inc"), rng]),
                              "i1.inc": _f([good, argc, good])}, gnu=gnu, x=x))
            # every repetition kind, fault in first / middle / last iteration, one-line and multi-line bodies
            for args in (["300", "1"], ["1", "300"], ["1", "300", "17"]):
                out.append(_case({"t.asm": _f([dict(k="irp", p="PI1", t="arg", args=args,
                                                    body=[dict(k="pl", t="arg", p="PI1")])])}, gnu=gnu, x=x))
                out.append(_case({"t.asm": _f([dict(k="irp", p="PI1", t="arg", args=args,
                                                    body=[good, dict(k="pl", t="arg", p="PI1"), good])])}, gnu=gnu, x=x))
            out.append(_case({"t.asm": _f([dict(k="irpc", p="PC1", s="191",
                                                body=[dict(k="pl", t="chr", p="PC1")])])}, gnu=gnu, x=x))
            out.append(_case({"t.asm": _f([dict(k="irpn", n=2, ps=["PN1", "PN2"], ts=["op", "arg"],
                                                args=["nop", "300", "xyzzy", "1", "nop", "1"],
                                                body=[dict(k="pl", t="op", p="PN1"), dict(k="pl", t="arg", p="PN2")])])},
                             gnu=gnu, x=x))
            out.append(_case({"t.asm": _f([dict(k="rept", n=3, id=1, ctr=True, endr=False,
                                                body=[dict(k="itf", c="unk", v=0, cid=1, it=2), unk])])}, gnu=gnu, x=x))
            out.append(_case({"t.asm": _f([dict(k="while", n=2, id=1, body=[unk, good])])}, gnu=gnu, x=x))
            # nested macro / rept, include inside a repetition, continuation
            out.append(_case({"t.asm": _f([dict(k="mdef", name="Mac1", params=[["PM1", "op"]],
                                                body=[good, dict(k="pl", t="op", p="PM1"),
                                                      dict(k="rept", n=2, id=2, ctr=False, endr=True, body=[good, rng])]),
                                           dict(k="rept", n=2, id=3, ctr=False, endr=False,
                                                body=[dict(k="call", name="Mac1", args=["xyzzy"]),
                                                      dict(k="inc", f="i1.inc")]),
                                           dict(k="ln", c="argc", v=0, cont=[30, 60])]),
                              "i1.inc": _f([dict(k="ln", c="unk", v=0, cont=[50])], eol="crlf", nl=False)},
                             gnu=gnu, x=x))
            # EXPECT: matching, missing, surplus
            out.append(_case({"t.asm": _f([dict(k="expect", nums=[1200, 1010], body=[unk, rng]), unk])}, gnu=gnu, x=x))
            # EXITM in every repetition kind (IRP used to crash) followed by a fault
            for kind in ("rept", "irp", "irpn", "irpc", "while"):
                body = [rng, dict(k="exitm"), unk]
                node = dict(rept=dict(k="rept", n=2, id=1, ctr=False, endr=False, body=body),
                            irp=dict(k="irp", p="PI1", t="arg", args=["1", "2"], body=body),
                            irpn=dict(k="irpn", n=1, ps=["PN1"], ts=["arg"], args=["1", "2"], body=body),
                            irpc=dict(k="irpc", p="PC1", s="12", body=body),
                            **{"while": dict(k="while", n=2, id=1, body=body)})[kind]
                out.append(_case({"t.asm": _f([node, argc])}, gnu=gnu, x=x))
    return out


KNOWN = {}
