"""C19  Listing, debug map and share file state the facts of the code file.

Domain: golden-corpus programs and generated programs (macros, includes, several segments, PHASE,
padding, long data lines, word-granular targets) x list radix 2..36 x share formats -c/-p/-a x MAP.
Oracle: independent parsers of listing / MAP / share file (vf/lstparse.py) joined with the parsed
code file and the emission trace of the hook (ASL_VERIF_TRACE):
  * every code-bearing listing line: address = load address + phase offset of a trace chunk of that
    source line, dumped words = the chunk's bytes (which are the code file's bytes at that address);
  * every MAP line:address entry: a trace chunk of that line starts at that load address in that segment;
  * symbol values agree between listing symbol table, MAP symbol section and share file, and a label's value
    equals the listing address of the line that defines it.
"""
import os, re
from vf import engine, corpus, golden, asl, pfile, run, lstparse, variants
from vf.gen import composite

ID = "C19"
RULE = ("case = golden test or generated program (cpu spans z80 / 68000 / 8051 / 16c84; labels, data lines of 1-40 "
        "bytes, macros, include file, PHASE/DEPHASE, segment switches, padding, SHARED) x -LISTRADIX r x share "
        "format x -g MAP; non-trivial = a line with continuation lines, or phased code, or a non-CODE segment, or a "
        "word-granular target, or radix != 16; distinct by (program, feature set, radix, share format)")
ASSUMPTIONS = [
    "hook ASL_VERIF_TRACE reports exactly what WriteBytes hands to the code file (checked against the code file)",
    "a listing word may be the little- or big-endian image of the code file's bytes (no per-CPU endianness table), but "
    "all lines of one CPU must agree on the order (checked for generated programs and for golden tests that name exactly one CPU); "
    "one of the two must match",
    "listing lines are matched by (line number, address, bytes); lines hidden by LISTING OFF / MACEXP settings are "
    "not required to appear - completeness is required for generated programs only: every plain code-emitting "
    "statement outside macro bodies and outside LISTING OFF regions must be listed with its bytes",
    "whether typeless (EQU) symbols appear in the MAP symbol section is not asserted",
    "MAP numbers are hexadecimal; bit symbols (segment letter B) are shown by the listing in a CPU-specific "
    "dissected form and are not compared; MAP entries of statements that emitted nothing (e.g. ALIGN without gap) "
    "are only counted",
    "programs that retract code (RetractWords) or overwrite addresses are only checked for listing/trace agreement",
]
SHARE = {"c": ("-c", ".h"), "p": ("-p", ".inc"), "a": ("-a", ".inc")}


def budget(tier):
    return dict(examples=2400 if tier == "quick" else 30000, shards=16)


# ------------------------------------------------------------------ generated programs

@composite
def strategy_(d, tier):
    if d.bool(0.35):
        names = corpus.names()
        return dict(kind="golden", test=names[d.int(0, len(names) - 1)],
                    radix=d.weighted([(4, 16), (2, 8), (2, 10), (1, 2), (1, 36), (2, d.int(2, 36))]),
                    share=d.choice(["c", "p", "a"]), var=variants.ops_strategy(d) if d.bool(0.5) else None)
    spans = []
    for _ in range(d.weighted([(3, 1), (2, 2), (1, 3)])):
        cpu = d.choice(["z80", "68000", "8051", "16c84"])
        items = []
        for _ in range(d.int(2, 12)):
            k = d.weighted([(5, "data"), (3, "ins"), (2, "lab"), (2, "mac"), (1, "inc"), (2, "phase"), (1, "seg"),
                            (1, "res"), (1, "org"), (2, "macx"), (1, "mexp"), (1, "lst"), (3, "wdata"), (2, "savres")])
            if k == "wdata":
                # 16/32-bit data: the listing shows words, whose byte order must be the target's on every line;
                # counts reach beyond the 512 byte code buffer of the code file writer
                items.append(["wdata", d.weighted([(4, d.int(1, 6)), (2, d.int(7, 40)), (2, d.int(120, 300)),
                                                   (1, d.choice([255, 256, 257, 127, 128, 129]))]),
                              d.int(0x0102, 0xfeef), d.bool(0.3), d.bool(0.4)])
            elif k == "data":
                items.append(["data", d.weighted([(4, d.int(1, 6)), (3, d.int(7, 20)), (2, d.int(21, 40))]), d.int(0, 255)])
            elif k == "phase":
                items.append(["phase", d.int(0, 0x3000)])
            elif k == "org":
                items.append(["org", d.int(0, 0x300)])
            elif k == "res":
                items.append(["res", d.int(1, 9)])
            elif k in ("mexp", "lst", "savres", "inc"):
                items.append([k, d.int(0, 7)])
            else:
                items.append([k])
        spans.append(dict(cpu=cpu, items=items))
    return dict(kind="gen", spans=spans, radix=d.weighted([(4, 16), (2, 8), (2, 10), (1, 2), (1, 36), (2, d.int(2, 36))]),
                share=d.choice(["c", "p", "a"]))


def strategy(tier):
    return strategy_(tier)


INC2 = "; include file of the same name in a sub-directory: code on the same line numbers, one line more\n\tnop\ninclab2:\tnop\n\tnop\n"


def render(case):
    """returns (source, include text, labels, features, must) - must = line numbers of the main file that hold a plain
    code-emitting statement while LISTING is on: these have to appear in the listing with their bytes"""
    L = []
    must = set()
    inc = ["; include file", "inclab:\tnop", "\tnop"]
    labels = []
    feats = set()
    nlab = [0]
    listing = [True]
    cpu_of_line = {}

    def add(line, code=False):
        L.append(line)
        if code and listing[0]:
            must.add(len(L))

    def lab():
        nlab[0] += 1
        n = "lb%d" % nlab[0]
        labels.append(n)
        return n
    base = 0x100
    add("vv\tset 0")
    for si, sp in enumerate(case["spans"]):
        cpu = sp["cpu"]
        add("\tcpu %s" % cpu)
        datop = {"z80": "db", "68000": "dc.b", "8051": "db", "16c84": "data"}[cpu]
        resop = {"z80": "ds", "68000": "ds.b", "8051": "ds", "16c84": "res"}[cpu]
        if cpu == "8051":
            add("\tsegment code")
        add("\torg %d" % (base if cpu != "16c84" else 16 + 64 * si))
        base += 0x1400
        if cpu == "16c84":
            feats.add("wordgran")
        phased = 0
        inseg = "code"
        macdef = macxdef = False
        for it in sp["items"]:
            k = it[0]
            if k == "data":
                n, v0 = it[1], it[2]
                if cpu == "16c84":
                    n = min(n, 12)
                vals = [(v0 + 3 * i) & 0xff for i in range(n)]
                add("%s:\t%s %s" % (lab(), datop, ",".join(str(v) for v in vals)), code=True)
                if n > 6:
                    feats.add("continuation")
                if phased:
                    feats.add("phased")
            elif k == "wdata":
                n, v0, longs, rep = it[1], it[2], it[3], it[4]
                if v0 & 0xff == v0 >> 8:
                    v0 ^= 1                      # both byte orders must be distinguishable
                if cpu == "68000":
                    op = "dc.l" if longs else "dc.w"
                    v = (v0 << 16 | (v0 ^ 0x5a5a)) if longs else v0
                    text = "[%d]%d" % (n, v) if rep else ",".join(str((v + 257 * i) & (0xffffffff if longs else 0xffff))
                                                                  for i in range(min(n, 40)))
                elif cpu == "16c84":
                    op, text = "data", ",".join(str((v0 + 3 * i) & 0x3fff) for i in range(min(n, 12)))
                else:
                    op = "dd" if longs else "dw"
                    v = (v0 << 16 | (v0 ^ 0x5a5a)) if longs else v0
                    text = ",".join(str((v + 257 * i) & (0xffffffff if longs else 0xffff)) for i in range(min(n, 40)))
                if inseg == "code":
                    add("%s:\t%s %s" % (lab(), op, text), code=True)
                    cpu_of_line[len(L)] = cpu
                    feats.add("wdata")
                    if rep and cpu == "68000" and n * (4 if longs else 2) >= 512:
                        feats.add("line>=512bytes")
            elif k == "ins":
                if inseg == "code":
                    add("\tnop", code=True)
            elif k == "lab":
                add("%s:" % lab())
            elif k == "mac" and inseg == "code":
                if not macdef:
                    for x in ["mc%d\tmacro" % si, "\tnop", "\t%s 1,2" % datop, "\tendm"]:
                        add(x)
                    macdef = True
                add("\tmc%d" % si)
                feats.add("macro")
            elif k == "macx" and inseg == "code":
                # a macro whose body holds statements that set the listing's "special" column (IF/ENDIF, SET)
                if not macxdef:
                    for x in ["mx%d\tmacro" % si, "\tif vv>=0", "\tnop", "\tendif", "vv\tset vv+1", "\tendm"]:
                        add(x)
                    macxdef = True
                add("\tmx%d" % si)
                feats.add("macro-if-set")
            elif k == "mexp":
                add("\tmacexp_dft %s" % ["off", "on", "noif", "nomacro", "norest", "noif,norest", "on", "off"][it[1]])
                feats.add("macexp")
            elif k == "lst":
                mode = ["off", "on", "noskipped", "purecode", "on", "on", "off", "on"][it[1]]
                add("\tlisting %s" % mode)
                listing[0] = mode != "off"
                feats.add("listing-ctl")
            elif k == "inc" and inseg == "code" and cpu in ("z80", "8051") and "include" not in feats:
                add("\tinclude \"inc1.inc\"")
                labels.append("inclab")
                feats.add("include")
                if len(it) > 1 and it[1] % 2:
                    # another file with the same base name in a sub-directory (see INC2)
                    add("\tinclude \"sub/inc1.inc\"")
                    labels.append("inclab2")
                    feats.add("include-same-base-name")
            elif k == "phase" and inseg == "code" and cpu != "16c84":
                if phased and it[1] % 2:
                    add("\tdephase")
                    phased -= 1
                else:
                    add("\tphase %d" % it[1])
                    phased += 1
            elif k == "seg" and cpu == "8051" and not phased:
                inseg = "data" if inseg == "code" else "code"
                add("\tsegment %s" % inseg)
                if inseg == "data":
                    add("\torg %d" % (0x30 + 8 * si))
                    add("%s:\tds 2" % lab())
                    feats.add("dataseg")
            elif k == "savres" and inseg == "code" and not phased:
                # SAVE ... RESTORE around a change of segment / listing mode / program counter: the code that follows
                # RESTORE continues in the saved segment at its program counter
                add("\tsave")
                v = it[1]
                if cpu == "8051" and v % 4:
                    add("\tsegment %s" % ("data" if v & 2 else "xdata"))
                    add("\torg %d" % (0x40 + 4 * (v & 4)))
                    add("%s:\tds %d" % (lab(), 1 + (v >> 1)))
                    feats.add("save-segment-restore")
                else:
                    add("\tlisting %s" % ("off" if v & 2 else "noskipped"))
                    if v & 4:
                        add("\tnop")
                    feats.add("save-listing-restore")
                add("\trestore")
                add("%s:\t%s %d,%d" % (lab(), datop, 7 + v, 9), code=True)
            elif k == "res" and not phased:
                add("%s:\t%s %d" % (lab(), resop, it[1]))
            elif k == "org" and not phased and inseg == "code" and cpu != "16c84":
                add("\torg %d" % (base - 0x1400 + 0x400 + it[1] * 2))
        for _ in range(phased):
            add("\tdephase")
        if cpu == "8051" and inseg != "code":
            add("\tsegment code")
        if cpu == "68000":
            add("\tdc.b 1", code=True)
            add("%s:\tdc.w 4660" % lab(), code=True)
            cpu_of_line[len(L)] = cpu
            feats.add("padding")
    add("\tlisting on")
    for i in range(0, len(labels), 6):
        add("\tshared %s" % ",".join(labels[i:i + 6]))
    # non-integer constants in the share file: a float and a string (SHARED_CONSTS holds what the file must say)
    for name, text, _ in SHARED_CONSTS:
        add("%s\tequ %s" % (name, text))
    add("\tshared %s" % ",".join(n for n, _, _ in SHARED_CONSTS))
    return "\n".join(L) + "\n", "\n".join(inc) + "\n", labels, feats, must, cpu_of_line


SHARED_CONSTS = [("shflt", "2.5", 2.5), ("shneg", "-0.00125", -0.00125), ("shbig", "1.0e100", 1e100), ("shstr", '"aZ q"', "aZ q")]


def check_shared_consts(share_text):
    """the float and string constants of a generated program as the share file states them (any of the 3 formats)"""
    for name, _, want in SHARED_CONSTS:
        m = re.search(r"^(?:#define\s+)?%s\s*(?:=|equ)?\s*(.+?);?\s*$" % name, share_text, re.M | re.I)
        if not m:
            return "share file has no entry for %s" % name
        tok = m.group(1).strip()
        if isinstance(want, float):
            try:
                got = float(tok)
            except ValueError:
                return "share file entry of %s is %r, no floating point number" % (name, tok)
            if got != want:
                return "share file says %s = %r, the symbol is %r" % (name, got, want)
        elif tok[1:-1] != want or tok[0] not in "\"'" or tok[-1] != tok[0]:
            return "share file says %s = %s, the symbol is the string %r" % (name, tok, want)
    return None


# ------------------------------------------------------------------ the oracle

def bytes_of(units, order):
    out = bytearray()
    for v, size in units:
        out += v.to_bytes(size, order)
    return bytes(out)


def verify(lst_text, map_text, share_text, trace_text, pbytes, radix, complete, labels=None, cpu_of_line=None):
    """returns (error string or None, stats dict)"""
    st = dict(entries=0, matched=0, mapentries=0, syms=0, multi=0)
    trace = lstparse.parse_trace(trace_text)
    if not trace:
        return None, st
    last = max(t["npass"] for t in trace)
    final = [t for t in trace if t["npass"] == last]
    codes = [t for t in final if t["kind"] == "code"]
    retract = any(t["kind"] == "retract" for t in final)
    # 1. the trace is what the code file holds
    try:
        recs = pfile.parse(pbytes, strict=True)
    except pfile.FormatError as e:
        return "code file not well formed: %s" % e, st
    mem, dup = pfile.bytemap(recs)
    if not dup and not retract:
        for t in codes:
            base = t["load"] * t["gran"]
            got = bytes(mem.get((t["seg"], base + k), 0x100) & 0xff if (t["seg"], base + k) in mem else 0
                        for k in range(len(t["data"])))
            if any((t["seg"], base + k) not in mem for k in range(len(t["data"]))) or got != t["data"]:
                return ("code file does not hold the bytes emitted for line %d at %x (segment %d)"
                        % (t["line"], t["load"], t["seg"])), st
    # 2. listing lines
    entries = lstparse.parse_listing(lst_text, radix)
    by_line = {}
    for t in codes:
        by_line.setdefault(t["line"], []).append(t)
    used = set()
    orient = {}
    for e in entries:
        if not e["units"] or e["retracted"]:
            continue
        st["entries"] += 1
        if len(e["units"]) > 6 or any(u[1] > 1 for u in e["units"]):
            st["multi"] += 1
        cands = by_line.get(e["line"], [])
        le, be = bytes_of(e["units"], "little"), bytes_of(e["units"], "big")
        hit = None
        for t in cands:
            if ((t["load"] + t["phase"]) & 0xffffffffffffffff) == e["addr"] and t["data"] in (le, be):
                hit = t
                break
        if hit is None:
            near = [(hex((t["load"] + t["phase"]) & 0xffffffff), t["data"].hex()) for t in cands][:4]
            return ("listing line %d shows address %x and code %s, but the code emitted for that line is %s"
                    % (e["line"], e["addr"], be.hex(), near or "nothing")), st
        used.add(id(hit))
        st["matched"] += 1
        # continuation lines of the entry show the address of their first byte
        for caddr, before in e.get("cont", []):
            st["contlines"] = st.get("contlines", 0) + 1
            want = (e["addr"] + before // hit["gran"]) & 0xffffffffffffffff
            if before % hit["gran"] == 0 and caddr != want:
                return ("listing line %d: a continuation line shows address %x for the bytes behind the first %d, they "
                        "are at %x" % (e["line"], caddr, before, want)), st
        # the byte order of listed words is a property of the target: every line of one CPU uses the same one
        if cpu_of_line is not None and le != be and e["depth"] == 0:
            cpu = cpu_of_line if isinstance(cpu_of_line, str) else cpu_of_line.get(e["line"])
            if cpu is not None:
                o = "little" if hit["data"] == le else "big"
                prev = orient.setdefault(cpu, (o, e["line"]))
                st["oriented"] = st.get("oriented", 0) + 1
                if prev[0] != o:
                    return ("listing line %d shows its words in %s-endian order, line %d of the same CPU (%s) in "
                            "%s-endian order; the code file holds %s" % (e["line"], o, prev[1], cpu, prev[0],
                                                                         hit["data"][:8].hex())), st
    if complete:
        for t in codes:
            if id(t) not in used and os.path.basename(t["file"]) == "t.asm" and t["line"] in complete:
                return ("code emitted for line %d at %x (%s) is not shown by the listing"
                        % (t["line"], t["load"], t["data"][:8].hex())), st
    # 3. MAP line info
    segname = pfile.SEGNAMES
    if map_text is not None:
        info, msyms = lstparse.parse_map(map_text)
        starts = {}
        for t in final:
            if t["kind"] in ("code", "reserve"):
                starts.setdefault((segname.get(t["seg"]), os.path.basename(t["file"]), t["line"]), set()).add(t["load"])
        # files are compared by their full name as long as trace and MAP spell it the same way (two include files may
        # share their base name), by base name otherwise
        full = {t["file"] for t in final}
        fstarts = {}
        for t in final:
            if t["kind"] in ("code", "reserve"):
                fstarts.setdefault((segname.get(t["seg"]), t["file"], t["line"]), set()).add(t["load"])
        for seg, fil, line, addr in info:
            st["mapentries"] += 1
            if fil in full:
                s = fstarts.get((seg, fil, line))
                if not s and not any(k[1] == fil and k[2] == line for k in fstarts):
                    st["map_nocode"] = st.get("map_nocode", 0) + 1
                    continue
                if not s or addr not in s:
                    return ("MAP entry %d:%08X (segment %s, file %s): no code of that line of that file starts there "
                            "(starts: %s)" % (line, addr, seg, fil, sorted(hex(x) for x in (s or [])))), st
                continue
            s = starts.get((seg, os.path.basename(fil or ""), line))
            if not s and not any(k[1] == os.path.basename(fil or "") and k[2] == line for k in starts):
                # an entry for a statement that emitted nothing (ALIGN without gap, ...): nothing to compare
                st["map_nocode"] = st.get("map_nocode", 0) + 1
                continue
            if not s or addr not in s:
                return ("MAP entry %d:%08X (segment %s, file %s): no code of that line starts there (starts: %s)"
                        % (line, addr, seg, fil, sorted(hex(x) for x in (s or [])))), st
    else:
        msyms = {}
    # 4. symbol values: listing table vs MAP vs share
    ltab = lstparse.parse_symtab(lst_text)
    mask = (1 << 64) - 1
    lvals = {}
    for name, (val, seg) in ltab.items():
        if val.startswith('"') or seg == "B":
            continue
        try:
            lvals[name] = int(val, radix) & mask
        except ValueError:
            continue
    for name, (typ, val, seg) in msyms.items():
        if typ != "Int" or "[" in name:
            continue
        st["syms"] += 1
        try:
            mv = int(val, 16) & mask
        except ValueError:
            return "MAP symbol %s has unreadable value %r" % (name, val), st
        if name in lvals and lvals[name] != mv:
            return "symbol %s: listing says %x, MAP says %x" % (name, lvals[name], mv), st
    if share_text is not None:
        for name, v in lstparse.parse_share(share_text).items():
            st["syms"] += 1
            u = name.upper()
            if u in lvals and lvals[u] != (v & mask):
                return "symbol %s: listing says %x, share file says %x" % (name, lvals[u], v & mask), st
    # 5. labels: value = listing address of the defining line
    if labels:
        for e in entries:
            m = re.match(r"^(\w+):", e["src"])
            # (a label alone on its line is listed at the address before a later alignment padding moves it)
            if m and m.group(1).upper() in lvals and m.group(1) in labels and e["special"] is None and e["units"]:
                st["syms"] += 1
                if lvals[m.group(1).upper()] != e["addr"]:
                    # a label in front of padded code is moved to the padded address, which is the next line's
                    return ("label %s: symbol table says %x, its line is listed at %x"
                            % (m.group(1), lvals[m.group(1).upper()], e["addr"])), st
    return None, st


_single = {}


def single_cpu(name):
    """the CPU of a golden test whose sources name exactly one (then every listed line belongs to it), else None"""
    if name not in _single:
        t = corpus.load(name)
        texts = [t["src"]] + [v for k, v in t["extra"].items() if k.lower().endswith((".inc", ".asm", ".mac"))]
        found = set()
        for b in texts:
            for m in re.finditer(rb"^[^;\n]*?\bcpu[ \t]+([^\s;]+)", b, re.I | re.M):
                found.add(m.group(1).upper())
        # sources that switch the byte order themselves are left alone
        flip = any(re.search(rb"\b(bigendian|wrapmode)\b", b, re.I) for b in texts)
        _single[name] = found.pop().decode("latin-1") if len(found) == 1 and not flip else None
    return _single[name]


def execute(case):
    radix, share = case["radix"], case["share"]
    sopt, sext = SHARE[share]
    args = ["-L", "-g", "MAP", "-LISTRADIX", str(radix), sopt]
    classes = ["radix:%s" % ("16" if radix == 16 else "other"), "share:" + share, "kind:" + case["kind"]]
    with run.Work("c19") as d:
        env = {"ASL_VERIF_TRACE": os.path.join(d, "trace.txt")}
        if case["kind"] == "golden":
            name = case["test"]
            vsrc = variants.apply(corpus.load(name)["src"], case["var"]) if case.get("var") else None
            r = golden.assemble_golden(name, src=vsrc, args=args, env=env, workdir=d, want=(name + ".lst", name + ".map"))
            if r["timed_out"]:
                return engine.inconclusive("timeout", classes)
            if vsrc is not None:
                classes.append("golden-variant")
                if r["status"] != 0 or r["p"] is None:
                    return engine.discarded("variant-invalid", classes)
            status, err, p = r["status"], r["r"].err, r["p"]
            lst, mp = r["files"][name + ".lst"], r["files"][name + ".map"]
            sh = run.read(d, name + ".h")
            labels, feats, complete = None, set(), None
            ident = name + (engine.digest(str(case["var"]))[:6] if case.get("var") else "")
            cpu_of_line = single_cpu(name)
        else:
            src, inc, labels, feats, must, cpu_of_line = render(case)
            r = asl.assemble({"t.asm": src, "inc1.inc": inc, "sub/inc1.inc": INC2}, args=args, env=env, workdir=d,
                             want=("t.lst", "t.map", "t" + sext))
            if r.timed_out:
                return engine.inconclusive("timeout", classes)
            status, err, p = r.status, r.err, r.p
            lst, mp, sh = r.files["t.lst"], r.files["t.map"], r.files["t" + sext]
            complete = must
            ident = engine.digest(src)
        trace = run.read(d, "trace.txt") or b""
    classes += ["feat:" + f for f in sorted(feats)]
    if status != 0 or p is None or lst is None:
        if case["kind"] == "gen":
            return engine.bad("generated program rejected: status %s" % status, None, classes, stderr=err[-500:],
                              src=src)
        return engine.bad("golden test %s fails with report options: status %s" % (ident, status), None, classes,
                          stderr=err[-500:])
    why, st = verify(lst.decode("latin-1"), mp.decode("latin-1") if mp else None,
                     sh.decode("latin-1") if sh else None, trace.decode("latin-1"), p, radix, complete, labels,
                     cpu_of_line)
    if not why and case["kind"] == "gen":
        why = check_shared_consts(sh.decode("latin-1")) if sh else "no share file written"
    nt = bool(feats) or radix != 16 or st["multi"] > 0
    key = "|".join([ident, ",".join(sorted(feats)), str(radix), share]) if nt else None
    classes += ["entries>0"] if st["entries"] else ["no-entries"]
    if why:
        detail = dict(stats=st)
        if case["kind"] == "gen":
            detail["src"] = src
        return engine.bad(why, key, classes, **detail)
    return engine.ok(key, classes, **st)


def show(case):
    return case


def fixed_cases(tier):
    out = []
    radixes = [16, 8, 10, 2, 36, 7]
    phase = engine.seed_from_env() % 3
    for i, n in enumerate(corpus.names()):
        if tier == "quick" and i % 3 == phase:
            continue          # quick: two thirds of the corpus (rotating with the seed); thorough: all of it
        out.append(dict(kind="golden", test=n, radix=radixes[i % 6] if i % 2 else 16, share="cpa"[i % 3]))
    return out


KNOWN = {}
