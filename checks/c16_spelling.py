"""C16  Spelling the manual declares irrelevant does not change the code.

Domain: every program of the golden corpus x meaning-preserving rewrites (vf/rewrite.py).
Oracle: metamorphic with a trusted anchor - the p2bin image of the rewritten program must equal the
recorded tests/<t>/<t>.ori.
"""
import re
from vf import engine, corpus, golden, rewrite, variants
from vf.gen import composite

ID = "C16"
RULE = ("case = (golden test, list of bulk edits [kind, stride, phase, param] applied to every understood line "
        "with index = phase mod stride, whole-file flags crlf/include/macro); kinds: opcase (mnemonic and attribute "
        "case), ws (blanks/tabs between fields), cmtadd, cmtdel, blank (inserted empty line), colon (after a "
        "column-1 label), symcase (case of a label and its uses); fixed cases apply every kind to every line of "
        "every test; non-trivial = at least one line changed or a whole-file flag; distinct by (test, kinds, digest)")
ASSUMPTIONS = [
    "tests/<t>/<t>.ori is the trusted image of each golden program",
    "lines the conservative lexer does not fully understand are left untouched (fraction reported)",
    "case rewrites are skipped for tests assembled with -U (case-sensitive mode)",
    "line-number-changing rewrites (blank, macro, include) are skipped for sources mentioning MOMLINE; include/macro "
    "wrapping for sources mentioning MOMFILE or that are assembled with a CPU given only on the command line",
    "macro wrapping is skipped for sources that define macros themselves and use ALLARGS/ARGCOUNT/ATTRIBUTE/SHIFT (the outer expansion would substitute its "
    "implicit parameters inside the nested definitions); an END statement and the text behind it stay behind the wrapper (no macro wrapping when END names an entry label: it would become local); use SECTION (interplay of macro-local and section-local "
    "labels is not defined by the manual) or use {symbol} expansion in the instruction field (evaluated while a "
    "macro body is read)",
]
KINDS = ["opcase", "ws", "wsarg", "cmtadd", "cmtdel", "blank", "colon", "symcase", "symcaseall"]


def budget(tier):
    return dict(examples=1600 if tier == "quick" else 30000, shards=16)


_meta = {}


def meta(name):
    if name in _meta:
        return _meta[name]
    t = corpus.load(name)
    src = t["src"].decode("latin-1")
    up = src.upper()
    allsrc = up + "".join(v.decode("latin-1").upper() for k, v in t["extra"].items()
                          if not k.lower().endswith((".ori", ".doc", ".bin", ".p")) and k != "asflags")
    m = dict(
        caseok="-U" not in t["flags"],
        lineok="MOMLINE" not in allsrc,
        wrapok="MOMFILE" not in allsrc,
    )
    # a body moved into a macro: static exclusions, each tied to a documented rule
    #  - the body defines macros itself AND uses an implicit parameter name: the outer expansion substitutes its
    #    own ALLARGS / ARGCOUNT / ATTRIBUTE (and SHIFT would act on it) inside nested definitions (manual:
    #    textual insertion)
    #  - SECTION: labels in a macro body are local to the expansion, the manual does not define how this
    #    combines with section-local names of equal spelling
    #  - {symbol} expansion in the instruction field is evaluated while the macro body is *read*
    #    (documented in tests/t_78k4 itself), i.e. before the SET statements inside the body run
    m["macrook"] = (m["wrapok"] and m["lineok"]
                    and not re.search(r"\b(SECTION|ENDSECTION)\b", allsrc)
                    and not (re.search(r"\bMACRO\b", allsrc)
                             and re.search(r"\b(ALLARGS|ARGCOUNT|ATTRIBUTE|SHIFT|__LABEL__)\b", allsrc))
                    and not re.search(r"^\S*[ \t]+[^ \t;]*\{", up, re.M)
                    # END <entry label>: the label would become local to the wrapper's expansion
                    and not re.search(r"^[ \t]+END[ \t]+[^;\s]", up, re.M))
    _meta[name] = m
    return m


@composite
def strategy_(d, tier):
    names = corpus.names()
    name = names[d.int(0, len(names) - 1)]
    ne = d.int(1, 4)
    edits = []
    for _ in range(ne):
        kind = d.choice(KINDS)
        stride = d.weighted([(4, 1), (2, 2), (1, 3), (1, 7)])
        edits.append([kind, stride, d.int(0, 6), d.int(0, 40)])
    flags = dict(crlf=d.bool(0.25), include=d.bool(0.2), macro=d.bool(0.2))
    case = dict(test=name, edits=edits, flags=flags)
    if d.bool(0.4):
        # the program is a line-edited variant of the golden test; its own image is the reference then
        case["var"] = variants.ops_strategy(d)
    return case


def strategy(tier):
    from hypothesis import strategies as st
    return st.integers(0, 99).flatmap(lambda k: synth_case_(tier) if k < 8 else strategy_(tier))


# ---------------------------------------------------------------------------------------------------------------
# synthetic programs: operands the golden corpus does not contain (constants that end in an escaped backslash, that
# hold semicolons, quotes of the other kind, blanks ...).  Lines are kept as (label, mnemonic, operands); a rendering
# chooses the irrelevant spelling (comment behind every statement, blanks/tabs between the fields, letter case of the
# mnemonic, colon behind the label, CR-LF); all renderings must give the code file of the plain one.
SYNTH = [
    ("z80", [("", "org", "100h"), ("", "db", '"C:\\\\"'), ("s1", "db", "'a','\\\\',\"x\\\\\\\\\""),
             ("", "db", '";"'), ("", "db", "';'"), ("s2", "db", '"a;b",1'), ("", "db", '"it\'s"'), ("", "db", "'\"'"),
             ("", "db", '"a\\"b"'), ("s3", "dw", "'ab'"), ("", "ld", "a,';'"), ("", "ld", "hl,s3"), ("", "db", '"\\\\;"'),
             ("", "db", '"tab\\there"'), ("s4", "db", '"end\\\\"'), ("", "dw", "s4")]),
    ("6502", [("", "org", "$200"), ("", "byt", '"dir\\\\"'), ("t1", "byt", "';',\"\\\\\""), ("", "lda", "#';'"),
              ("", "adr", "t1"), ("t2", "fcc", '"x;y\\\\"'), ("", "byt", "'\\\\'")]),
    ("68000", [("", "org", "$1000"), ("", "dc.b", '"C:\\\\"'), ("u1", "dc.b", "';','\\\\'"), ("", "dc.w", "u1"),
               ("", "moveq", "#';',d0"), ("u2", "dc.b", '"a\\"b;c\\\\"')]),
    ("8051", [("", "org", "100h"), ("", "db", '"p\\\\"'), ("v1", "db", "';'"), ("", "mov", "a,#';'"), ("", "dw", "v1"),
              ("", "db", '"q;\\\\"')]),
]


@composite
def synth_case_(d, tier):
    return dict(synth=d.int(0, len(SYNTH) - 1), cmt=d.int(0, 3), ws=d.int(0, 5), up=d.bool(0.4), colon=d.bool(0.5),
                crlf=d.bool(0.3))


def render_synth(i, cmt=0, ws=0, up=False, colon=False, crlf=False):
    cpu, lines = SYNTH[i]
    seps = [" ", "\t", "  ", " \t", "\t\t", "   \t "]
    out = ["\tcpu " + cpu]
    for k, (lab, mn, args) in enumerate(lines):
        s1 = seps[(ws + k) % len(seps)]
        s2 = seps[(ws + 2 * k + 1) % len(seps)]
        text = (lab + (":" if colon and lab else "")) + s1 + (mn.upper() if up else mn) + s2 + args
        if cmt and (k + cmt) % (1 if cmt == 1 else 2) == 0:
            text += ["", " ; c", "\t;\"c", ";x'"][cmt]
        out.append(text)
    return ("\r\n" if crlf else "\n").join(out) + ("\r\n" if crlf else "\n")


def execute_synth(case):
    from vf import asl
    i = case["synth"]
    classes = ["synthetic:" + SYNTH[i][0]] + ["synth-" + k for k in ("cmt", "ws", "up", "colon", "crlf") if case.get(k)]
    key = "synth|%d|%s" % (i, ",".join(classes[1:]))
    ref = asl.assemble({"t.asm": render_synth(i)})
    if ref.timed_out:
        return engine.inconclusive("timeout", classes)
    if ref.status != 0 or ref.p is None:
        return engine.bad("synthetic program %d does not assemble in its plain spelling: status %s" % (i, ref.status),
                          key, classes, stderr=ref.err[-600:], src=render_synth(i))
    src = render_synth(i, case["cmt"], case["ws"], case["up"], case["colon"], case["crlf"])
    r = asl.assemble({"t.asm": src})
    if r.timed_out:
        return engine.inconclusive("timeout", classes)
    if r.signal:
        return engine.bad("asl killed by signal %d on a respelled synthetic program" % r.signal, key, classes, src=src)
    if r.status != 0 or r.p is None:
        return engine.bad("respelled synthetic program (%s) no longer assembles: status %s" % (",".join(classes[1:]), r.status),
                          key, classes, stderr=r.err[-800:], src=src)
    a = [x for x in ref.records() if x["kind"] != "creator"]
    b = [x for x in r.records() if x["kind"] != "creator"]
    if a != b:
        return engine.bad("code file of the respelled synthetic program (%s) differs from the plain spelling"
                          % ",".join(classes[1:]), key, classes, src=src)
    return engine.ok(key, classes)


def effective(case):
    m = meta(case["test"])
    edits = []
    for e in case["edits"]:
        if e[0] in ("opcase", "symcase", "symcaseall") and not m["caseok"]:
            continue
        if e[0] == "blank" and not m["lineok"]:
            continue
        edits.append(e)
    f = dict(case["flags"])
    if not m["wrapok"] or not m["lineok"]:
        f["include"] = False
    if not m["macrook"]:
        f["macro"] = False
    return edits, f


def execute(case):
    if "synth" in case:
        return execute_synth(case)
    name = case["test"]
    t = corpus.load(name)
    edits, flags = effective(case)
    src0, ori = t["src"], t["ori"]
    if case.get("var"):
        src0 = variants.apply(src0, case["var"])
        r0 = golden.assemble_golden(name, src=src0)
        if r0["timed_out"]:
            return engine.inconclusive("timeout", ["golden-variant"])
        if r0["status"] != 0 or r0["image"] is None:
            return engine.discarded("variant-invalid", ["golden-variant"])
        ori = r0["image"]
    files, main, st = rewrite.apply(src0.decode("latin-1"), edits, flags)
    classes = ["kind:" + k for k in st["kinds"]] + (["golden-variant"] if case.get("var") else [])
    if st["total"]:
        classes.append("understood>=%d%%" % (10 * (10 * st["understood"] // st["total"])))
    if not st["kinds"]:
        return engine.ok(None, classes + ["no-op"])
    key = "%s|%s|%s" % (name, ",".join(st["kinds"]), engine.digest(main + "".join(files.values())))
    r = golden.assemble_golden(name, src=main.encode("latin-1"),
                               extra_files={k: v.encode("latin-1") for k, v in files.items()})
    if r["timed_out"]:
        return engine.inconclusive("timeout", classes)
    if r["image"] is not None and r["image"] == ori:
        return engine.ok(key, classes, changed=st["changed"])
    detail = dict(test=name, kinds=st["kinds"], status=r["status"], stderr=r["r"].err[-1500:],
                  changed_lines=st["changed"])
    if r["signal"]:
        return engine.bad("asl killed by signal %d on rewritten %s" % (r["signal"], name), key, classes, **detail)
    if r["status"] != 0:
        return engine.bad("rewritten %s (%s) no longer assembles: status %s" % (name, ",".join(st["kinds"]), r["status"]),
                          key, classes, **detail)
    img = r["image"] or b""
    i = next((i for i in range(min(len(img), len(ori))) if img[i] != ori[i]), min(len(img), len(ori)))
    return engine.bad("image of rewritten %s (%s) differs from the image of the unrewritten program at offset %d (len %d vs %d)"
                      % (name, ",".join(st["kinds"]), i, len(img), len(ori)), key, classes, **detail)


def show(case):
    return case


def fixed_cases(tier):
    out = []
    for i in range(len(SYNTH)):
        for cmt in (1, 2, 3):
            for ws in (0, 1, 3):
                out.append(dict(synth=i, cmt=cmt, ws=ws, up=bool(ws & 1), colon=bool(cmt & 1), crlf=(ws == 3)))
        out.append(dict(synth=i, cmt=0, ws=5, up=True, colon=True, crlf=False))
    for n in corpus.names():
        # every kind on every understood line; then the whole-file flags one by one
        out.append(dict(test=n, edits=[[k, 1, 0, 2] for k in KINDS if k != "cmtdel"], flags=dict(crlf=False, include=False, macro=False)))
        out.append(dict(test=n, edits=[["cmtdel", 1, 0, 0], ["opcase", 1, 0, 1], ["ws", 1, 0, 5]],
                        flags=dict(crlf=True, include=False, macro=False)))
        out.append(dict(test=n, edits=[["wsarg", 1, 0, 1]], flags=dict(crlf=False, include=False, macro=False)))
        out.append(dict(test=n, edits=[], flags=dict(crlf=False, include=True, macro=False)))
        out.append(dict(test=n, edits=[], flags=dict(crlf=False, include=False, macro=True)))
        # all symbols re-spelled on alternating lines (definition, use and closing statement of a name differ in case)
        for stride, phase in ((2, 0), (2, 1), (3, 1)):
            out.append(dict(test=n, edits=[["symcaseall", stride, phase, stride + phase]],
                            flags=dict(crlf=False, include=False, macro=False)))
    return out


def coverage_extra(tier, classes):
    tot = und = 0
    for n in corpus.names():
        _, _, st = rewrite.apply(corpus.load(n)["src"].decode("latin-1"), [], {})
        tot += st["total"]
        und += st["understood"]
    return dict(corpus_lines=tot, lines_understood_by_lexer=und, tests=len(corpus.names()),
                tests_macro_wrappable=sum(1 for n in corpus.names() if meta(n)["macrook"]),
                tests_include_wrappable=sum(1 for n in corpus.names() if meta(n)["wrapok"] and meta(n)["lineok"]))


KNOWN = {}
