"""C09  Data-definition statements lay down exactly the documented bytes.

Generated domain: programs of 6-40 ORG slots, each holding 1-3 data definition statements of one target:
68000 (68010..68040) DC/DS with PADDING; 6809/6309/68xx BYT/FCB/ADR/FDB/FCC/DFS/RMB and DC/DS; 6502 family
BYT/FCB/ADR/FDB/FCC/DFS; Z80/8086/8051 families DB/DW/DD/DQ/DT/DN with nested DUP, ?, DS, BIGENDIAN; MSP430
BYTE/WORD/BSS with PADDING; PIC16C84 DATA/RES/ZERO (14 bit words); AVR DATA with PACKING, RES and packed
DB/DW/DD/DQ/DT/DN; COP8 BYTE/WORD/ADDR/ADDRW/DSB/DSW/FB/FW; TMS320C25 WORD/LONG/FLOAT/DOUBLE/STRING/RSTRING/
DATA/BSS/RES; CHARSET remaps, symbols defined before and after use, labels on statements in between.
Oracle: vf/datamodel.py (written from the manual; int.to_bytes with the documented range, exact IEEE-754
rounding cross-checked with struct.pack, exact Fraction decode of 80 bit results).  Per case:
  A  the program without the statements the manual demands an error for: exit 0, the code file holds exactly
     the predicted bytes at the predicted addresses (nothing else), the program counter printed after every
     slot (MESSAGE "\\{*}") and the labels on data statements have the predicted values (reservations, padding);
  B  (only if there are such statements) the whole program: an error is reported on exactly those lines, and
     the program counter after a rejected statement has not moved (nothing laid down);
  every 4th program is also assembled with the ASan build (no memory error, same bytes).
"""
import math
import re
import struct
from fractions import Fraction

from vf import asl, engine, nonieee
from vf import datamodel as dm
from vf.datamodel import HALF, SINGLE, DOUBLE, Invalid, Unsettled, Sim, TARGETS
from vf.gen import composite

ID = "C09"
RULE = ("case = one target (11 families, 30 CPU names) x 6-40 ORG slots of 1-3 data statements (DC/DS, DB..DT/DN+DUP, "
        "BYT/FCB/ADR/FDB/FCC/DFS, BYTE/WORD/BSS, DATA/RES/ZERO, COP8 and TMS320C25 forms) with PADDING/BIGENDIAN/"
        "PACKING/CHARSET directives in between, one slot in twenty with a single statement of 300-960 bytes; "
        "arguments: integers at/around both field limits and values that fit again after truncation, literally "
        "or through symbols defined before/after use, floats (target-format values, exact ties, subnormals, max "
        "finite, overflow threshold), strings with all documented escapes, multi character constants, [n] "
        "repeats, nested DUP, ?; fixed families: every limit of every field width per statement kind, every "
        "finite half precision value and every tie between neighbours (127 000 values), regression inputs; "
        "non-trivial = a statement with a value at a field limit, a tie/subnormal/max float, a nested DUP, an "
        "inserted padding byte, a reservation, a remapped character, a multi character constant, a forward "
        "symbol or a rejected value; distinct by the set of (target, statement, size, endianness, feature)")
ASSUMPTIONS = [
    "words of word-granular targets (PIC16C84, AVR, TMS320C25) are stored least significant byte first in the "
    "code file (file-formats.md: multi-byte values are little endian)",
    "value of a PADDING byte is only checked on the MSP430 (manual: 'padded with a zero byte'); on 68000/6809 "
    "only its presence is required",
    "with PADDING ON an odd program counter at the end of a slot leaves the byte at that address and the "
    "counter (pc or pc+1) unchecked, and a byte-sized statement following an odd-length one in the same slot "
    "ends the checking of that slot: the DC section ('adds another byte if the byte sum becomes odd') and the "
    "PADDING section ('inserted before the 16 bit object') disagree there",
    "the default setting of PADDING is relied upon only for the 680x0 family (40 % of its programs carry no PADDING "
    "statement, most of them select another CPU family first), where the manual is explicit; every program for "
    "6809/MSP430 starts with an explicit PADDING ON/OFF (manual: 'by default only enabled for the 680x0 family'; behaviour and the golden "
    "tests t_msppad/t_avr8: also on for MSP430, 6809, 6805, TMS9900, AVR byte mode)",
    "DC/DS without attribute are only generated for the 68000 (DC section: default W; 6809: natural size B)",
    "floats above the largest finite value of the format that would still round to it are not generated "
    "(the manual does not say whether the range check is applied before or after rounding)",
    "infinities/NaN are not generated: the manual documents no way to write them",
    "zero in extended precision (DC.X, DT): sign and significand are compared, the exponent field is not (the "
    "golden images t_dc/t_dx store 0.0 with the exponent of 2^-1023)",
    "64 bit integer fields are only given values -2^63+1 .. 2^63-1 (range of the assembler's integers)",
    "not generated (manual silent or contradictory): strings and character constants as arguments of floating "
    "point fields and DT, 5-8 character constants in 64 bit fields, two-character constants in PIC DATA and in "
    "AVR DATA with PACKING ON, ? in BYT/FCB/ADR/FDB, counts <= 0 for [n]/DUP/DS/DFS/RES/BSS (except DS.x 0 = "
    "align for W/L/Q/S/D), ADR/FDB at odd addresses with PADDING ON on the 6809, WORD at odd addresses with "
    "PADDING OFF on the MSP430, floats in the COP8 aliases WORD/ADDRW, TMS320 BYTE, NUL characters in strings "
    "(documented as not portable), literal quote characters written as backslash-quote (the manual itself "
    "warns), symbols as repeat/DUP/reservation counts, source lines above 230 characters, DC.P, non-IEEE "
    "float formats (EFLOAT/BFLOAT/TFLOAT, Qxx, C3x/C4x, IBM, VAX)",
    "an out-of-range argument must yield error 1315 or 1320 (range underflow/overflow) on its line; mixing ? "
    "with constants and a float in an integer-only field must yield some error on the line",
    "after a rejected statement the program counter is unchanged (EXPECT section: 'naturally, without "
    "creating code at the erroneous places'); rejected statements are generated alone in a slot at an even "
    "address so that no padding interferes; bad values behind forward symbols are generated in programs "
    "whose rejected statements are all of that kind (errors of the first pass end the assembly)",
    "a label on a statement that receives a padding byte is only generated in single-pass programs (known "
    "pass livelock of property C01); runs killed by the CPU limit count as inconclusive",
    "MESSAGE prints in every pass; the value printed last (final pass) is the one checked",
]

FLAVOURS = ("plain", "asan")
ASAN_EVERY = 4            # every 4th case (by source digest) is assembled with the address sanitizer build as well
QUICK_SLOTS = (6, 26)
THOROUGH_SLOTS = (10, 40)


def budget(tier):
    return dict(examples=2400 if tier == "quick" else 36000, shards=16)


def prepare(tier):
    dm.selftest()


# ====================================================================== generator

TGT_WEIGHTS = [(5, "68000"), (3, "z80"), (3, "8051"), (3, "6809"), (2, "8086"), (2, "6502"), (3, "msp430"),
               (2, "16c84"), (4, "avr"), (2, "cop8"), (3, "320c25")]

OPS = {
    "68000": [(6, "dc"), (1, "ds")],
    "6809": [(3, "byt"), (1, "fcb"), (1, "byte"), (2, "adr"), (2, "fdb"), (2, "fcc"), (1, "dfs"), (1, "rmb"),
             (6, "dc"), (1, "ds")],
    "6502": [(3, "byt"), (2, "fcb"), (1, "byte"), (3, "adr"), (2, "fdb"), (2, "fcc"), (1, "dfs"), (1, "rmb")],
    "z80": [(4, "db"), (4, "dw"), (3, "dd"), (2, "dq"), (2, "dt"), (2, "dn"), (1, "ds"), (1, "defb"), (1, "defw")],
    "8086": [(4, "db"), (4, "dw"), (3, "dd"), (2, "dq"), (2, "dt"), (2, "dn"), (1, "ds")],
    "8051": [(3, "db"), (5, "dw"), (4, "dd"), (3, "dq"), (3, "dt"), (2, "dn"), (1, "ds")],
    "msp430": [(5, "byte"), (5, "word"), (1, "bss")],
    "16c84": [(8, "data"), (1, "res"), (1, "zero")],
    "avr": [(8, "data"), (1, "res"), (3, "db"), (2, "dw"), (2, "dd"), (1, "dq"), (1, "dt"), (2, "dn")],
    "cop8": [(3, "byte"), (3, "word"), (2, "addr"), (3, "addrw"), (1, "dsb"), (1, "dsw"), (2, "fb"), (2, "fw"),
             (2, "db"), (2, "dw"), (1, "dd"), (1, "dq"), (1, "dt"), (1, "ds")],
    "320c25": [(4, "word"), (4, "long"), (3, "float"), (3, "double"), (3, "string"), (3, "rstring"), (4, "data"),
               (1, "bss"), (1, "res")],
}
DC_SIZES = [(5, "B"), (5, "W"), (4, "L"), (2, "Q"), (4, "C"), (4, "S"), (3, "D"), (4, "X"), (1, "")]
DS_SIZES = [(3, "B"), (3, "W"), (2, "L"), (1, "Q"), (1, "S"), (1, "D"), (1, "X"), (1, "C"), (1, "")]
ESC_STYLES = ["named", "NAMED", "dec", "hex", "HEX", "oct", "x1"]
# other members of the same families (same pseudo instruction decoders, same address space)
CPU_VARIANTS = {
    "68000": ["68000", "68000", "68010", "68020", "68030", "68040"],
    "z80": ["z80", "z80", "z180", "z80undoc", "z380"],
    "8086": ["8086", "80186", "v30", "v35"],
    "8051": ["8051", "8051", "8052", "80c251", "80515", "80c390"],
    "6809": ["6809", "6809", "6309", "6811", "6801", "6800"],
    "6502": ["6502", "65c02", "65sc02", "melps740", "huc6280"],
    "msp430": ["msp430", "msp430x"],
}


def gen_int(d, bits, bad=False):
    lo, hi = dm.int_limits(bits)
    smax = (1 << (bits - 1)) - 1
    if bits == 64:
        lo, hi = -(1 << 63) + 1, (1 << 63) - 1
    if bad:
        v = d.weighted([(3, hi + 1), (3, lo - 1), (1, hi + d.int(2, 300)), (1, lo - d.int(2, 300)),
                        (1, 2 * hi + 1), (1, 2 * lo), (1, hi + (1 << bits)),
                        # in range again after a truncation to 32 / 16 / 8 bits
                        (2, (1 << 32) + d.int(0, min(hi, 0xffff))), (1, -(1 << 32) + d.int(lo, -1) if lo < -1 else (1 << 33)),
                        (1, (1 << 16) + d.int(0, min(hi, 255))), (1, (1 << 8) + d.int(0, min(hi, 15)))])
        if lo <= v <= hi:
            v = hi + 1
    else:
        k = d.weighted([(4, "lim"), (3, "rnd"), (2, "small")])
        if k == "lim":
            v = d.choice([lo, hi, smax, smax + 1, -1, lo + 1, hi - 1, smax - 1, 0, 1])
            v = min(max(v, lo), hi)
        elif k == "rnd":
            v = d.int(lo, hi)
        else:
            v = d.int(max(lo, -3), min(hi, 20))
    fmt = d.weighted([(5, "d"), (4, "h"), (1, "b"), (1, "o")])
    if fmt == "b" and abs(v) > 0xffff:
        fmt = "h"
    ctx = getattr(d, "ctx", None)
    if ctx is not None:
        # the value through a symbol: defined before use, or (forward) after use - then the first pass sees an
        # unknown value and only the final pass can apply the range check
        fwdbad = bad and ctx["badmode"] == "fwdsym"
        if fwdbad or (len(ctx["syms"]) < 12 and d.bool(0.12)):
            fwd = True if fwdbad else (False if bad else d.bool(0.6))
            ctx["syms"].append([v, fwd])
            return ["y", len(ctx["syms"]) - 1]
    return ["i", v, fmt]


def badmode(d):
    ctx = getattr(d, "ctx", None)
    return ctx["badmode"] if ctx else "literal"


def _bits2float(bits, fmt):
    return float(dm.ieee_value(bits, fmt))


def _nextafter(x, up):
    return math.nextafter(x, math.inf if up else -math.inf)


def gen_float(d, fmt, bad=False):
    """returns ["f", text]; fmt HALF/SINGLE/DOUBLE/'ext'"""
    if fmt == "ext":
        fam = d.weighted([(3, "dbl"), (3, "subn"), (2, "simple"), (2, "edge")])
        if fam == "subn":
            bits = d.weighted([(2, d.int(1, (1 << 52) - 1)), (1, 1 << d.int(0, 51)), (1, (1 << 52) - 1)])
            x = struct.unpack("<d", struct.pack("<Q", bits))[0]
        elif fam == "edge":
            x = d.choice([1.7976931348623157e308, 2.2250738585072014e-308, 5e-324, 1.0, 2.0 ** -1022 * 1.5,
                          2.0 ** 1023, 0.0, 4.450147717014403e-308])
        elif fam == "dbl":
            e = d.int(1, 2046)
            x = struct.unpack("<d", struct.pack("<Q", (e << 52) | d.int(0, (1 << 52) - 1)))[0]
        else:
            x = d.choice([1.0, 0.5, 3.0, 10.0, 0.1, 1234.5678, 1e10, 1e-10])
        if d.bool(0.3):
            x = -x
        return ["f", dm.fmt_float(x)]
    ebits, mbits = fmt
    nfin = ((1 << ebits) - 1) << mbits            # number of finite non-negative patterns
    maxf = dm.fmt_max(fmt)
    thr = dm.fmt_overflow_threshold(fmt)
    if bad:
        if fmt == DOUBLE:
            raise ValueError("no unrepresentable double literal exists")
        x = d.weighted([(3, float(thr)), (2, _nextafter(float(thr), True)), (2, float(thr) * 2.0),
                        (1, maxf * 16.0), (1, float(thr) * (1 + d.int(1, 1000) / 1000.0))])
        assert Fraction(x) >= thr
        if d.bool(0.4):
            x = -x
        return ["f", dm.fmt_float(x)]
    fam = d.weighted([(3, "exact"), (4, "half"), (3, "subn"), (2, "edge"), (2, "simple"), (2, "dbl")])
    if fam == "exact":
        x = _bits2float(d.int(0, nfin - 1), fmt)
    elif fam == "half":
        # exactly between two neighbouring values of the format (a tie), or one double ulp beside it
        p = d.weighted([(3, d.int(0, nfin - 2)), (2, d.int(0, (1 << mbits) + 2)), (1, nfin - 2)])
        lo_, hi_ = dm.ieee_value(p, fmt), dm.ieee_value(p + 1, fmt)
        mid = (lo_ + hi_) / 2
        x = float(mid)
        if fmt != DOUBLE and Fraction(x) == mid:
            x = d.weighted([(3, x), (2, _nextafter(x, True)), (2, _nextafter(x, False))])
        else:
            x = float(lo_)
    elif fam == "subn":
        p = d.weighted([(3, d.int(1, (1 << mbits) - 1)), (1, 1), (1, (1 << mbits) - 1), (1, 1 << mbits)])
        x = _bits2float(p, fmt)
        if fmt != DOUBLE:
            k = d.weighted([(3, "e"), (2, "below"), (2, "above"), (2, "tiny")])
            minsub = _bits2float(1, fmt)
            if k == "below":
                x = x - minsub * d.choice([0.25, 0.5, 0.75, 0.4999999999999, 0.5000000000001])
            elif k == "above":
                x = x + minsub * d.choice([0.25, 0.5, 0.75, 0.4999999999999, 0.5000000000001])
            elif k == "tiny":
                x = minsub * d.choice([0.5, 0.25, 0.5000000000000001, 0.49999999999999994, 1e-3, 0.75, 1.5])
    elif fam == "edge":
        x = d.choice([maxf, _nextafter(maxf, False), _bits2float(1 << mbits, fmt), 0.0, 1.0, 2.0,
                      _bits2float((1 << mbits) - 1, fmt), maxf / 2, 1e-7, 3.4e38 if fmt != HALF else 65503.0,
                      1.7e308 if fmt == DOUBLE else maxf, 1.75e308 if fmt == DOUBLE else maxf])
    elif fam == "dbl":
        # arbitrary double inside the range of the format
        emax = (1 << (ebits - 1)) - 1
        e = d.int(-emax - mbits - 3, emax - 1)
        x = math.ldexp(1.0 + d.int(0, (1 << 52) - 1) / float(1 << 52), e)
    else:
        x = d.choice([1.0, 0.5, 3.0, 10.0, 0.1, 100.0, 2.5, 0.001, 1000.0, 0.333])
    if abs(Fraction(x)) > Fraction(maxf):
        x = maxf
    if d.bool(0.3):
        x = -x
    return ["f", dm.fmt_float(x)]


def gen_tokens(d, n, allow_high=True):
    toks = []
    for _ in range(n):
        k = d.weighted([(8, "raw"), (1, "named"), (2, "num")])
        if k == "raw":
            toks.append(d.choice(dm.RAW_CHARS) if d.bool(0.3) else d.int(0x61, 0x7a))
        elif k == "named":
            toks.append([d.choice(sorted(dm.NAMED)), d.choice(["named", "NAMED"])])
        else:
            c = d.weighted([(3, d.int(1, 127)), (2, d.int(128, 255) if allow_high else d.int(1, 127)),
                            (1, d.choice([1, 9, 34, 39, 92, 123, 125, 127, 255 if allow_high else 126]))])
            toks.append([c, d.choice(ESC_STYLES)])
    return toks


def gen_string(d, maxlen=6, allow_high=True):
    return ["s", gen_tokens(d, d.int(1, maxlen), allow_high)]


def gen_charconst(d, fieldbytes, allow_high=True, avoid=()):
    """single quoted: one character, a multi character constant filling the field, or longer than the field"""
    n = d.weighted([(5, 1), (2, min(fieldbytes, 4)), (1, 2), (1, fieldbytes + 1), (1, 3)])
    n = max(1, min(n, 9))
    while n in avoid:
        n += 1
    return ["c", gen_tokens(d, n, allow_high)]


def _int_field_arg(d, bits, bad, strings=True, chars=True, high=True, avoid=()):
    """one argument for an integer field of `bits` bits"""
    if bad:
        return gen_int(d, bits, True)
    k = d.weighted([(7, "i"), (2 if strings else 0, "s"), (2 if chars else 0, "c")])
    if k == "s":
        return gen_string(d, 5, high)
    if k == "c":
        return gen_charconst(d, max(1, bits // 8), high, avoid)
    return gen_int(d, bits)


def gen_dc(d, sim, pc, bad, maxlen):
    st = sim.st
    szs = DC_SIZES
    if st.padding and (pc & 1):
        szs = [(w, s) for w, s in DC_SIZES if s != "B"] + [(1, "B")]
    sz = d.weighted(szs)
    if sz == "" and sim.fam != "moto16":
        sz = "W"
    size = dm.MOTO_SIZES[sz]
    ffmt = dm.MOTO_FLOAT.get(sz)
    if bad and (ffmt in (DOUBLE, "ext") or sz == "Q" or (ffmt and badmode(d) == "fwdsym")):
        sz, size, ffmt = d.choice(["W", "L", "B"]), None, None
        size = dm.MOTO_SIZES[sz]
    if bad == "mix":
        args = [["q"], gen_int(d, 8 * size if not ffmt else 8)]
        if d.bool():
            args.reverse()
        return dict(op="dc", sz=sz, args=args)
    if not bad and d.bool(0.07):
        return dict(op="dc", sz=sz, args=[["rep", d.int(1, 5), ["q"]] if d.bool() else ["q"] for _ in range(d.int(1, 3))])
    n = d.int(1, 5)
    badpos = d.int(0, n - 1) if bad else -1
    args = []
    for i in range(n):
        b = i == badpos
        if ffmt:
            if b and bad == "type":
                b = False
            if ffmt == "ext" or ffmt == DOUBLE:
                a = gen_float(d, ffmt) if d.bool(0.9) else ["i", d.int(-1000, 1000), "d"]
            else:
                a = gen_float(d, ffmt, b) if (b or d.bool(0.9)) else ["i", d.int(-100, 100), "d"]
        elif b and bad == "type":
            a = ["f", d.choice(["1.5", "0.25", "2.0e3"])]
        else:
            a = _int_field_arg(d, 8 * size, b, avoid=(5, 6, 7, 8) if size == 8 else ())
        if d.bool(0.15):
            a = ["rep", d.int(1, 4), a]
        args.append(a)
    return dict(op="dc", sz=sz, args=args)


def gen_ds(d, sim, pc):
    sz = d.weighted(DS_SIZES)
    if sz == "" and sim.fam != "moto16":
        sz = "W"
    if sz in ("W", "L", "Q", "S", "D", "") and d.bool(0.35):
        n = 0
    else:
        n = d.int(1, 6)
    return dict(op="ds", sz=sz, args=[["i", n, "d"]])


def gen_moto8(d, sim, op, bad):
    st = sim.st
    if op in ("dfs", "rmb"):
        return dict(op=op, sz="", args=[["i", d.int(1, 40), d.choice(["d", "h"])]])
    n = d.int(1, 5)
    badpos = d.int(0, n - 1) if bad else -1
    args = []
    for i in range(n):
        b = i == badpos
        if op == "fcc":
            a = gen_string(d, 8)
        elif b and bad == "type":
            a = ["f", d.choice(["1.5", "0.25", "2.0e3"])]
        else:
            a = _int_field_arg(d, 8 if op in ("byt", "fcb", "byte") else 16, b)
        if d.bool(0.2):
            a = ["rep", d.int(1, 4), a]
        args.append(a)
    return dict(op=op, sz="", args=args)


def gen_intel_args(d, bits, n, depth, bad, res=False, nofloat=False):
    """argument list for DN/DB/DW/DD/DQ/DT; exactly one bad leaf if bad"""
    badpos = d.int(0, n - 1) if bad else -1
    args = []
    for i in range(n):
        b = bad if i == badpos else False
        if depth < 2 and d.bool(0.22 if depth == 0 else 0.3):
            cnt = d.weighted([(4, d.int(1, 4)), (1, d.int(5, 9))])
            args.append(["dup", cnt, gen_intel_args(d, bits, d.int(1, 3), depth + 1, b, res, nofloat)])
            continue
        if res:
            args.append(["q"])
            continue
        ffmt = dm.INTEL_FLOAT.get(bits) if not nofloat else None
        if b == "type":
            args.append(["f", d.choice(["1.5", "0.25", "2.0e3"])])
        elif bits == 80:
            args.append(gen_float(d, "ext") if d.bool(0.85) else ["i", d.int(-1000, 1000), "d"])
        elif bits == 4:
            args.append(gen_int(d, 4, bool(b)))
        elif ffmt and ((b and ffmt != DOUBLE and badmode(d) != "fwdsym" and d.bool(0.4)) or (not b and d.bool(0.4))):
            args.append(gen_float(d, ffmt, bool(b)))
        elif bits == 64 and b:
            args.append(gen_int(d, 64))          # no out-of-range 64 bit literal exists
        else:
            args.append(_int_field_arg(d, bits, bool(b), avoid=(5, 6, 7, 8) if bits == 64 else ()))
    return args


def gen_intel(d, sim, op, bad):
    if op in ("ds", "dsb", "dsw"):
        return dict(op=op, sz="", args=[["i", d.int(1, 30), d.choice(["d", "h"])]])
    if op in ("fb", "fw"):
        bits = 8 if op == "fb" else 16
        v = ["f", "1.5"] if bad == "type" else gen_int(d, bits, bool(bad))
        return dict(op=op, sz="", args=[["i", d.int(1, 20), d.choice(["d", "h"])], v])
    bits = dm.INTEL_BITS[op]
    if bad == "type" and bits > 8:
        bad = "range"
    if bad and bits in (64, 80):
        op, bits = "dw", 16
    if bad == "mix":
        args = [["q"], gen_int(d, bits)]
        if d.bool():
            args = [gen_int(d, bits), ["dup", 2, [["q"]]]]
        return dict(op=op, sz="", args=args)
    res = (not bad) and d.bool(0.08)
    return dict(op=op, sz="", args=gen_intel_args(d, bits, d.int(1, 4), 0, bad, res,
                                                  nofloat=op in dm.COP8_ENDIAN))


def gen_msp(d, sim, pc, op, bad):
    if op == "bss":
        return dict(op=op, sz="", args=[["i", d.int(1, 40), d.choice(["d", "h"])]])
    n = d.int(1, 5)
    badpos = d.int(0, n - 1) if bad else -1
    args = []
    for i in range(n):
        b = i == badpos
        if b and bad == "type":
            args.append(["f", "1.5"])
        elif op == "byte":
            args.append(_int_field_arg(d, 8, b))
        else:
            args.append(gen_int(d, 16, b))
    return dict(op=op, sz="", args=args)


def gen_wordy(d, sim, op, bad):
    """PIC / AVR DATA, RES, ZERO"""
    if op in ("res", "zero"):
        return dict(op=op, sz="", args=[["i", d.int(1, 12), d.choice(["d", "h"])]])
    pic = sim.fam == "pic"
    bits = 14 if pic else (8 if sim.st.packing else 16)
    n = d.int(1, 5)
    badpos = d.int(0, n - 1) if bad else -1
    args = []
    for i in range(n):
        b = i == badpos
        if b and bad == "type":
            args.append(["f", "1.5"])
        else:
            avoid = (2,) if (pic or sim.st.packing) else ()
            a = _int_field_arg(d, bits, b, high=True, avoid=avoid)
            if a[0] == "c" and not pic and not sim.st.packing and len(a[1]) > 2 and d.bool(0.5):
                a = ["c", a[1][:d.int(1, 2)]]
            args.append(a)
    return dict(op="data", sz="", args=args)


def gen_ti(d, sim, op, bad):
    """TMS320C25"""
    if op in ("bss", "res"):
        return dict(op=op, sz="", args=[["i", d.int(1, 30), d.choice(["d", "h"])]])
    n = d.int(1, 5)
    badpos = d.int(0, n - 1) if bad else -1
    args = []
    for i in range(n):
        b = i == badpos
        if op in ("float", "double"):
            fmt = SINGLE if op == "float" else DOUBLE
            if b and (bad == "type" or fmt == DOUBLE):
                b = False
            args.append(gen_float(d, fmt, b) if (b or d.bool(0.9)) else ["i", d.int(-1000, 1000), "d"])
        elif b and bad == "type":
            args.append(["f", "1.5"])
        elif op in ("word", "long"):
            a = gen_int(d, 16 if op == "word" else 32, b)
            args.append(a)
        elif op in ("string", "rstring"):
            args.append(_int_field_arg(d, 8, b))
        else:
            args.append(_int_field_arg(d, 16, b))
    return dict(op=op, sz="", args=args)


def gen_stmt(d, sim, pc, bad):
    """bad: False | 'range' | 'mix' | 'type'"""
    tgt = sim.st.tgt
    fam = sim.fam
    ops = OPS[tgt]
    if bad:
        ops = [(w, o) for w, o in ops if o not in ("ds", "dfs", "rmb", "bss", "res", "zero", "fcc", "dsb", "dsw",
                                                   "double")]
        if bad == "range" and badmode(d) == "fwdsym":
            ops = [(w, o) for w, o in ops if o not in ("dq", "dt", "float", "double")]
    if fam == "msp" and (pc & 1) and not sim.st.padding:
        ops = [(w, o) for w, o in ops if o != "word"]
    if fam == "moto8+16" and sim.st.padding and (pc & 1):
        ops = [(w, o) for w, o in ops if o not in ("adr", "fdb")]
    if sim.st.padding and (pc & 1) and not bad:
        # odd address with PADDING ON: the settled continuation is a padded (>= 16 bit) object
        if fam in ("moto16", "moto8+16"):
            ops = [(w * (8 if o in ("dc", "ds") else 1), o) for w, o in ops]
        elif fam == "msp":
            ops = [(w * (8 if o == "word" else 1), o) for w, o in ops]
    op = d.weighted(ops)
    if bad == "mix" and not (op == "dc" or (fam in ("intel", "avr") and op in dm.INTEL_BITS)):
        bad = "range"
    if fam == "ti":
        return gen_ti(d, sim, op, bad)
    if op == "dc":
        return gen_dc(d, sim, pc, bad, sim.t["maxlen"])
    if op == "ds" and fam in ("moto16", "moto8+16"):
        return gen_ds(d, sim, pc)
    if fam in ("moto8", "moto8+16"):
        return gen_moto8(d, sim, op, bad)
    if fam == "intel" or (fam == "avr" and op not in ("data", "res")):
        return gen_intel(d, sim, op, bad)
    if fam == "msp":
        return gen_msp(d, sim, pc, op, bad)
    return gen_wordy(d, sim, op, bad)


def gen_big(d, sim, pc):
    """one statement that lays down several hundred bytes (the manual allows up to 1 KByte per line) by means of
    a large repeat count / DUP"""
    fam = sim.fam
    t = sim.t
    units = d.int(t["bigmax"] // 3, t["bigmax"])
    if fam in ("moto16", "moto8+16", "moto8"):
        if fam == "moto8" or (fam == "moto8+16" and d.bool(0.5)):
            op, sz = d.choice([("byt", 1), ("fcb", 1), ("adr", 2), ("fdb", 2), ("fcc", 1)]), ""
            op, size = op
            if sim.st.padding and size == 2 and (pc & 1):
                op, size = "fcb", 1
        else:
            sz = d.choice(["B", "W", "L", "Q", "S", "D", "X", "C"])
            op, size = "dc", dm.MOTO_SIZES[sz]
        if op == "fcc" or (op in ("byt", "fcb", "dc") and size <= 4 and d.bool(0.4)):
            a = gen_string(d, 9) if d.bool() or op == "fcc" else ["c", gen_tokens(d, d.int(size + 1, 9))]
            if op == "dc" and sz in dm.MOTO_FLOAT:
                a = gen_float(d, dm.MOTO_FLOAT[sz])
            per = size * (len(a[1]) if a[0] in ("s", "c") else 1)
        elif op == "dc" and sz in dm.MOTO_FLOAT:
            a, per = gen_float(d, dm.MOTO_FLOAT[sz]), size
        else:
            a, per = gen_int(d, 8 * size), size
        return dict(op=op, sz=sz if op == "dc" else "", args=[["rep", max(1, units // per), a]])
    if fam in ("intel", "avr"):
        if sim.st.tgt == "cop8":
            return None
        op = d.choice(["db", "dw", "dd", "dq", "dt", "dn", "dn", "db"])
        bits = dm.INTEL_BITS[op]
        inner = gen_intel_args(d, bits, d.int(1, 3), 1, False)
        stmt = dict(op=op, sz="", args=[["dup", 1, inner]])
        try:
            one = dm.layout_len(sim.layout(stmt, pc))
        except (Invalid, Unsettled):
            return None
        n = len(dm.Sim._intel_elems(sim, inner, bits)) if bits == 4 else None
        if bits == 4:
            cnt = max(1, (units * (2 if t["gran"] == 1 else 4)) // max(1, n))
        else:
            cnt = max(1, units // max(1, one))
        stmt["args"][0][1] = cnt
        return stmt
    return None


def gen_directive(d, sim):
    t = sim.t
    opts = [(4, "charset")]
    if t.get("has_padding"):
        opts.append((4, "padding"))
    if t.get("has_bigendian"):
        opts.append((6, "bigendian"))
    if t.get("has_packing"):
        opts.append((6, "packing"))
    k = d.weighted(opts)
    if k == "padding":
        return dict(dir="padding", on=not sim.st.padding if d.bool(0.8) else sim.st.padding)
    if k == "bigendian":
        return dict(dir="bigendian", on=not sim.st.big if d.bool(0.8) else sim.st.big)
    if k == "packing":
        return dict(dir="packing", on=not sim.st.packing if d.bool(0.8) else sim.st.packing)
    form = d.weighted([(3, "range"), (3, "one"), (2, "str"), (1, "reset"), (1, "file"), (3, "codepage")])
    if form == "file":
        return dict(dir="charset", op=["file", d.choice([1, 3, 5, 7, 129, 255]), d.int(0, 255)])
    if form == "codepage":
        names = sorted(sim.st.pages)
        name = d.choice(["STANDARD", "CPA", "CPB", "CPC"])
        di = dict(dir="codepage", name=name)
        if d.bool(0.4):
            di["src"] = d.choice(names)
        return di
    if form == "reset":
        return dict(dir="charset", op=["reset"])
    if form == "one":
        return dict(dir="charset", op=["one", d.int(0x61, 0x7a) if d.bool(0.7) else d.int(1, 255), d.int(0, 255)])
    if form == "range":
        a = d.int(0x61, 0x76) if d.bool(0.7) else d.int(1, 250)
        b = min(255, a + d.int(0, 12))
        ts = d.int(0, 255 - (b - a))
        return dict(dir="charset", op=["range", a, b, ts])
    a = d.int(0x61, 0x76) if d.bool(0.7) else d.int(1, 240)
    return dict(dir="charset", op=["str", a, bytes(d.int(1, 255) for _ in range(d.int(1, 5))).hex()])


def fit(sim, stmt, pc, maxlen):
    """construction, not rejection: shorten the statement until it fits the room left in its slot"""
    for _ in range(64):
        try:
            n = dm.layout_len(sim.layout(stmt, pc))
        except Invalid:
            if len(render_stmt(stmt, sim.t["syntax"], False)) <= 230 or len(stmt["args"]) <= 1:
                return stmt                  # lays down nothing
            stmt["args"].pop()
            continue
        except Unsettled:
            n = maxlen + 1                   # never leave a statement of unknown length in a slot
            stmt["args"] = stmt["args"][:1]
        if n <= maxlen and len(render_stmt(stmt, sim.t["syntax"], False)) <= 230:
            return stmt                      # (source lines are limited to 255 characters)
        if len(stmt["args"]) > 1:
            stmt["args"].pop()
            continue
        a = stmt["args"][0]
        if a[0] == "dup" and (a[1] > 1 or len(a[2]) > 1):
            stmt["args"][0] = ["dup", 1, a[2][:1]]
        elif a[0] == "rep" and a[1] > 1:
            stmt["args"][0] = ["rep", 1, a[2]]
        elif a[0] in ("s", "c") and len(a[1]) > 1:
            stmt["args"][0] = [a[0], a[1][:1]]
        else:
            stmt["args"][0] = ["q"] if dm._leaf_kinds([a], set()) == {"res"} else ["i", 1, "d"]
    return stmt


@composite
def strategy_(d, tier):
    if d.int(0, 99) < 10:
        return nonieee.generate(d)          # IBM/360, TMS320C3x/C4x and Qxx/LQxx formats (vf/nonieee.py)
    tgt = d.weighted(TGT_WEIGHTS)
    syms = []
    sim = Sim(tgt, syms)
    t = sim.t
    d.ctx = dict(syms=syms, badmode=d.weighted([(5, "literal"), (2, "fwdsym")]))
    lo, hi = QUICK_SLOTS if tier == "quick" else THOROUGH_SLOTS
    nslots = d.int(lo, hi)
    items = []
    precpu = None
    if tgt == "68000" and d.bool(0.4):
        # 680x0: PADDING is documented to be on by default ("by default only enabled for the 680x0 family") - also
        # when another family, which has it off, was selected earlier in the same source
        precpu = d.choice([None, "6811", "6809", "z80", "8051", "6502", "hd6413309", "sh7000", "st7"])
    elif t.get("has_padding"):
        # the default of PADDING is never relied upon (manual and behaviour disagree for non-680x0 targets)
        di = dict(dir="padding", on=d.bool(0.6))
        sim.st.directive(di)
        items.append(di)
    if d.bool(0.35):
        for _ in range(d.int(1, 2)):
            di = gen_directive(d, sim)
            sim.st.directive(di)
            items.append(di)
    idx = 0
    for _ in range(nslots):
        if d.bool(0.12):
            di = gen_directive(d, sim)
            sim.st.directive(di)
            items.append(di)
        start = t["base"] + idx * t["slot"]
        idx += 1
        if d.bool(0.1):
            bad = d.weighted([(6, "range"), (1, "mix"), (1, "type")])
            if d.ctx["badmode"] == "fwdsym":
                bad = "range"
            stmt = fit(sim, gen_stmt(d, sim, start, bad), start, t["maxlen"])
            items.append(dict(odd=0, stmts=[stmt]))
            continue
        odd = 1 if (t["gran"] == 1 and d.bool(0.3 if t.get("has_padding") else 0.1)) else 0
        pc = start + odd
        limit = start + t["slot"]
        if t.get("bigmax") and d.bool(0.05):
            stmt = gen_big(d, sim, pc)
            if stmt:
                items.append(dict(odd=odd, stmts=[fit(sim, stmt, pc, t["bigmax"])]))
                continue
        stmts = []
        for _ in range(d.weighted([(5, 1), (4, 2), (2, 3)])):
            room = limit - pc - 2
            if room < t.get("minroom", 0x28):
                break
            stmt = fit(sim, gen_stmt(d, sim, pc, False), pc, min(t["maxlen"], room))
            if d.bool(0.15):
                stmt["lab"] = 1
            stmts.append(stmt)
            try:
                pc += dm.layout_len(sim.layout(stmt, pc))
            except (Invalid, Unsettled):
                break
        items.append(dict(odd=odd, stmts=stmts))
    cpu = d.choice(CPU_VARIANTS[tgt]) if tgt in CPU_VARIANTS else t["cpu"]
    case = dict(tgt=tgt, cpu=cpu, upper=d.bool(0.3), syms=syms, items=items)
    if precpu:
        case["precpu"] = precpu
    return case


def strategy(tier):
    return strategy_(tier)


# ====================================================================== rendering

def render_arg(a, syntax, upper):
    k = a[0]
    if k == "i":
        return dm.render_int(a[1], a[2], syntax)
    if k == "f":
        return a[1]
    if k == "y":
        return "zq%d" % a[1]
    if k == "s":
        return dm.render_string(a[1], '"')
    if k == "c":
        return dm.render_string(a[1], "'")
    if k == "q":
        return "?"
    if k == "rep":
        return "[%s]%s" % (dm.render_int(a[1], "d", syntax), render_arg(a[2], syntax, upper))
    if k == "dup":
        kw = "DUP" if upper else "dup"
        return "%s %s (%s)" % (dm.render_int(a[1], "d", syntax), kw,
                               ",".join(render_arg(x, syntax, upper) for x in a[2]))
    raise ValueError(a)


def render_stmt(stmt, syntax, upper):
    op = stmt["op"] + ("." + stmt["sz"] if stmt.get("sz") else "")
    op = op.upper() if upper else op.lower()
    return "\t%s\t%s" % (op, ",".join(render_arg(a, syntax, upper) for a in stmt["args"]))


def render_directive(di, syntax):
    k = di["dir"]
    if k in ("padding", "bigendian", "packing"):
        return "\t%s\t%s" % (k, "on" if di["on"] else "off")
    if k == "codepage":
        return "\tcodepage\t%s%s" % (di["name"], "," + di["src"] if di.get("src") else "")
    op = di["op"]
    if op[0] == "file":
        return "\tcharset\t\"cs%d_%d.tab\"" % (op[1], op[2])
    if op[0] == "reset":
        return "\tcharset"
    if op[0] == "one":
        return "\tcharset\t%d,%d" % (op[1], op[2])
    if op[0] == "range":
        return "\tcharset\t%d,%d,%d" % (op[1], op[2], op[3])
    toks = [[c, "hex"] if (c not in dm.RAW_CHARS) else c for c in bytes.fromhex(op[2])]
    return "\tcharset\t%d,%s" % (op[1], dm.render_string(toks, '"'))


# ====================================================================== analysis (model) of a case

class Plan:
    """source text + expectations for one assembler run"""

    def __init__(self):
        self.lines = []
        self.mem = {}            # byte address -> value
        self.anyval = set()      # addresses that must be present, value not settled
        self.masks = {}          # address -> bits that are compared (default all)
        self.dontcare = set()    # addresses not compared at all
        self.pcs = {}            # slot index -> set of acceptable program counters (absent: not checked)
        self.labs = {}           # label name -> expected value
        self.errlines = {}       # line number -> kind of the demanded error
        self.errslot = {}        # line number -> slot index
        self.tags = []           # class labels (one per statement feature)
        self.nt = set()          # non-trivial feature keys
        self.unsettled = 0
        self.nstmts = 0


def stmt_tags(tgt, st, stmt, elems, pc, syms=()):
    """class labels / non-trivial features of a valid statement"""
    tags, nt = [], []
    op = stmt["op"].lower() + ("." + stmt["sz"].upper() if stmt.get("sz") else "")
    end = "be" if st.big else "le"
    tags.append("op:" + op)
    sizes = {"dn": 4, "db": 8, "defb": 8, "dw": 16, "defw": 16, "dd": 32, "dq": 64, "byt": 8, "fcb": 8,
             "byte": 8, "adr": 16, "fdb": 16, "word": 16, "addr": 8, "addrw": 16, "long": 32, "string": 8,
             "rstring": 8, "fb": 8, "fw": 16}
    bits = sizes.get(stmt["op"].lower())
    if stmt["op"].lower() == "dc":
        bits = 8 * dm.MOTO_SIZES[stmt["sz"].upper()] if stmt["sz"].upper() not in dm.MOTO_FLOAT else None
    if stmt["op"].lower() == "data":
        bits = 14 if tgt == "16c84" else (8 if st.packing else 16)
    ffm = {"float": SINGLE, "double": DOUBLE}.get(stmt["op"].lower()) if tgt == "320c25" else None

    def walk(args, depth):
        for a in args:
            k = a[0]
            if k == "dup":
                tags.append("dup")
                if depth >= 1:
                    tags.append("dup-nested")
                    nt.append("nested-dup")
                walk(a[2], depth + 1)
            elif k == "rep":
                tags.append("rep")
                walk([a[2]], depth)
            elif k == "q":
                tags.append("arg:?")
            elif k in ("i", "y"):
                tags.append("arg:int")
                if k == "y":
                    a = ["i", syms[a[1]][0], "d", "fwd" if syms[a[1]][1] else "back"]
                    tags.append("arg:symbol-" + a[3])
                    if a[3] == "fwd":
                        nt.append("fwdsym")
                if bits and bits < 64:
                    lo, hi = dm.int_limits(bits)
                    smax = (1 << (bits - 1)) - 1
                    for name, val in (("min", lo), ("umax", hi), ("smax", smax), ("smax+1", smax + 1), ("-1", -1)):
                        if a[1] == val:
                            tags.append("int-limit")
                            nt.append("lim:" + name)
            elif k == "f":
                tags.append("arg:float")
                x = float(a[1])
                fm = None
                o = stmt["op"].lower()
                if ffm:
                    fm = ffm
                elif o == "dc":
                    fm = dm.MOTO_FLOAT.get(stmt["sz"].upper())
                elif o in dm.INTEL_BITS:
                    fm = dm.INTEL_FLOAT.get(dm.INTEL_BITS[o])
                if fm == "ext":
                    if x != 0 and abs(x) < 2.2250738585072014e-308:
                        tags.append("float-ext-subnormal-double")
                        nt.append("ext-subn")
                elif fm:
                    try:
                        b = dm.ieee_bits(x, fm)
                    except Invalid:
                        continue
                    v = dm.ieee_value(b & ~(1 << (fm[0] + fm[1])), fm)
                    ax = abs(Fraction(x))
                    if v != ax:
                        tags.append("float-inexact")
                        ulp_lo = dm.ieee_value(max(0, (b & ~(1 << (fm[0] + fm[1]))) - 1), fm)
                        if abs(ax - v) * 2 == abs(v - ulp_lo) or (b & ((1 << fm[1]) - 1)) == 0 and abs(ax - v) * 4 == abs(v - ulp_lo):
                            tags.append("float-tie")
                            nt.append("tie")
                    if ((b >> fm[1]) & ((1 << fm[0]) - 1)) == 0 and ax != 0:
                        tags.append("float-subnormal-result")
                        nt.append("subn")
                    if ax == Fraction(dm.fmt_max(fm)):
                        tags.append("float-max")
                        nt.append("fmax")
            elif k == "s":
                tags.append("arg:string")
                if any(not isinstance(t, int) for t in a[1]):
                    tags.append("string-escape")
                if not st.cmap.identity() and st.cmap.map(dm.str_codes(a[1])) != dm.str_codes(a[1]):
                    tags.append("charset-remapped")
                    nt.append("charset")
            elif k == "c":
                tags.append("arg:char%d" % min(len(a[1]), 5))
                if len(a[1]) > 1:
                    nt.append("multichar")
                if not st.cmap.identity() and st.cmap.map(dm.str_codes(a[1])) != dm.str_codes(a[1]):
                    tags.append("charset-remapped")
                    nt.append("charset")
    walk(stmt["args"], 0)
    if any(e[0] == "pad" for e in elems):
        tags.append("padding-inserted")
        nt.append("pad")
    if all(e[0] in ("r", "rw", "pad") for e in elems):
        tags.append("reservation")
        nt.append("reserve")
    if TARGETS[tgt]["gran"] == 2 and stmt["op"].lower() in ("data", "db", "dn"):
        tags.append("packed-units")
    return tags, ["%s|%s|%s|%s" % (tgt, op, end, f) for f in nt]


def analyse(case, drop_invalid):
    tgt = case["tgt"]
    t = TARGETS[tgt]
    syms = case.get("syms") or []
    sim = Sim(tgt, syms)
    st = sim.st
    syntax, upper = t["syntax"], case.get("upper", False)
    pl = Plan()
    L = pl.lines
    multipass = any(f for _, f in syms)
    if case.get("precpu"):
        L.append("\tcpu\t" + case["precpu"])
        pl.tags.append("680x0-after-other-family-default-padding")
    L.append("\tcpu\t" + (case.get("cpu") or t["cpu"]))
    for i, (v, fwd) in enumerate(syms):
        if not fwd:
            L.append("zq%d\tequ\t%d" % (i, v))
    idx = 0
    for it in case["items"]:
        if "dir" in it:
            st.directive(it)
            L.append(render_directive(it, syntax))
            if it["dir"] == "codepage":
                pl.tags.append("codepage-switch")
            elif it["dir"] == "charset" and it["op"][0] == "file":
                pl.tags.append("charset-from-file")
            continue
        start = t["base"] + idx * t["slot"]
        limit = start + t["slot"]
        pc = start + (it.get("odd") or 0)
        L.append("\torg\t" + dm.render_int(pc, "h", syntax))
        settled = True
        labs = []
        stmts = it["stmts"]
        for si, stmt in enumerate(stmts):
            pl.nstmts += 1
            try:
                elems = sim.layout(stmt, pc) if settled else None
            except Invalid as e:
                pl.tags.append("invalid:" + e.kind)
                pl.nt.add("%s|%s|invalid:%s" % (tgt, stmt["op"], e.kind))
                if drop_invalid:
                    continue
                L.append(render_stmt(stmt, syntax, upper))
                pl.errlines[len(L)] = e.kind
                pl.errslot[len(L)] = idx
                # settled only if nothing could have been inserted before the rejection and nothing follows
                if si != len(stmts) - 1 or ((pc & 1) and st.padding):
                    settled = False
                    pl.unsettled += 1
                continue
            except Unsettled:
                settled = False
                pl.unsettled += 1
                pl.tags.append("unsettled-statement")
                elems = None
            text = render_stmt(stmt, syntax, upper)
            padded = bool(elems) and elems[0][0] == "pad"
            if stmt.get("lab") and multipass and (padded or not settled):
                # a label moved by a padding byte never converges when a second pass is needed (known pass
                # livelock, property C01: label entered at the odd address before the fix-up)
                pl.tags.append("label-dropped")
            elif stmt.get("lab"):
                name = "lb%d_%d" % (idx, si)
                text = name + ":" + text
                labs.append(name)
                if settled:
                    # PADDING: "the label still points to the address of the code or data object, i.e. right
                    # behind the pad byte"
                    pl.labs[name] = pc + (1 if elems and elems[0][0] == "pad" else 0)
                    pl.tags.append("label")
            L.append(text)
            if not settled:
                continue
            tg, nt = stmt_tags(tgt, st, stmt, elems, pc, syms)
            pl.tags += tg
            pl.nt.update(nt)
            pc = sim.place(elems, pc, pl.mem, pl.anyval, pl.masks)
            if pc > limit:
                raise AssertionError("statement overflows its slot (generator bug)")
            # PADDING ON, odd counter, next statement not padded: DC and PADDING sections disagree
            if st.padding and (pc & 1) and t["gran"] == 1 and si + 1 < len(stmts):
                try:
                    nxt = sim.layout(stmts[si + 1], pc)
                    if not (nxt and nxt[0][0] == "pad"):
                        settled = False
                        pl.unsettled += 1
                        pl.tags.append("unsettled-odd-continuation")
                except (Invalid, Unsettled):
                    pass
        if settled:
            if st.padding and (pc & 1) and t["gran"] == 1:
                pl.dontcare.add(pc)
                pl.pcs[idx] = {pc, pc + 1}
            else:
                pl.pcs[idx] = {pc}
        else:
            g = t["gran"]
            for a in range(pc * g, limit * g):
                pl.dontcare.add(a)
        L.append('\tmessage\t"P%d=\\{%s}"' % (idx, t["pc"]))
        for name in labs:
            L.append('\tmessage\t"%s=\\{%s}"' % (name.upper(), name))
        idx += 1
    for i, (v, fwd) in enumerate(syms):
        if fwd:
            L.append("zq%d\tequ\t%d" % (i, v))
    return pl


# ====================================================================== execution

PC_RE = re.compile(r"^P(\d+)=([0-9A-Fa-f]+)\s*$", re.M)
LAB_RE = re.compile(r"^(LB\d+_\d+)=([0-9A-Fa-f]+)\s*$", re.M)


TAB_RE = re.compile(r'charset\t"cs(\d+)_(\d+)\.tab"')


def plan_files(src):
    """the translation table files a program names (CHARSET "file")"""
    files = {"t.asm": src}
    for m in TAB_RE.finditer(src):
        files["cs%s_%s.tab" % m.groups()] = dm.charset_file(int(m.group(1)), int(m.group(2)))
    return files


def run_plan(pl):
    src = "\n".join(pl.lines) + "\n"
    r = asl.assemble(plan_files(src), args=("-n",))
    return src, r


def asan_witness(src, r):
    """second witness: the same program through the ASan+bounds build.  Returns None or a failure text.
    (Statements that overrun the code buffer corrupt the heap silently in the plain build.)"""
    if int(engine.digest(src), 16) % ASAN_EVERY:
        return None
    r2 = asl.assemble(plan_files(src), args=("-n",), flavour="asan", timeout=60.0)
    if r2.timed_out or r2.signal in (24, 9):
        return None
    if r2.status == 77 or "AddressSanitizer" in r2.err or "runtime error" in r2.err or r2.signal:
        m = re.search(r"(ERROR: AddressSanitizer[^\n]*|[^\n]*runtime error[^\n]*)", r2.err)
        frames = re.findall(r"#\d+ 0x[0-9a-f]+ in (\S+) [^\n]*/([^/\n:]+:\d+)", r2.err)[:4]
        return "sanitizer build: %s %s" % (m.group(1) if m else "signal %s status %s" % (r2.signal, r2.status),
                                          " <- ".join("%s %s" % f for f in frames))
    if r2.status != r.status:
        return "sanitizer build exits with status %s, plain build with %s" % (r2.status, r.status)
    if (r.p is None) != (r2.p is None):
        return "sanitizer build and plain build disagree on the existence of the code file"
    if r.p is not None:
        try:
            a = [x for x in r.records() if x["kind"] != "creator"]
            b = [x for x in r2.records() if x["kind"] != "creator"]
        except Exception:
            return None
        if a != b:
            return "sanitizer build lays down different bytes than the plain build (uninitialised data?)"
    return None


def compare_bytes(pl, r, gran):
    """returns None or (why, detail)"""
    try:
        recs = r.records()
    except Exception as e:               # pfile.FormatError: malformed code file
        return "code file does not parse: %s" % e, {}
    got = {}
    for rec in recs:
        if rec["kind"] != "data":
            continue
        if rec["seg"] != 1:
            return "record in segment %d" % rec["seg"], {}
        if rec["gran"] != gran:
            return "record granularity %d, expected %d" % (rec["gran"], gran), {}
        base = rec["addr"] * rec["gran"]
        for k, b in enumerate(rec["data"]):
            if base + k in got:
                return "byte address %x written twice" % (base + k), {}
            got[base + k] = b
    for a in sorted(pl.mem):
        if a in pl.dontcare:
            continue
        if a not in got:
            return ("no byte at address %x (expected %02x)" % (a // gran, pl.mem[a]),
                    dict(addr=a, around_expected=_around(pl.mem, a), around_got=_around(got, a)))
        if a not in pl.anyval and (got[a] ^ pl.mem[a]) & pl.masks.get(a, 0xff):
            return ("byte at address %x is %02x, expected %02x" % (a // gran, got[a], pl.mem[a]),
                    dict(addr=a, around_expected=_around(pl.mem, a), around_got=_around(got, a)))
    for a in sorted(got):
        if a not in pl.mem and a not in pl.dontcare:
            return ("unexpected byte %02x at address %x" % (got[a], a // gran),
                    dict(addr=a, around_expected=_around(pl.mem, a), around_got=_around(got, a)))
    return None


def _around(m, a, n=12):
    return " ".join("%02x" % m[x] if x in m else "--" for x in range(a - n, a + n))


def src_line_of(pl, a, case):
    return None


def check_pcs(pl, out):
    seen = {}
    for m in PC_RE.finditer(out):
        seen[int(m.group(1))] = {int(m.group(2), 16)}      # MESSAGE prints in every pass: the last pass counts
    for idx, acc in sorted(pl.pcs.items()):
        if idx not in seen:
            return "program counter probe P%d missing from the output" % idx
        if not seen[idx] <= acc:
            return ("program counter after slot %d is %s, expected %s"
                    % (idx, "/".join("%x" % v for v in sorted(seen[idx])), "/".join("%x" % v for v in sorted(acc))))
    labs = {}
    for m in LAB_RE.finditer(out):
        labs[m.group(1).lower()] = int(m.group(2), 16)
    for name, v in sorted(pl.labs.items()):
        if name not in labs:
            return "value of label %s missing from the output" % name
        if labs[name] != v:
            return "label %s on a data statement has the value %x, expected %x" % (name, labs[name], v)
    return None


def _log_inconclusive(case, src):
    """development aid: C09_LOG_INCONCLUSIVE=<file> collects the programs that hit the CPU limit"""
    import os
    fn = os.environ.get("C09_LOG_INCONCLUSIVE")
    if fn:
        with open(fn, "a") as f:
            f.write(src + "\n;;;;;;;;\n")


def execute(case):
    if case.get("kind") == "nonieee":
        return nonieee.execute(case)
    tgt = case["tgt"]
    gran = TARGETS[tgt]["gran"]
    classes = ["tgt:" + tgt]
    pa = analyse(case, True)
    classes += pa.tags
    if pa.unsettled:
        classes.append("case-with-unsettled-slot")
    key = None
    if pa.nt:
        key = "|".join(sorted(pa.nt))
    src, r = run_plan(pa)
    if r.timed_out:
        return engine.inconclusive("timeout", classes)
    detail = dict(run="A", status=r.status, signal=r.signal, stderr=r.err[-1500:], source=src[:6000])
    if r.signal in (24, 9):
        _log_inconclusive(case, src)
        return engine.inconclusive("cpu limit", classes)       # non-termination is property C01/C03
    if r.signal:
        return engine.bad("asl killed by signal %d" % r.signal, key, classes, **detail)
    diags = asl.diagnostics(r.err)
    errs = [x for x in diags if x["kind"] == "error"]
    if errs or r.status != 0 or r.p is None:
        e = errs[0] if errs else None
        line = pa.lines[e["line"] - 1].strip() if e and 0 < e["line"] <= len(pa.lines) else ""
        return engine.bad("valid data statements rejected (status %s): line %s `%s`: %s"
                          % (r.status, e["line"] if e else "?", line, e["msg"] if e else r.err[-200:]),
                          key, classes, **detail)
    bad = compare_bytes(pa, r, gran)
    if bad:
        return engine.bad(bad[0], key, classes, **dict(detail, **bad[1]))
    why = check_pcs(pa, r.out)
    if why:
        return engine.bad(why, key, classes, stdout=r.out[-800:], **detail)
    why = asan_witness(src, r)
    if why:
        return engine.bad(why, key, classes, **detail)
    # run B: the statements that must be rejected
    pb = analyse(case, False)
    if pb.errlines:
        classes.append("case-with-invalid")
        src, r = run_plan(pb)
        if r.timed_out:
            return engine.inconclusive("timeout", classes)
        detail = dict(run="B", status=r.status, signal=r.signal, stderr=r.err[-1500:], source=src[:6000])
        if r.signal in (24, 9):
            _log_inconclusive(case, src)
            return engine.inconclusive("cpu limit", classes)
        if r.signal:
            return engine.bad("asl killed by signal %d" % r.signal, key, classes, **detail)
        diags = asl.diagnostics(r.err)
        byline = {}
        for x in diags:
            if x["kind"] == "error":
                byline.setdefault(x["line"], []).append(x)
        deferred = None
        for ln, kind in sorted(pb.errlines.items()):
            text = pb.lines[ln - 1].strip()
            if ln not in byline:
                why = "no error for `%s` (line %d, demanded: %s)" % (text, ln, kind)
                if tgt == "320c25" and text.lower().startswith("long") and kind == "range":
                    # known finding ti-long-no-range-check: keep checking the rest of the case first
                    deferred = deferred or why
                    pb.pcs.pop(pb.errslot.get(ln), None)
                    continue
                return engine.bad(why, key, classes, **detail)
            if kind == "range" and not any(x["num"] in (1315, 1320) for x in byline[ln]):
                return engine.bad("`%s`: error %s instead of a range error" % (text, [x["num"] for x in byline[ln]]),
                                  key, classes, **detail)
        for ln in sorted(byline):
            if ln not in pb.errlines:
                return engine.bad("error on a valid line %d `%s`: %s" % (ln, pb.lines[ln - 1].strip(), byline[ln][0]["msg"]),
                                  key, classes, **detail)
        if r.status == 0 and byline:
            return engine.bad("errors reported but exit status 0", key, classes, **detail)
        why = check_pcs(pb, r.out)
        if why:
            return engine.bad("run with rejected statements: " + why, key, classes, stdout=r.out[-800:], **detail)
        why = asan_witness(src, r)
        if why:
            return engine.bad("run with rejected statements: " + why, key, classes, **detail)
        if deferred:
            return engine.bad(deferred, key, classes, **detail)
    return engine.ok(key, classes)


def show(case):
    if case.get("kind") == "nonieee":
        return nonieee.show(case)[:1400]
    return "\n".join(analyse(case, False).lines)[:1400]


# ====================================================================== fixed boundary families

def _slotcase(tgt, stmts_per_slot, pre=()):
    pre = list(pre)
    if TARGETS[tgt].get("has_padding") and not any(p.get("dir") == "padding" for p in pre):
        pre.insert(0, dict(dir="padding", on=TARGETS[tgt]["pad_default"]))
    return dict(tgt=tgt, upper=False, items=pre + [dict(odd=o, stmts=s) for o, s in stmts_per_slot])


def fixed_cases(tier):
    out = list(nonieee.fixed_cases())
    I = lambda v, f="d": ["i", v, f]
    F = lambda x: ["f", dm.fmt_float(x)]
    # integer limits of every field width on every statement kind, one statement per slot
    fields = [("68000", "dc", "B", 8), ("68000", "dc", "W", 16), ("68000", "dc", "L", 32), ("68000", "dc", "", 16),
              ("6809", "byt", "", 8), ("6809", "fdb", "", 16), ("6809", "dc", "B", 8), ("6809", "dc", "L", 32),
              ("6502", "fcb", "", 8), ("6502", "adr", "", 16),
              ("z80", "db", "", 8), ("z80", "dw", "", 16), ("z80", "dd", "", 32), ("z80", "dn", "", 4),
              ("8086", "db", "", 8), ("8086", "dw", "", 16), ("8086", "dd", "", 32),
              ("8051", "db", "", 8), ("8051", "dw", "", 16), ("8051", "dd", "", 32), ("8051", "dn", "", 4),
              ("msp430", "byte", "", 8), ("msp430", "word", "", 16),
              ("16c84", "data", "", 14), ("avr", "data", "", 16), ("avr", "db", "", 8), ("avr", "dw", "", 16),
              ("avr", "dn", "", 4)]
    for tgt, op, sz, bits in fields:
        lo, hi = dm.int_limits(bits)
        smax = (1 << (bits - 1)) - 1
        vals = [lo - 1, lo, lo + 1, -1, 0, smax, smax + 1, hi - 1, hi, hi + 1]
        slots = [(0, [dict(op=op, sz=sz, args=[I(v, f)])]) for v in vals for f in ("d", "h")]
        pres = [()]
        if tgt == "8051":
            pres.append((dict(dir="bigendian", on=True),))
        if tgt == "avr" and op == "data":
            pres = [()]
        for pre in pres:
            out.append(_slotcase(tgt, slots, pre))
    lo, hi = dm.int_limits(8)
    out.append(_slotcase("avr", [(0, [dict(op="data", sz="", args=[I(v)])]) for v in (-129, -128, 127, 255, 256)],
                         (dict(dir="packing", on=True),)))
    # 64 bit fields
    q = [-(1 << 63) + 1, -1, 0, 1, (1 << 63) - 1, 0x123456789abcdef0]
    out.append(_slotcase("68000", [(0, [dict(op="dc", sz="Q", args=[I(v, "h")])]) for v in q]))
    out.append(_slotcase("z80", [(0, [dict(op="dq", sz="", args=[I(v, "h")])]) for v in q]))
    out.append(_slotcase("8051", [(0, [dict(op="dq", sz="", args=[I(v, "d")])]) for v in q], (dict(dir="bigendian", on=True),)))
    # float families
    for fmt, moto, intel in ((HALF, "C", "dw"), (SINGLE, "S", "dd"), (DOUBLE, "D", "dq")):
        eb, mb = fmt
        minsub = float(dm.ieee_value(1, fmt))
        maxf = dm.fmt_max(fmt)
        vals = [0.0, 1.0, -1.0, 0.1, maxf, -maxf, math.nextafter(maxf, 0), float(dm.ieee_value(1 << mb, fmt)),
                float(dm.ieee_value((1 << mb) - 1, fmt)), minsub, -minsub]
        if fmt != DOUBLE:
            vals += [minsub / 2, math.nextafter(minsub / 2, 1), minsub * 1.5, minsub * 2.5, minsub * 0.75,
                     minsub * 0.25, 1e-7, 1.0e-7 * 3, float(dm.fmt_overflow_threshold(fmt)),
                     -float(dm.fmt_overflow_threshold(fmt)), maxf * 4]
            one = int.from_bytes(dm.ieee_bytes(1.0, fmt, True), "big")
            for p in (one, one + 1, one + 2):
                mid = float((dm.ieee_value(p, fmt) + dm.ieee_value(p + 1, fmt)) / 2)
                vals += [mid, math.nextafter(mid, 0), math.nextafter(mid, 4)]
        else:
            vals += [1.7e308, 1.75e308, 5e-324, 2.2250738585072014e-308]
        for tgt, op, sz in (("68000", "dc", moto), ("6809", "dc", moto), ("z80", intel, ""), ("8051", intel, ""),
                            ("avr", intel, "")):
            pre = (dict(dir="bigendian", on=True),) if tgt == "8051" else ()
            out.append(_slotcase(tgt, [(0, [dict(op=op, sz=sz, args=[F(v)])]) for v in vals], pre))
    ext = [0.0, 1.0, -1.0, 0.1, 1.7976931348623157e308, 2.2250738585072014e-308, 5e-324, -5e-324,
           4.450147717014403e-308 / 4, 1.1125369292536007e-308, 2.0 ** -1074 * 3, 1e-310, 1234.5]
    for tgt, op, sz in (("68000", "dc", "X"), ("6809", "dc", "X"), ("z80", "dt", ""), ("8086", "dt", ""),
                        ("8051", "dt", ""), ("avr", "dt", "")):
        pre = (dict(dir="bigendian", on=True),) if tgt == "8051" else ()
        out.append(_slotcase(tgt, [(0, [dict(op=op, sz=sz, args=[F(v)])]) for v in ext], pre))
    # padding placement
    S = lambda s: ["s", [ord(c) for c in s]]
    out.append(_slotcase("68000", [
        (0, [dict(op="dc", sz="B", args=[I(1), I(2), I(3)]), dict(op="dc", sz="W", args=[I(0x1234, "h")])]),
        (1, [dict(op="dc", sz="L", args=[I(0x12345678, "h")])]),
        (1, [dict(op="ds", sz="W", args=[I(2)]), dict(op="dc", sz="B", args=[I(9)])]),
        (1, [dict(op="ds", sz="L", args=[I(0)]), dict(op="dc", sz="W", args=[I(9)])]),
        (0, [dict(op="dc", sz="B", args=[S("abc")]), dict(op="dc", sz="W", args=[["q"]]), dict(op="dc", sz="W", args=[I(7)])]),
    ]))
    out.append(_slotcase("68000", [
        (1, [dict(op="dc", sz="W", args=[I(0x1234, "h")])]),
        (0, [dict(op="dc", sz="B", args=[I(1)]), dict(op="dc", sz="L", args=[I(2)])]),
    ], (dict(dir="padding", on=False),)))
    out.append(_slotcase("msp430", [
        (0, [dict(op="byte", sz="", args=[I(1)]), dict(op="word", sz="", args=[I(0x1234, "h"), I(-1)])]),
        (1, [dict(op="word", sz="", args=[I(5)])]),
        (0, [dict(op="byte", sz="", args=[S("abc")]), dict(op="bss", sz="", args=[I(3)]), dict(op="word", sz="", args=[I(5)])]),
    ], (dict(dir="padding", on=True),)))
    # packing / half words on the AVR
    for pk in (False, True):
        out.append(_slotcase("avr", [
            (0, [dict(op="data", sz="", args=[I(1), S("abc"), I(2)])]),
            (0, [dict(op="data", sz="", args=[S("abc")]), dict(op="data", sz="", args=[S("de")])]),
            (0, [dict(op="data", sz="", args=[S("a"), S("b"), I(3), I(4), I(5)])]),
            (0, [dict(op="db", sz="", args=[I(1), I(2), I(3)]), dict(op="db", sz="", args=[I(4)])]),
            (0, [dict(op="db", sz="", args=[["dup", 3, [I(1)]]]), dict(op="dn", sz="", args=[I(1), I(2), I(3), I(4), I(5)])]),
        ], (dict(dir="packing", on=pk),)))
    # DUP / reservations
    out.append(_slotcase("z80", [
        (0, [dict(op="db", sz="", args=[["dup", 3, [I(1), I(2)]], ["dup", 2, [I(7), ["dup", 2, [I(8), I(9)]]]]])]),
        (0, [dict(op="dw", sz="", args=[["dup", 20, [["q"]]]]), dict(op="db", sz="", args=[I(5)])]),
        (0, [dict(op="db", sz="", args=[S("hello"), ["q"]])]),
        (0, [dict(op="dn", sz="", args=[I(1), I(2), I(3)]), dict(op="dn", sz="", args=[I(4)])]),
    ]))
    # charset
    out.append(_slotcase("6502", [
        (0, [dict(op="byt", sz="", args=[S("azAZ"), ["c", [ord("b")]]]), dict(op="adr", sz="", args=[["c", [ord("a"), ord("b")]]])]),
        (0, [dict(op="fcc", sz="", args=[["rep", 2, S("xyz")]])]),
    ], (dict(dir="charset", op=["range", 0x61, 0x7a, 0x41]),)))
    # 20 arguments (documented maximum), forward symbols at the limits, COP8 and TMS320C25 families
    out.append(_slotcase("68000", [(0, [dict(op="dc", sz="B", args=[I(i - 10) for i in range(20)])]),
                                   (1, [dict(op="dc", sz="W", args=[I(i * 3000) for i in range(20)])])]))
    for tgt, op, sz, bits in (("68000", "dc", "B", 8), ("68000", "dc", "W", 16), ("z80", "db", "", 8),
                              ("z80", "dw", "", 16), ("z80", "dd", "", 32), ("6502", "byt", "", 8),
                              ("6809", "fdb", "", 16), ("msp430", "byte", "", 8), ("msp430", "word", "", 16),
                              ("16c84", "data", "", 14), ("avr", "data", "", 16), ("320c25", "word", "", 16),
                              ("320c25", "string", "", 8), ("cop8", "addrw", "", 16), ("cop8", "fw", "", 16)):
        lo, hi = dm.int_limits(bits)
        vals = [lo, hi, -1, (1 << (bits - 1)), lo - 1, hi + 1, (1 << 32) + 1]
        for fwd in (False, True):
            c = _slotcase(tgt, [(0, [dict(op=op, sz=sz, args=([I(2)] if op == "fw" else []) + [["y", i]])])
                                for i in range(len(vals))])
            c["syms"] = [[v, fwd] for v in vals]
            out.append(c)
    out.append(_slotcase("cop8", [
        (0, [dict(op="byte", sz="", args=[I(1), S("ab"), I(-128), I(255)])]),
        (0, [dict(op="word", sz="", args=[I(0x1234, "h"), I(-2)]), dict(op="addrw", sz="", args=[I(0x1234, "h"), I(-2)])]),
        (0, [dict(op="addr", sz="", args=[I(0x12, "h")]), dict(op="dsb", sz="", args=[I(3)]),
             dict(op="dsw", sz="", args=[I(2)]), dict(op="byte", sz="", args=[I(7)])]),
        (0, [dict(op="fb", sz="", args=[I(5), I(0xaa, "h")]), dict(op="fw", sz="", args=[I(3), I(0x1234, "h")])]),
        (0, [dict(op="fb", sz="", args=[I(2), I(256)])]),
    ]))
    out.append(_slotcase("320c25", [
        (0, [dict(op="word", sz="", args=[I(1), I(-1), I(0xffff, "h")]), dict(op="long", sz="", args=[I(0x12345678, "h"), I(-1)])]),
        (0, [dict(op="float", sz="", args=[F(1.0), F(-2.5), I(3)]), dict(op="double", sz="", args=[F(1.0), F(1e-310)])]),
        (0, [dict(op="string", sz="", args=[S("abc"), I(1), I(2)]), dict(op="rstring", sz="", args=[S("abc"), I(1), I(2)])]),
        (0, [dict(op="data", sz="", args=[S("abc"), I(1), S("de"), ["c", [ord("a"), ord("b")]]]), dict(op="bss", sz="", args=[I(3)]),
             dict(op="res", sz="", args=[I(2)]), dict(op="word", sz="", args=[I(5)])]),
        (0, [dict(op="word", sz="", args=[I(0x100000001, "h")])]),
        (0, [dict(op="float", sz="", args=[F(3.4028234663852886e38)])]),
        (0, [dict(op="float", sz="", args=[F(3.5e38)])]),
    ]))
    # regression inputs of the defects found with this check
    hi = ["s", [[0xe2, "hex"], ord("a"), [0x80, "dec"], [0xff, "HEX"]]]
    out.append(_slotcase("z80", [(0, [dict(op="dw", sz="", args=[hi])]), (0, [dict(op="dd", sz="", args=[hi])]),
                                 (0, [dict(op="dq", sz="", args=[hi])])]))
    out.append(_slotcase("6809", [(0, [dict(op="fdb", sz="", args=[hi]), dict(op="adr", sz="", args=[["rep", 2, hi]])]),
                                  (0, [dict(op="dc", sz="W", args=[hi]), dict(op="dc", sz="L", args=[hi])])]))
    out.append(_slotcase("6502", [(0, [dict(op="adr", sz="", args=[S("a")])])], (dict(dir="charset", op=["one", 0x61, 0xe2]),)))
    nine = ["c", [ord(ch) for ch in "abcdefghi"]]
    c = _slotcase("68000", [(0, [dict(op="dc", sz="L", args=[["rep", 8, nine]])]), (0, [dict(op="dc", sz="Q", args=[["rep", 4, nine]])]),
                            (0, [dict(op="dc", sz="W", args=[["rep", 16, nine]])]), (0, [dict(op="dc", sz="W", args=[["y", 0]])])])
    c["syms"] = [[1, True]]
    out.append(c)
    out.append(_slotcase("z80", [(0, [dict(op="dw", sz="", args=[I(65536), I(1)])]), (0, [dict(op="dw", sz="", args=[F(1.0e6), I(2)])]),
                                 (0, [dict(op="dd", sz="", args=[I(5000000000), I(2)])]), (0, [dict(op="db", sz="", args=[I(1), I(256)])])]))
    out.append(_slotcase("avr", [(0, [dict(op="data", sz="", args=[I(65536), I(1)])]), (0, [dict(op="data", sz="", args=[I(1), I(-32769)])])]))
    out.append(_slotcase("msp430", [(0, [dict(op="byte", sz="", args=[I(256), I(1)])]), (0, [dict(op="byte", sz="", args=[I(1), I(-129), I(2)])])]))
    out.append(_slotcase("320c25", [(0, [dict(op="word", sz="", args=[I(1), ["f", "1.5"]])]), (0, [dict(op="string", sz="", args=[I(1), I(2), ["f", "1.5"]])])]))
    c = _slotcase("8086", [(0, [dict(op="dn", sz="", args=[["dup", 300, [I(1)]]])]), (0, [dict(op="dw", sz="", args=[["y", 0]])]),
                           (0, [dict(op="db", sz="", args=[["dup", 450, [I(1), I(2)]]])])])
    c["syms"] = [[1, True]]
    out.append(c)
    out += exhaustive_half_cases(tier)
    return out


def exhaustive_half_cases(tier):
    """every finite half precision value, every tie between two neighbours and the doubles next to each tie
    (4 x 31744 values, alternating signs), as DW on the Z80 (quick and thorough) and, thorough only, as DC.C on
    the 68000, DW on the 8051 with BIGENDIAN ON and DW on the AVR"""
    F = lambda x: ["f", dm.fmt_float(x)]
    vals = []
    nfin = 31 << 10
    for p in range(nfin):
        v = float(dm.ieee_value(p, HALF))
        sgn = -1.0 if p & 1 else 1.0
        vals.append(sgn * v)
        if p + 1 < nfin:
            mid = float((dm.ieee_value(p, HALF) + dm.ieee_value(p + 1, HALF)) / 2)
            vals += [sgn * mid, sgn * math.nextafter(mid, math.inf), -sgn * math.nextafter(mid, 0.0)]
    plans = [("z80", "dw", "", (), 112, 50)]
    if tier != "quick":
        plans += [("68000", "dc", "C", (), 100, 100), ("8051", "dw", "", (dict(dir="bigendian", on=True),), 112, 50),
                  ("avr", "dw", "", (), 20, 60)]
    out = []
    for tgt, op, sz, pre, per_slot, slots in plans:
        stmts = [dict(op=op, sz=sz, args=[F(x) for x in vals[i:i + 4]]) for i in range(0, len(vals), 4)]
        slot_list = [(0, stmts[i:i + per_slot]) for i in range(0, len(stmts), per_slot)]
        for i in range(0, len(slot_list), slots):
            out.append(_slotcase(tgt, slot_list[i:i + slots], pre))
    return out


def _k_ti_long(case, out):
    return (case.get("tgt") == "320c25" and "demanded: range" in out.why
            and re.match(r"no error for `long\b", out.why, re.I) is not None)


KNOWN = {
    "ti-long-no-range-check": (
        "TMS320C2x LONG stores the low 32 bits of a value outside -2^31..2^32-1 without any message "
        "(tipseudo.c wr_code_long has no range check; the golden test t_3202x records `long 4294967296`)",
        _k_ti_long),
}


def coverage_extra(tier, classes):
    keep = {k: v for k, v in classes.items()}
    return dict(statement_classes=dict(sorted(keep.items(), key=lambda kv: -kv[1])))
