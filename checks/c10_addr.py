"""C10  Address bookkeeping: ORG, PHASE, segments, ALIGN, reservations, structures.

Generated domain: model-directed statement sequences (up to ~60 statements) on 8051 (CODE/DATA/IDATA/
XDATA/BITDATA), Z80 (CODE/IO) and PIC 16C84 (word-granular CODE + byte DATA), also mixed in one
program: ORG, RORG, ALIGN (with and without fill), reservations, emitting data, SEGMENT, CPU,
PHASE/DEPHASE (nested, unbalanced), SAVE/RESTORE with CPU/SEGMENT/LISTING changes in between,
STRUCT/UNION definitions (nested, nameless inner, instances inside) and instantiations (also arrays).
After every statement a probe (`pN:` label or `pN equ $`) records what the program counter reads.

Oracle: vf/addrmodel.py (reference state machine written from the manual) predicts every probe, every
structure symbol, MOMCPU/LISTON after state changes, and the exact (target, segment, address, byte)
sequence of the code file.  Observed: all symbols through a reference table `dd sym,...` assembled for
a target the body never uses (8086, CODE address 0; placed before the body in a quarter of the cases, so
that every value is a forward reference and a second pass must reproduce the same addresses), the -L
symbol table as second witness (values and the segment attribute of labels), the code file through the
independent reader vf/pfile.py.
"""
import re

from vf import engine, pfile, asl
from vf.gen import composite
from vf.addrmodel import Model, ModelError, TARGETS, SEGLETTER, RES_INTEL

ID = "C10"
RULE = ("case = CPU profile (1-3 of 8051, Z80, 16C84, TMS320C30, 68000 with PADDING) + model-directed statement list (cpu, segment, org, rorg, "
        "align[,fill], reservation forms, db/dw/data, phase, dephase, save, restore, listing, struct/union "
        "definitions with fields, nested named/nameless structures, instances, arrays; instantiations) with a "
        "probe after every statement; non-trivial = a segment or CPU switch between PHASE and its DEPHASE, or "
        "SAVE..RESTORE across a CPU/segment/listing change, or a union or nameless structure inside a "
        "structure, or DEPHASE on an empty stack, or ALIGN that really moves the counter under a phase, or a label moved by a "
        "pad byte (68000 PADDING); "
        "distinct by (feature set, digest of the op-kind sequence)")
ASSUMPTIONS = [
    "ORG is never generated while the phase offset of the active segment is non-zero: the manual says the "
    "argument of ORG 'always is the load address', the pinned tree takes it as an execution address "
    "(load counter = argument - phase offset); the property does not settle it",
    "ALIGN n aligns the program counter the program sees, i.e. the execution address under PHASE (manual: "
    "'aligns the program counter'; changelog 1.42 Bld 133: 'ALIGN uses execution instead of load address as "
    "base'); phase offsets that are no multiple of n are generated",
    "segment counters, phase offsets and phase stacks belong to the segment, not to the CPU: a CPU statement "
    "switches to CODE (documented) and leaves every counter as it is; CODE addresses are kept inside the "
    "range of every CPU of the program's profile",
    "the initial counter of the 8051 DATA segment (asl: 30h) is not in the manual's ORG table: the first "
    "SEGMENT DATA on an 8051 is always followed by ORG and not probed in between; all other initial values "
    "(0, IDATA 80h) are asserted",
    "symbols defined inside nested structure definitions are offsets from the start of the outermost "
    "structure (by analogy with the manual's nested-instance naming rule; behaviour agrees)",
    "NOEXTNAMES, the ENDSTRUCT argument form, names of array-instance elements, ORG/RORG/PHASE/SEGMENT/SAVE "
    "inside a structure body, RESTORE on an empty stack and ALIGN 0 are not generated (undocumented, "
    "documented errors, or C03's subject); DOTS only without 8051 in the profile and never mixed with '_'",
    "all addresses (load and execution) stay inside the documented range of the segment",
    "the ALIGN fill value fills every byte of the skipped area, also when an address unit has two bytes",
    "68000 PADDING follows the manual's PADDING section (pad byte in front of a 16/32-bit object at an odd address, "
    "label of the line and a label-only line directly before it point behind the pad byte, `equ *` does not move; "
    "the value of the pad byte is not asserted); the DC section's remark about a byte added after an odd byte sum "
    "is not modelled (the PADDING example contradicts it)",
    "PADDING exclusions: odd phase offsets in CODE when the 68000 is in the profile, 16-bit objects in inner "
    "structures that start at an odd offset while PADDING is on (asl pads by the inner offset), a label-only line "
    "directly in front of a padded statement that carries its own label (manual: both labels move, asl: only the "
    "second), and the PADDING state after the 68000 is selected again while it was OFF (an explicit PADDING "
    "statement always follows)",
]

TABLE_CPU = "8086"
TABLE_HID = 0x42
ALIGNS = [1, 2, 4, 8, 16, 3, 5, 6, 7, 10, 32, 64, 100, 128, 256, 512, 1000, 1024, 4096, 32767]


def budget(tier):
    return dict(examples=10000 if tier == "quick" else 150000, shards=16)


# ------------------------------------------------------------------------------------------ generator

def chance(d, num, den):
    """true with probability num/den; drawn from a range of only den values so that two different choice
    sequences rarely render the same program; shrinks towards true"""
    return d.int(0, den - 1) < num


class Gen:
    def __init__(self, d, cpus, maxops):
        self.d = d
        self.cpus = cpus
        self.m = Model(cpus)
        self.ops = []
        self.maxops = maxops
        self.nname = 0
        self.allow_dots = "8051" not in cpus

    def push(self, op):
        d = self.d
        if op.get("label") and self.m.cpu == "68000" and self.ops and self.ops[-1].get("p") == "L" \
                and not self.ops[-1].get("x"):
            # two labels in front of one padded object (one on the line before, one on the line itself): the
            # manual moves both behind the pad byte, asl only the second - not generated
            del op["label"]
            op.pop("nocolon", None)
        if "p" not in op:
            op["p"] = "E" if chance(d, 2, 5) else "L"
        if op["k"] in ("cpu", "save", "restore", "listing") or not chance(d, 11, 12):
            op["x"] = 1
        self.m.apply(op)
        self.ops.append(op)

    def name(self, prefix):
        self.nname += 1
        return "%s%d" % (prefix, self.nname)

    # ---- address helpers
    def addr(self, lo, hi, near):
        d = self.d
        how = d.weighted([(4, "near"), (2, "edge"), (2, "round"), (3, "any")])
        if how == "near" and near is not None:
            v = near + d.int(-20, 40)
        elif how == "edge":
            v = d.choice([lo, hi, hi - 1, lo + 1, hi - d.int(0, 16)])
        elif how == "round":
            v = d.int(0, max(0, hi // 16)) * 16
        else:
            v = d.int(lo, hi)
        return min(hi, max(lo, v))

    def count(self, room):
        d = self.d
        if room <= 1:
            return max(room, 0)
        fam = d.weighted([(8, "small"), (2, "mid"), (1, "big")])
        if fam == "small":
            n = d.int(1, 6)
        elif fam == "mid":
            n = d.int(7, 70)
        else:
            n = d.int(71, 3000)
        return min(n, room)

    def res_op(self, room, name=None):
        d, m = self.d, self.m
        if m.t["fam"] == "pic":
            op = dict(k="res", form="res", n=self.count(min(room, 400)))
        elif m.t["fam"] == "ti":
            op = dict(k="res", form="bss", n=self.count(min(room, 400)))
        elif m.t["fam"] == "moto":
            f = m.frames[-1] if m.frames else None
            wide_ok = not (f and f["absodd"] and m.padding is not False)
            if not f and m.phase() % 2 and m.padding is not False:
                wide_ok = False        # padding with an odd phase offset is excluded
            form = d.weighted([(4, "ds.b"), (4, "ds.w"), (2, "ds.l"), (1, "ds.w0"), (1, "ds.l0")])
            if not wide_ok:
                form = "ds.b"
            if form == "ds.l0" and not f and m.phase() % 4:
                form = "ds.w0" if m.phase() % 2 == 0 else "ds.b"
            size = {"ds.b": 1, "ds.w": 2, "ds.l": 4, "ds.w0": 1, "ds.l0": 1}[form]
            n = max(1, self.count(max(1, min(room - 4, 400) // size)))
            if room < 8:
                form, n = "ds.b", max(1, min(room, 1))
            op = dict(k="res", form=form, n=n)
        else:
            form = d.weighted([(4, "ds"), (3, "db?"), (2, "dw?"), (1, "dd?"), (2, "dup"), (1, "dwdup"), (1, "db??")])
            n = self.count(min(room, 400))
            if form == "db??":
                n = min(n, 8)
            if form == "dwdup":
                n = max(1, min(n, room // 2))
            op = dict(k="res", form=form, n=max(1, n))
            if RES_INTEL[form][1](op["n"]) > room:
                op = dict(k="res", form="ds", n=max(1, min(room, op["n"])))
        if name:
            op["name"] = name
        return op

    def maybe_label(self, op):
        d = self.d
        if not chance(d, 3, 4):
            op["label"] = "q%d" % len(self.ops)
            if chance(d, 1, 2):
                op["nocolon"] = 1
        return op

    def maybe_rel(self, op):
        if not chance(self.d, 3, 4):
            op["rel"] = 1
        return op

    # ---- one statement outside structure definitions
    def real_op(self):
        d, m = self.d, self.m
        t = m.t
        if m.load() is None:
            self.push(dict(k="org", a=self.addr(0, m.limit(), 0x30), p=d.choice(["L", "E"])))
            return
        if t["fam"] == "moto" and m.padding is None:
            self.push(dict(k="padding", on=chance(d, 2, 3)))
            return
        room = m.room()
        w = [(7, "emit"), (6, "res"), (4, "rorg"), (5, "align"), (5, "phase"), (4, "dephase"), (2, "save"),
             (1, "listing"), (2, "struct")]
        if m.phase() == 0:
            w.append((5, "org"))
        if len(t["segs"]) > 1:
            w.append((5, "seg"))
        if len(self.cpus) > 1:
            w.append((6 if m.save else 3, "cpu"))
        else:
            w.append((1, "cpu"))
        if m.save:
            w.append((3, "restore"))
        if m.structs:
            w.append((3, "inst"))
        if t["fam"] == "moto":
            w.append((2, "padding"))
        k = d.weighted(w)
        if room <= 0 and k in ("emit", "res", "inst"):
            k = d.choice(["rorg", "dephase"] + (["org"] if m.phase() == 0 else []))
        if k == "padding":
            self.push(dict(k="padding", on=chance(d, 1, 2)))
        elif k == "emit" and t["fam"] == "moto":
            wdt = d.weighted([(3, 1), (3, 2), (1, 4)])
            if m.phase() % 2 and m.padding is not False:
                wdt = 1
            if room < 2 * wdt + 1:
                wdt = 1
            n = max(1, min((room - 1) // wdt, d.int(1, 4)))
            self.push(self.maybe_label(dict(k="emit", w=wdt, n=n, v=d.int(0, 255))))
        elif k == "emit":
            if t["fam"] in ("pic", "ti"):
                n = min(room, d.int(1, 5))
                self.push(self.maybe_label(dict(k="emit", w=1, n=n, v=d.int(0, 255))))
            else:
                wdt = d.weighted([(3, 1), (1, 2)])
                if wdt == 2 and room < 2:
                    wdt = 1
                n = max(1, min(room // wdt, d.int(1, 5)))
                self.push(self.maybe_label(dict(k="emit", w=wdt, n=n, v=d.int(0, 255))))
        elif k == "res":
            self.push(self.maybe_label(self.res_op(room)))
        elif k == "org":
            self.push(self.maybe_rel(dict(k="org", a=self.addr(0, m.limit(), m.load()))))
        elif k == "rorg":
            lo, hi = -m.low(), room
            how = d.weighted([(5, "small"), (1, "zero"), (2, "any")])
            if how == "small":
                v = d.int(max(lo, -12), min(hi, 24))
            elif how == "zero":
                v = 0
            else:
                v = d.int(lo, hi)
            self.push(dict(k="rorg", d=v))
        elif k == "align":
            here = m.here()
            cand = [n for n in ALIGNS if here + (-here % n) - here <= room]
            n = d.choice(cand)      # 1 is always a candidate
            op = dict(k="align", n=n)
            if (-here % n) <= 3000 and not chance(d, 2, 3):       # (gaps beyond the initial 256 byte statement buffer too)
                op["fill"] = d.choice([0, 255, 170, -1, d.int(-128, 255)])
            self.push(op)
        elif k == "phase":
            how = d.weighted([(2, "same"), (4, "x16"), (3, "addr"), (1, "zero")])
            lim = m.limit()
            if how == "same":
                a = m.load()
            elif how == "x16":
                a = m.load() + 16 * d.int(-(m.load() // 16), (lim - m.load()) // 16)
            elif how == "zero":
                a = 0
            else:
                a = self.addr(0, lim, m.here())
            a = min(lim, max(0, a))
            if "68000" in self.cpus and m.seg == "code" and (a - m.load()) % 2:
                # PADDING looks at the parity of the address: keep load and execution parity equal
                a = a + 1 if a < lim else a - 1
            self.push(self.maybe_rel(dict(k="phase", a=a)))
        elif k == "dephase":
            # the offset that comes back must keep the execution address in range
            st = m.phst[m.seg]
            off = st[-1] if st else 0
            if 0 <= m.load() + off <= m.limit():
                self.push(dict(k="dephase"))
            else:
                self.push(dict(k="rorg", d=0))
        elif k == "seg":
            self.push(dict(k="seg", s=d.choice(sorted(t["segs"]))))
        elif k == "cpu":
            self.push(dict(k="cpu", c=d.choice(self.cpus)))
        elif k == "save":
            if len(m.save) < 4:
                self.push(dict(k="save"))
            else:
                self.push(dict(k="restore"))
        elif k == "restore":
            self.push(dict(k="restore"))
        elif k == "listing":
            self.push(dict(k="listing", on=chance(d, 1, 2)))
        elif k == "struct":
            self.struct_def()
        elif k == "inst":
            names = sorted(m.structs)
            s = d.choice(names)
            tot = m.structs[s]["tot"]
            dims = []
            if not chance(d, 2, 3):
                dims = [d.int(1, 3) for _ in range(d.weighted([(3, 1), (2, 2), (1, 3)]))]
            cnt = 1
            for x in dims:
                cnt *= x
            if tot * cnt > room:
                dims = []
            if tot > room:
                self.push(dict(k="rorg", d=0))
            else:
                self.push(dict(k="inst", s=s, lab=self.name("i"), dims=dims))

    # ---- a complete structure definition (nested ones recursively)
    def struct_def(self, depth=0):
        d, m = self.d, self.m
        top = not m.in_struct()
        if top or chance(d, 1, 2):
            name = self.name("s")
        else:
            name = None
        op = dict(k="struct", name=name, union=not chance(d, 2, 3), p="E")
        if not op["union"]:
            op["kw"] = d.choice(["struct", "struc"])
        if top and self.allow_dots and not chance(d, 4, 5):
            op["dots"] = 1
        self.push(op)
        dotted = m.frames[-1]["ext"] == "."
        nbody = d.int(0, 6)
        for _ in range(nbody):
            if len(self.ops) >= self.maxops + 10:
                break
            w = [(7, "field"), (1, "anon"), (2, "align"), (1, "listing"), (1, "mark")]
            if depth < 2:
                w.append((3, "nest"))
            insts = [s for s in sorted(m.structs) if m.structs[s]["ext"] == "_"]
            if insts and not dotted:
                w.append((5, "inst"))
            k = d.weighted(w)
            if k == "mark":
                self.push(dict(k="mark", name=self.name("f"), p="E"))
            elif k == "field":
                fop = dict(self.res_op(1 << 16, name=self.name("f")), p="E")
                if not chance(d, 3, 4):
                    fop["colon"] = 1
                self.push(fop)
            elif k == "anon":
                self.push(dict(self.res_op(1 << 16), p="E"))
            elif k == "align":
                self.push(dict(k="align", n=d.choice([1, 2, 4, 8, 3, 16]), p="E"))
            elif k == "listing":
                self.push(dict(k="listing", on=chance(d, 1, 2), p="E"))
            elif k == "nest":
                self.struct_def(depth + 1)
            else:
                s = d.choice(insts)
                dims = [] if chance(d, 4, 5) else [d.int(1, 3)]
                self.push(dict(k="inst", s=s, lab=self.name("m"), dims=dims, p="E"))
        f = m.frames[-1]
        if f["union"]:
            kw = d.weighted([(3, "endunion"), (1, "endstruct"), (1, "ends")])
        else:
            kw = d.weighted([(3, "endstruct"), (1, "ends"), (1, "endstruc")])
        self.push(dict(k="ends", kw=kw, lab=0 if chance(d, 3, 5) else 1))


@composite
def strategy_(d, tier):
    cpus = d.weighted([(3, ["8051"]), (2, ["z80"]), (2, ["16c84"]), (2, ["z80", "16c84"]), (2, ["8051", "z80"]),
                       (2, ["8051", "16c84"]), (3, ["8051", "z80", "16c84"]), (1, ["320c30"]),
                       (1, ["z80", "320c30"]), (1, ["8051", "16c84", "320c30"]), (3, ["68000"]),
                       (2, ["68000", "z80"]), (1, ["8051", "68000", "16c84"]), (1, ["68000", "320c30"])])
    lo, hi = d.weighted([(2, (2, 8)), (4, (9, 20)), (4, (21, 40)), (3, (41, 60))])
    n = d.int(lo, hi)
    g = Gen(d, cpus, n)
    g.push(dict(k="cpu", c=d.choice(cpus)))
    while len(g.ops) < n:
        g.real_op()
    while g.m.save:
        g.push(dict(k="restore"))
    # first: 0 = table behind the body; 1 = table in front (forward references: several passes); 2 = the same without
    # the table's own ORG 0, i.e. relying on the CODE segment starting at 0 in every pass; 3 = additionally without the
    # table's CPU statement (-cpu on the command line)
    first = 0 if chance(d, 2, 3) else d.choice([1, 2, 3])
    # the first target may come from the command line (-cpu) instead of a CPU statement: the implicitly active
    # CODE segment then starts with whatever the program does first (ORG, reservations, ...)
    return dict(cpus=cpus, first=first, ops=g.ops, cpuopt=bool(first == 0 and chance(d, 1, 3)))


def strategy(tier):
    return strategy_(tier)


# ------------------------------------------------------------------------------------------ rendering

def render(case):
    """-> (source, expectation dict); raises ModelError for a case the model does not accept"""
    m = Model(case["cpus"])
    body = []
    emits = []
    starts = set()
    table = []          # (symbol, expected value, description)
    letters = {}        # label probes: expected segment attribute
    feats = set()
    open_phase = {}     # segment -> number of PHASEs outstanding in it
    saved = []          # state at SAVE
    kinds = []
    trace = []          # (index of the body line, kind, segment id, granularity, load, phase, payload, description)
    movable = None      # table index of a label-only probe line that directly precedes the next statement
    for i, op in enumerate(case["ops"]):
        k = op["k"]
        kinds.append(k + ("u" if op.get("union") else "") + ("f" if "fill" in op else ""))
        before = (m.cpu, m.seg, m.liston)
        was_struct = m.in_struct()
        pre_here = m.here()
        if k == "dephase" and not m.phst[m.seg]:
            feats.add("dephase-empty")
        if k == "struct" and was_struct:
            feats.add("union-in-struct" if op.get("union") else "struct-in-struct")
            if not op.get("name"):
                feats.add("nameless-inner")
        if k == "inst":
            feats.add("inst-in-struct" if was_struct else "inst")
            if op.get("dims"):
                feats.add("array")
        ef = m.apply(op)
        assert len(ef.lines) == 1
        what = " ".join(x.strip() for x in ef.lines)
        for tr in ef.trace:
            trace.append((len(body),) + tr + ("statement %d `%s`" % (i, what),))
        if ef.pad:
            feats.add("padded")
            if movable is not None and op.get("label"):
                raise ModelError("label-only line followed by a labelled, padded statement is excluded")
            if movable is not None:
                # PADDING: "the label still points to the address of the code or data object, i.e. right behind
                # the pad byte.  The same is true for a label in a source line immediately before, as long as
                # this line only holds the label and no other instruction."
                nm, vv, ww = table[movable]
                table[movable] = (nm, vv + ef.pad, ww + " (moved behind the pad byte of the next statement)")
                feats.add("label-moved-by-padding")
        movable = None
        body += ef.lines
        emits += ef.emits
        starts.update(ef.starts)
        what = " ".join(x.strip() for x in ef.lines)
        for name, val in ef.syms:
            table.append((name, val, "symbol %s defined by statement %d `%s`" % (name, i, what)))
        letters.update(ef.labels)
        if op.get("label"):
            feats.add("stmt-label")
        if op.get("rel"):
            feats.add("pc-relative-arg")
        if k == "phase":
            open_phase[m.seg] = open_phase.get(m.seg, 0) + 1
        elif k == "dephase" and open_phase.get(m.seg):
            open_phase[m.seg] -= 1
        elif k in ("seg", "cpu", "restore") and (m.cpu, m.seg) != before[:2]:
            if any(v for s, v in open_phase.items()):
                feats.add("switch-inside-phase")
        if k == "save":
            saved.append(before)
        elif k == "restore":
            s0 = saved.pop()
            if before != s0:
                feats.add("restore-changes:" + ",".join(n for n, a, b in zip(("cpu", "seg", "listing"), before, s0)
                                                        if a != b))
        if k == "align" and not was_struct and m.phase() != 0 and m.here() != pre_here:
            feats.add("align-under-phase")
        if k == "struct" and op.get("dots"):
            feats.add("dots")
        v = m.here()
        if v is not None:
            name = "p%d" % i
            if op.get("p") == "L" and not m.in_struct():
                body.append("%s:" % name)
                letters[name] = SEGLETTER[m.seg]
                if not op.get("x"):
                    movable = len(table)
            else:
                body.append("%s\tequ %s" % (name, m.t["pcsym"]))
            where = "structure offset" if m.in_struct() else "%s/%s" % (m.cpu, m.seg)
            table.append((name, v, "program counter (%s) after statement %d `%s`" % (where, i, what)))
        if op.get("x"):
            body.append("c%d\tequ momcpu" % i)
            body.append("l%d\tequ liston" % i)
            table.append(("c%d" % i, m.t["momcpu"], "MOMCPU after statement %d `%s`" % (i, what)))
            table.append(("l%d" % i, m.liston, "LISTON after statement %d `%s`" % (i, what)))
    if m.in_struct() or m.save:
        raise ModelError("case leaves a structure or a SAVE frame open")
    tab = []
    for j in range(0, len(table), 8):
        tab.append("\tdd %s" % ",".join(t[0] for t in table[j:j + 8]))
    head = ["\tcpu %s" % TABLE_CPU, "\torg 0"]
    src = []
    args = []
    if case.get("cpuopt") and not case.get("first") and body and re.match(r"^\s+cpu\s+\S+\s*$", body[0], re.I):
        args = ["-cpu", body[0].split()[1]]
        body = ["; (target selected with -cpu %s)" % args[1]] + body[1:]
        feats.add("cpu-from-command-line")
    if case.get("first"):
        if case["first"] == 2:
            head = head[:1]
            feats.add("table-first-at-implicit-origin")
        elif case["first"] == 3:
            # not even a CPU statement in front of the table: target from the command line, origin implicit
            head = []
            args = ["-cpu", TABLE_CPU]
            feats.add("table-first-at-implicit-origin")
            feats.add("cpu-from-command-line")
        src += head + tab + ["\torg 0"]
        bodyline = len(src) + 1
        src += body + ["\tlisting on"]
    else:
        bodyline = 1
        src += body + ["\tlisting on", "\tcpu %s" % TABLE_CPU] + ["\tdephase"] * len(m.phst["code"]) + ["\torg 0"] + tab
    trace = [(t[0] + bodyline,) + t[1:] for t in trace]
    exp = dict(emits=emits, starts=starts, table=table, letters=letters, feats=feats, kinds=kinds, trace=trace,
               bodylines=(bodyline, bodyline + len(body) - 1), args=args)
    return "\n".join(src) + "\n", exp


SYM_RE = re.compile(r"^\s*\*?\s*(\S+) :\s+(\S+) ([A-Z-])\s*$")


def parse_symtab(lst):
    """symbol table of the listing -> {NAME: (value text, segment letter)}"""
    out = {}
    on = False
    for ln in lst.split("\n"):
        if "Symbol Table" in ln:
            on = True
            continue
        if not on:
            continue
        if re.match(r"^\s+\d+ symbols?\s*$", ln):
            break
        if "|" not in ln:
            continue
        for chunk in ln.split("|"):
            mm = SYM_RE.match(chunk)
            if mm:
                out[mm.group(1)] = (mm.group(2), mm.group(3))
    return out


def execute(case):
    src, exp = render(case)
    feats = exp["feats"]
    classes = ["cpus:" + "+".join(case["cpus"]), ["table-last", "table-first", "table-first-implicit-origin", "table-first-implicit-origin-and-cpu"][case.get("first") or 0]]
    classes += sorted(feats)
    classes += ["op:" + k for k in sorted(set(exp["kinds"]))]
    n = len(case["ops"])
    classes.append("len:%s" % ("<=8" if n <= 8 else "<=20" if n <= 20 else "<=40" if n <= 40 else ">40"))
    nt = sorted(f for f in feats if f in ("switch-inside-phase", "union-in-struct", "nameless-inner", "dephase-empty",
                                          "align-under-phase", "label-moved-by-padding")
                or f.startswith("restore-changes:"))
    key = None
    if nt:
        key = ",".join(nt) + "|" + engine.digest(" ".join(exp["kinds"]))
    r = asl.assemble({"t.asm": src}, args=("-L",) + tuple(exp["args"]), want=("t.lst", "trace.txt"), timeout=30, cpu=20,
                     env={"ASL_VERIF_TRACE": "trace.txt"})
    if r.timed_out:
        return engine.inconclusive("timeout", classes)
    detail = dict(src=src, **r.brief())
    if r.signal:
        return engine.bad("asl killed by signal %d" % r.signal, key, classes, **detail)
    diags = asl.diagnostics(r.err) + asl.diagnostics(r.out)
    if r.status != 0 or r.p is None or diags:
        first = diags[0] if diags else None
        return engine.bad("valid program rejected or diagnosed: status %s%s" % (
            r.status, (", line %d: %s %s" % (first["line"], first["kind"], first["msg"])) if first else ""),
            key, classes, **detail)
    try:
        recs = pfile.parse(r.p, strict=True)
    except pfile.FormatError as e:
        return engine.bad("code file not well formed: %s" % e, key, classes, **detail)
    # ---- reference table
    tbytes = {}
    got = []
    recstarts = []
    for rec in recs:
        if rec["kind"] != "data":
            continue
        if rec["cpu"] == TABLE_HID:
            if rec["seg"] != 1:
                return engine.bad("table record in segment %d" % rec["seg"], key, classes, **detail)
            for j, b in enumerate(rec["data"]):
                tbytes[rec["addr"] + j] = b
            continue
        hdr = (rec["cpu"], rec["seg"], rec["gran"])
        if len(rec["data"]):
            recstarts.append(hdr + (rec["addr"],))
        base = rec["addr"] * rec["gran"]
        got += [(hdr, base + j, b) for j, b in enumerate(rec["data"])]
    table = exp["table"]
    if sorted(tbytes) != list(range(4 * len(table))):
        return engine.bad("reference table does not occupy 0..%d of the %s code space (%d bytes found, first at %s)"
                          % (4 * len(table) - 1, TABLE_CPU, len(tbytes), min(tbytes) if tbytes else None),
                          key, classes, **detail)
    for j, (name, val, what) in enumerate(table):
        v = sum(tbytes[4 * j + q] << (8 * q) for q in range(4))
        if v != val & 0xffffffff:
            return engine.bad("%s: reads %d ($%x), the statements imply %d ($%x)" % (what, v, v, val, val),
                              key, classes, symbol=name, got=v, expected=val, **detail)
    # ---- second witness: the listing's symbol table
    lst = r.files.get("t.lst")
    if lst is None:
        return engine.bad("no listing written", key, classes, **detail)
    st = parse_symtab(lst.decode("latin-1"))
    for name, val, what in table:
        ent = st.get(name.upper())
        if ent is None:
            return engine.bad("%s: symbol missing in the listing's symbol table" % what, key, classes, **detail)
        try:
            lv = int(ent[0], 16)
        except ValueError:
            lv = None
        if lv != val:
            return engine.bad("%s: listing symbol table says %s, the statements imply $%X" % (what, ent[0], val),
                              key, classes, symbol=name, **detail)
        if name in exp["letters"] and ent[1] != exp["letters"][name]:
            return engine.bad("%s: label carries segment attribute %s, active segment is %s"
                              % (what, ent[1], exp["letters"][name]), key, classes, symbol=name, **detail)
    # ---- code file: exactly the emitted bytes at their load addresses, nothing from structure bodies
    ee = exp["emits"]

    def same(g, w):
        return g[0] == w[0] and g[1] == w[1] and (w[2] is None or g[2] == w[2])

    if len(got) != len(ee) or not all(same(g, w) for g, w in zip(got, ee)):
        i = next((i for i in range(min(len(got), len(ee))) if not same(got[i], ee[i])), min(len(got), len(ee)))
        return engine.bad("code file holds %d bytes, the statements lay down %d; first difference at index %d: "
                          "got %s expected %s (header id, segment, granularity), byte address, byte"
                          % (len(got), len(ee), i, got[i:i + 1], ee[i:i + 1]), key, classes,
                          records=[(hex(x["cpu"]), x["seg"], hex(x["addr"]), len(x["data"])) for x in recs
                                   if x["kind"] == "data"][:40], **detail)
    for s in recstarts:
        if s not in exp["starts"]:
            return engine.bad("a record starts at %s where no emitting statement begins" % (s,), key, classes,
                              **detail)
    # ---- third witness (hook ASL_VERIF_TRACE): load address and phase offset separately, per statement
    bad = check_trace(r.files.get("trace.txt"), exp)
    if bad:
        return engine.bad(bad, key, classes, **detail)
    return engine.ok(key, classes)


def check_trace(raw, exp):
    """final-pass trace lines of the body: one per statement that lays down or reserves something"""
    lines = []
    for ln in (raw or b"").decode("latin-1").split("\n"):
        f = ln.split(" ")
        if len(f) != 9:
            continue
        lines.append((int(f[0]), int(f[2]), f[7], int(f[3]), int(f[4]), int(f[5], 16), int(f[6], 16), f[8]))
    if not lines:
        return "emission trace empty" if exp["trace"] else None
    last = max(x[0] for x in lines)
    lo, hi = exp["bodylines"]
    got = [x[1:] for x in lines if x[0] == last and lo <= x[1] <= hi]
    want = []
    for ln, kind, seg, gran, load, phase, payload, what in exp["trace"]:
        want.append((ln, kind, seg, gran, load, phase & 0xffffffffffffffff,
                     (payload.hex() if payload is not None else None) if kind == "code" else str(payload)))
    for j in range(max(len(got), len(want))):
        g = got[j] if j < len(got) else None
        w = want[j] if j < len(want) else None
        if g is not None and w is not None and w[6] is None and len(g[6]) == 2:
            g = g[:6] + (None,)        # pad byte: any value
        if g != w:
            what = exp["trace"][j][7] if j < len(want) else "no statement"
            return ("%s: the assembler's emission trace says %s, the statements imply %s "
                    "(source line, kind, segment, granularity, load address, phase offset, bytes/length)"
                    % (what, g, w))
    return None


def show(case):
    try:
        return render(case)[0].split("\n")[:80]
    except ModelError as e:
        return ["model rejects case: %s" % e]


def _alt(ops):
    """give the statements of a hand-written case alternating probe kinds"""
    out = []
    for i, op in enumerate(ops):
        op = dict(op)
        op.setdefault("p", "L" if i % 2 else "E")
        if op["k"] in ("cpu", "save", "restore", "listing"):
            op["x"] = 1
        out.append(op)
    return out


def fixed_cases(tier):
    out = []
    fams = {"8051": "ds", "z80": "ds", "16c84": "res", "320c30": "bss", "68000": "ds.b"}

    def F(cpus, ops, first=0):
        out.append(dict(cpus=cpus, first=first, ops=_alt(ops)))

    for c, rf in fams.items():
        # regression: fields of a nameless inner structure / union keep their offset in instances
        for inner_union in (0, 1):
            F([c], [dict(k="cpu", c=c), dict(k="struct", name="s1"), dict(k="res", form=rf, n=3, name="f1"),
                    dict(k="struct", name=None, union=inner_union), dict(k="res", form=rf, n=1, name="f2"),
                    dict(k="res", form=rf, n=2, name="f3"), dict(k="ends"), dict(k="res", form=rf, n=1, name="f4"),
                    dict(k="ends", lab=1), dict(k="org", a=64), dict(k="inst", s="s1", lab="i1"),
                    dict(k="struct", name="s2", union=1), dict(k="inst", s="s1", lab="m1"),
                    dict(k="res", form=rf, n=9, name="f5"), dict(k="ends"), dict(k="inst", s="s2", lab="i2", dims=[2, 2])],
              first=inner_union)
        # reservations of 64 Ki units and more inside a structure (no address space limits them there): the offsets of
        # the following elements and the length symbol count all of them
        for big in ((65535, 65536, 65537, 70000, 200000) if rf == "ds" else (65535,)):     # RES/BSS/DS.x take 16 bits
            F([c], [dict(k="cpu", c=c), dict(k="struct", name="s1"), dict(k="res", form=rf, n=3, name="f1"),
                    dict(k="res", form=rf, n=big, name="f2"), dict(k="res", form=rf, n=1, name="f3"),
                    dict(k="ends", lab=1), dict(k="org", a=16), dict(k="emit", w=1, n=1, v=1)])
        # regression: ALIGN with fill value lays down whole address units
        F([c], [dict(k="cpu", c=c), dict(k="emit", w=1, n=3, v=77), dict(k="align", n=8, fill=170),
                dict(k="emit", w=1, n=1, v=5), dict(k="align", n=4, fill=-1), dict(k="align", n=4, fill=0)])
        # PHASE nesting 6 deep, DEPHASE 8 times, reservations in between
        ops = [dict(k="cpu", c=c), dict(k="org", a=16)]
        for j in range(6):
            ops += [dict(k="phase", a=32 * (j + 1), rel=j % 2), dict(k="res", form=rf, n=j + 1)]
        for j in range(8):
            ops += [dict(k="dephase"), dict(k="emit", w=1, n=1, v=j)]
        F([c], ops)
        # ALIGN n for n = 1..12 at every counter value 0..n (and one above)
        for n in range(1, 13):
            ops = [dict(k="cpu", c=c)]
            for a in range(0, n + 2):
                ops += [dict(k="org", a=a), dict(k="align", n=n)]
            F([c], ops)
    # 68000 PADDING: the manual's example (label on the line, label-only line before, equ *), in and outside
    # structures; regression: the symbol of a padded structure element moves with the element
    for first in (0, 1):
        F(["68000"], [dict(k="cpu", c="68000"), dict(k="org", a=4096),
                      dict(k="emit", w=1, n=1, v=1, p="E"), dict(k="emit", w=2, n=1, v=2, label="q1"),
                      dict(k="emit", w=1, n=1, v=3, p="L"), dict(k="emit", w=2, n=1, v=4),
                      dict(k="emit", w=1, n=1, v=5, p="E"), dict(k="emit", w=4, n=2, v=6),
                      dict(k="emit", w=1, n=3, v=7, p="L"), dict(k="res", form="ds.w", n=2),
                      dict(k="res", form="ds.b", n=1, p="L"), dict(k="res", form="ds.l0", n=1),
                      dict(k="res", form="ds.b", n=1, p="L"), dict(k="res", form="ds.w0", n=1),
                      dict(k="padding", on=False), dict(k="res", form="ds.b", n=1, p="L"),
                      dict(k="emit", w=2, n=1, v=9), dict(k="res", form="ds.l", n=1, label="q2"),
                      dict(k="padding", on=True), dict(k="emit", w=1, n=1, v=1, p="L"),
                      dict(k="phase", a=20000), dict(k="emit", w=2, n=1, v=4, label="q3", nocolon=1),
                      dict(k="struct", name="s1"), dict(k="res", form="ds.b", n=1, name="f1"),
                      dict(k="res", form="ds.w", n=1, name="f2"), dict(k="res", form="ds.b", n=2, name="f3"),
                      dict(k="struct", name=None), dict(k="res", form="ds.b", n=1, name="f4"),
                      dict(k="res", form="ds.l", n=1, name="f5"), dict(k="ends"),
                      dict(k="struct", name="s2", union=1), dict(k="res", form="ds.b", n=1, name="f6"),
                      dict(k="res", form="ds.w", n=2, name="f7"), dict(k="ends"),
                      dict(k="res", form="ds.b", n=1, name="f8"), dict(k="res", form="ds.w0", n=1),
                      dict(k="mark", name="f9"), dict(k="ends", lab=1),
                      dict(k="res", form="ds.b", n=1), dict(k="inst", s="s1", lab="i1"),
                      dict(k="inst", s="s1", lab="i2", dims=[3])], first=first)
    # script in the style of tests/t_phase: two segments phased independently
    seq = [dict(k="cpu", c="8051"), dict(k="seg", s="code"), dict(k="org", a=0), dict(k="emit", w=1, n=1, v=1),
           dict(k="seg", s="xdata"), dict(k="org", a=0x1000), dict(k="res", form="db?", n=1)]
    for which in ("code", "xdata", "code", "xdata"):
        seq += [dict(k="seg", s=which), dict(k="phase", a=0x800, rel=0), dict(k="res", form="ds", n=1),
                dict(k="seg", s="xdata" if which == "code" else "code"), dict(k="res", form="ds", n=1)]
    for which in ("code", "xdata", "code", "xdata", "code"):
        seq += [dict(k="seg", s=which), dict(k="dephase"), dict(k="res", form="ds", n=1),
                dict(k="seg", s="xdata" if which == "code" else "code"), dict(k="res", form="ds", n=1)]
    F(["8051"], seq)
    F(["8051"], seq, first=1)
    F(["8051"], seq, first=2)
    F(["8051"], seq, first=3)
    # documented initial values of the segment counters
    F(["8051", "z80", "16c84"], [dict(k="cpu", c="8051"), dict(k="seg", s="idata"), dict(k="seg", s="xdata"),
                                  dict(k="seg", s="bitdata"), dict(k="seg", s="code"), dict(k="cpu", c="z80"),
                                  dict(k="seg", s="io"), dict(k="cpu", c="16c84"), dict(k="seg", s="data")])
    # SAVE four deep, each frame with another CPU / segment / listing state, then unwinding
    F(["8051", "z80", "16c84"],
      [dict(k="cpu", c="8051"), dict(k="seg", s="xdata"), dict(k="org", a=100), dict(k="save"),
       dict(k="cpu", c="z80"), dict(k="seg", s="io"), dict(k="listing", on=False), dict(k="save"),
       dict(k="cpu", c="16c84"), dict(k="seg", s="data"), dict(k="res", form="res", n=3), dict(k="save"),
       dict(k="listing", on=True), dict(k="cpu", c="8051"), dict(k="seg", s="bitdata"), dict(k="save"),
       dict(k="cpu", c="z80"), dict(k="phase", a=500), dict(k="emit", w=2, n=2, v=9),
       dict(k="restore"), dict(k="res", form="ds", n=2), dict(k="restore"), dict(k="res", form="res", n=2),
       dict(k="restore"), dict(k="res", form="ds", n=2), dict(k="restore"), dict(k="res", form="ds", n=2),
       dict(k="seg", s="code"), dict(k="dephase"), dict(k="emit", w=1, n=1, v=1)])
    return out


KNOWN = {}
