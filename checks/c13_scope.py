"""C13  Symbol scoping, mutability and naming rules are honoured.

Generated domain: programs made of nested SECTIONs with same-named symbols at several levels (vf/scopemodel.py
describes the item language).  Every reference is one data word in the code file, every definition has a
distinct value (labels: their address), so the code file shows which definition each reference resolved to.
Oracle: the resolver of vf/scopemodel.py, written from the manual (Local Symbols, Temporary Symbols, SET/EQU,
PUSHV/POPV, macro-local labels, -U).  Statements the model proves faulty (constant defined twice, SET/EQU mixing,
unresolved PUBLIC, section qualifier outside the parent path, undefined reference) are taken out for the value
run and put back, one class at a time, for an error run that must report errors on exactly those lines.
"""
import re
from vf import engine, asl, pfile
from vf import scopemodel as sm
from vf.gen import composite

ID = "C13"
RULE = ("case = one generated program (section tree to depth 4 (5 with a scene wrapped into a section), 1-4 base names "
        "reused at every level in several spellings, optionally with a 40/193/200 character common prefix; EQU/=/EQU "
        "name,value/SET/:=/labels with and without colon/LABEL, constants and variables defined as `symbol+n`; references "
        "plain, name[sect], name[PARENT0..9], name[]; PUBLIC/GLOBAL name[:sect|:PARENTn], FORWARD; the manual's proc/endp "
        "macro pair; macros ({GLOBALSYMBOLS} or not) and REPT bodies with local labels; $$named, nameless + - / with "
        "references of distance 1-3, composed .name and full composed names; PUSHV/POPV sequences on the default and on "
        "named stacks, also finished inside a nested section; deliberately faulty statements) x modes {-U off, -U on, "
        "both} x 4 targets (Z80 dw, 68000 dc.w, 6502 adr, 6809 fdb).  Per mode: value run (faulty and unsettled statements "
        "switched off; every reference word compared, whole code file compared) + one error run per class of faulty "
        "statements (errors on exactly the predicted lines).  non-trivial = a reference that resolves to a non-innermost, "
        "non-global definition, or through a qualifier / PUBLIC / GLOBAL, or to a local definition that follows the "
        "reference while an outer one exists, or a nameless temporary at distance 2-3; distinct by (section tree shape, "
        "set of non-trivial reference classes, modes)")
ASSUMPTIONS = [
    "the observed pass is the final one: every definition of the program is known when a reference is resolved "
    "(manual, FORWARD: 'not a disaster by itself as long as the correct symbol is used in the second pass')",
    "PARENTn with n equal to the nesting depth names the global level ('export a symbol exactly n levels up'); n beyond "
    "that is 'not in the parent section path' and must give an error on the line",
    "name[sect] looks at sections of the parent path only, current section first; section names are unique along every "
    "root path (the manual's 'the lowest level will be taken' for equal names on one path is ambiguous: not generated)",
    "a reference to a symbol exported with PUBLIC finds it in the destination section only (name[PARENT0] in the "
    "defining section is undefined)",
    "GLOBAL: the additional symbol is <section path below the destination joined by _>_<name>; user names contain no "
    "underscore; GLOBAL/PUBLIC are only applied to constants defined exactly once after the statement; an export whose "
    "destination is not a parent, a repeated export, FORWARD without a definition: not generated (model discards)",
    "a definition that is rejected consumes a pending PUBLIC/GLOBAL/FORWARD entry like a successful one (only error "
    "lines are compared in that run)",
    "variables (SET) are only read after their first assignment of the pass (a forward reference to a variable yields "
    "the value left by the previous pass: not documented); such references are switched off",
    "constants/variables defined as `symbol+n`: only when an earlier definition makes the expression computable in "
    "pass 1 (manual: 'an EQU containing forward references will not be done at all in the first pass'), FORWARD "
    "restricting that pass-1 lookup to the current section; never in terms of itself",
    "string-valued symbols (names txt, msg; value = the decimal digits of a number) are read as val(name): VAL with a "
    "symbol that pass 1 does not know is a fatal 'internal error' in asl (by-catch, not C13), so a string symbol is "
    "only read where pass 1 already finds a string under that name, and faulty string reads are not generated into "
    "the error runs; one name is never used for strings and integers; no string labels, expressions, macro bodies",
    "register symbols (68000 only; names rga, rgb; REG and EQU define constants, SET variables; read as source operand "
    "of MOVE.W <sym>,D0 = 3000+register) are, like string symbols, only read where pass 1 already finds a symbol of "
    "that type (manual: 'forward references are even more critical than for other types of symbols'); never in "
    "expressions, macro bodies, PUSHV/POPV",
    "symbols given with -D are global and only referenced or hidden by local definitions, never defined again (asl "
    "enters them as variables, the manual does not say); -U precedes -D on the command line as the manual demands",
    "PUSHV/POPV arguments address symbols that exist at that point exactly (own level plainly, other levels with a "
    "qualifier); POPV only into variables; stacks are balanced at the end of the program; stack names are "
    "case-insensitive without -U ('has to fulfill the general rules for symbol names')",
    "named temporaries follow the manual's counter model: $$x belongs to the area opened by the latest definition of a "
    "non-temporary symbol (macro-local labels, EQU, SET and LABEL included); a rejected definition leaves the area "
    "undetermined: $$ and composed symbols are switched off until the next successful definition",
    "nameless temporaries: '-'*k = k-th last of the - and / labels, '+'*k = k-th next of the + and / labels, counted "
    "over the whole program regardless of sections; a reference is only generated/kept if that label is defined in the "
    "current section or one of its parents (visibility of the generated internal name) and exists (k not beyond the "
    "labels present); definition and reference never share a line",
    "composed temporaries: prefix = most recently defined non-temporary symbol, global and not per section (the manual "
    "says both 'symbol not beginning with a dot' and 'non-temporary symbol': composed symbols directly after a $$ or "
    "nameless label are switched off); prefix keeps its spelling, the whole name is case-folded without -U",
    "temporary symbols, PUSHV/POPV, PUBLIC/GLOBAL/FORWARD are not generated inside macro or REPT bodies (except the "
    "manual's proc macro); section qualifiers on names of macro-local labels are not generated; macros are defined "
    "at global level before use and never nested",
    "errors inside macro bodies are expected at the line of the call; errors inside REPT/IRP bodies are reported by asl "
    "at the line of the ENDM with a context 'REPT n(k)' / 'IRP:arg(k)': they are attributed to the k-th body line",
    "with -U, PARENTn is written in upper case (the manual does not say whether the keyword is case-sensitive)",
    "definitions never carry a [section] suffix (accepted by asl, not documented)",
    "instruction operands: Z80 LD HL,nn (21 ll hh), 68000 MOVE.W #nn,D0 (303C hhll), 6502 JMP nn (4C ll hh), 6809 LDX "
    "#nn (8E hh ll); a reference in an instruction operand never starts with a parenthesis",
    "data words: Z80 DW / 6502 ADR little-endian, 68000 DC.W / 6809 FDB big-endian; one NOP per label line (1/2/1/1 "
    "bytes) so that all labels have distinct values; EQU/SET values are distinct multiples of 8 from 0x2000 up",
]


def budget(tier):
    return dict(examples=6000 if tier == "quick" else 60000, shards=16)


# ------------------------------------------------------------------ execution

def expected_image(prog, res):
    """{address: byte} of the whole program: nops of label lines and the data words of the slots"""
    img = {}
    nop = prog.cpu["nop"]
    big = prog.cpu["big"]
    for ev in prog.events:
        if ev.item is None or ev.kind in ("open", "close", "call"):
            continue
        n = prog._size(ev.item)
        if ev.kind in ("ref", "tref", "nref", "cref"):
            if ev.item.get("ins"):
                for j, b in enumerate(prog.cpu["insb"]):
                    img[ev.addr + j] = b
        elif n:
            for j, b in enumerate(nop):
                img[ev.addr + j] = b
    for s in res.slots:
        v = s.value
        b = v.to_bytes(2, "big" if big else "little")
        img[s.addr], img[s.addr + 1] = b[0], b[1]
    return img


_DIAG = re.compile(r"^> > > (?P<pos>.*?): (?P<kind>error|warning|fatal error|fatal)(?: #(?P<num>\d+))?: (?P<msg>.*)$", re.M)


def errors_of(r, prog):
    """(errors, warnings); each with the source line the message belongs to.  Messages from inside a REPT/IRP
    body carry the line of the ENDM plus 'REPT n(k)' / 'IRP:arg(k)': k-th line of that body; messages from
    inside a macro body carry the line of the call.  Messages without a position get line 0."""
    errs, warns = [], []
    for m in _DIAG.finditer(r.err + "\n" + r.out):
        pos = m.group("pos")
        pm = re.match(r"([^\s(]+)\((\d+)\)(.*)$", pos)
        line = 0
        if pm:
            line = int(pm.group(2))
            cm = re.match(r" (REPT|IRP|IRPC|WHILE)[^(]*\((\d+)\)", pm.group(3))
            if cm and line in prog.header_of_endm:
                line = prog.header_of_endm[line] + int(cm.group(2))
        d = dict(line=line, msg=m.group("msg"), pos=pos)
        (warns if m.group("kind") == "warning" else errs).append(d)
    return errs, warns


def run_mode(prog, U, classes, nts):
    """returns None or (why, detail)"""
    args = ["-U"] if U else []         # -U first: "has to be specified in the command line before any symbol definitions"
    if prog.case.get("D"):
        args += ["-D", ",".join("%s=%d" % (n, v) for n, v in prog.case["D"])]
    mode = "U" if U else "noU"
    off, res, faults = sm.settle(prog, U)
    src = prog.render(frozenset(off))
    r = asl.assemble({"t.asm": src}, args=args)
    if r.timed_out:
        return ("timeout", None)
    brief = dict(mode=mode, src=src, **r.brief(500))
    if r.signal:
        return "asl killed by signal %d" % r.signal, brief
    errs, warns = errors_of(r, prog)
    if r.status != 0 or errs:
        return ("program without faulty statements: exit status %s, %d errors (first: line %s %s)"
                % (r.status, len(errs), errs[0]["line"] if errs else "-", errs[0]["msg"] if errs else "-")), brief
    if warns:
        classes.add("warning:" + warns[0]["msg"][:30])
    if r.p is None:
        return "no code file", brief
    try:
        bm = r.bytemap()
    except pfile.FormatError as e:
        return "code file unreadable: %s" % e, brief
    got = {a: b for (seg, a), b in bm.items()}
    exp = expected_image(prog, res)
    big = prog.cpu["big"]
    for s in res.slots:
        gv = None
        if s.addr in got and s.addr + 1 in got:
            gv = int.from_bytes(bytes([got[s.addr], got[s.addr + 1]]), "big" if big else "little")
        if gv != s.value:
            return ("line %d `%s` (%s): word %s, model expects %s [%s]"
                    % (s.line, s.text or "off", mode, "missing" if gv is None else "%d" % gv, s.value, ",".join(s.tags)),
                    dict(line=s.line, got=gv, exp=s.value, tags=s.tags, **brief))
    if got != exp:
        diff = sorted(a for a in set(got) | set(exp) if got.get(a) != exp.get(a))[:8]
        return "code file differs outside the reference words at %s" % ["%x" % a for a in diff], brief
    classes.update(res.tags)
    for s in res.slots:
        if s.tags and s.tags != ["off"]:
            for t in s.tags:
                classes.add(t)
            nt = nontrivial_of(s)
            if nt:
                nts.add(nt)
    # error runs: one class of faulty statements at a time
    for cls, fl in faults.items():
        if not fl:
            continue
        classes.add("fault:" + cls)
        off_c = frozenset(off - set(fl) - {x for rec in fl.values() for x in rec[2]})
        try:
            chk = sm.evaluate(prog, U, off_c)
        except sm.Discard:
            classes.add("faultrun-skipped")
            continue
        if set(chk.faults[cls]) != set(fl) or any(v for c, v in chk.faults.items() if c != cls) or (chk.disable - off_c):
            classes.add("faultrun-skipped")
            continue
        want = sorted({line for rec in fl.values() for line in rec[0]})
        src = prog.render(off_c)
        r = asl.assemble({"t.asm": src}, args=args)
        if r.timed_out:
            return ("timeout", None)
        brief = dict(mode=mode, cls=cls, src=src, want=want, whys=[rec[1] for rec in fl.values()], **r.brief(800))
        if r.signal:
            return "asl killed by signal %d" % r.signal, brief
        errs, warns = errors_of(r, prog)
        gotl = sorted({e["line"] for e in errs})
        if gotl != want or r.status == 0:
            miss = [l for l in want if l not in gotl]
            extra = [l for l in gotl if l not in want]
            return ("faulty statements (%s, %s): errors expected on lines %s; missing on %s, unexpected on %s, status %s"
                    % (cls, mode, want, miss, extra, r.status), brief)
        for rec in fl.values():
            classes.add("fault:" + rec[1].split(" ")[0])
    return None


def nontrivial_of(s):
    t = set(s.tags)
    out = []
    if "form:plain" in t and any(x.startswith("up") and x not in ("up0", "upglobal") for x in t):
        out.append("outer")
    if "form:name" in t or "form:parent" in t or "form:empty" in t:
        out.append([x for x in t if x.startswith("form:")][0][5:])
    if "via-public" in t or "via-global" in t:
        out.append("export")
    if "before-def" in t and any(x.startswith("shadowing") for x in t):
        out.append("late-local")
    if "dist2" in t or "dist3" in t:
        out.append("nameless-far")
    return "+".join(sorted(out)) if out else None


def shape(items, depth=0):
    return "".join(("(" if i["k"] == "sect" else "<") + shape(i["items"], depth + 1) + (")" if i["k"] == "sect" else ">")
                   for i in items if i["k"] in ("sect", "proc"))


def item_classes(items, classes, depth=0):
    for it in items:
        k = it["k"]
        if k in ("sect", "proc"):
            classes.add("depth%d" % (depth + 1))
            if k == "proc":
                classes.add("proc-macro")
            item_classes(it["items"], classes, depth + 1)
        elif k in ("pushv", "popv"):
            classes.add(k)
            classes.add("stack:" + ("named" if it["s"] else "default"))
            if len(it["a"]) > 1:
                classes.add(k + "-list")
        elif k == "irp":
            classes.add("irp")
            item_classes(it["body"], classes, depth)
        elif k == "rept":
            classes.add("rept" + ("-globalsymbols" if it.get("glob") else "") + ("-zero" if it["c"] == 0 else ""))
            item_classes(it["body"], classes, depth)
        elif k == "def":
            classes.add("def:" + it["how"] + ("-expr" if it.get("of") else ""))
        elif k == "pub":
            classes.add("global" if it.get("g") else "public")
            if it.get("more"):
                classes.add("export-list")
            q = it.get("q")
            classes.add("export-to:" + ("global" if q is None else "name" if q[0] == "=" else "parent"))
        elif k in ("fwd", "call", "tdef", "ndef", "cdef"):
            classes.add("stmt:" + k)


def execute(case):
    classes = set(["cpu:" + case["cpu"]])
    if case.get("long"):
        classes.add("long-names:%d" % case["long"])
    item_classes(case["prog"], classes)
    nts = set()
    try:
        prog = sm.Prog(case)
        for U in case["modes"]:
            classes.add("mode:" + ("U" if U else "noU"))
            bad = run_mode(prog, U, classes, nts)
            if bad is not None:
                if bad[0] == "timeout":
                    return engine.inconclusive("timeout", sorted(classes))
                return engine.bad(bad[0], None, sorted(classes), **(bad[1] or {}))
    except sm.Discard as e:
        return engine.discarded(str(e), sorted(classes))
    key = None
    if nts:
        key = "%s|%s|%s" % (shape(case["prog"]), ",".join(sorted(nts)), "".join(str(m) for m in case["modes"]))
    return engine.ok(key, sorted(classes))


def show(case):
    try:
        return sm.Prog(case).render().split("\n")
    except Exception as e:
        return repr(e)


# ------------------------------------------------------------------ generator

NAMES = ["sym", "lab", "val", "cnt", "foo", "bar", "k9", "dot.ted"]
SECTS = ["ModA", "ModB", "ProcA", "Sub", "Inner", "Leaf", "sym", "lab"]
RNAMES = ["rga", "rgb"]          # names of register symbols (68000 only)
SNAMES = ["txt", "msg"]          # names of string-valued symbols (read through VAL())
TEMPS = ["t", "loop"]
DOTS = ["loop", "skip"]
STACKS = ["", "stk", "Other", "Aaa"]


def variants(base):
    return [base, base.upper(), base.capitalize(), base[0] + base[1:].upper()]


class Frame:
    def __init__(self, name, plan):
        self.name = name          # spelled section name (None: global level)
        self.plan = set(plan)     # base names this level intends to define (visible below)
        self.kinds = {}           # folded name -> 'const' | 'var'
        self.spelled = {}         # folded name -> spelling of the (first) definition
        self.pending = []         # definitions owed because of PUBLIC/GLOBAL/FORWARD
        self.exported = set()     # folded names named in PUBLIC/GLOBAL/FORWARD
        self.vars = []            # spelled names of variables assigned so far
        self.consts = []          # spelled names of constants defined so far
        self.subs = set()
        self.called = set()
        self.extra = []           # composite names created here by GLOBAL in sub-sections
        self.todo = []            # planned definitions not yet written


class Gen:
    def __init__(self, d, tier, modes):
        self.d = d
        self.modes = modes
        self.value = 0x2000 + d.int(0, 50) * 64
        self.budget = d.int(8, 70 if tier == "quick" else 110)
        self.nvar = 3 if 1 in modes else 4
        self.minus = 0
        self.macros = []
        self.frames = []
        self.fault_p = d.choice([0, 0, 0.02, 0.05])

    # ---- small helpers
    def val(self):
        self.value += 8
        return self.value

    def is_str(self, name):
        return self.fold(name) in self.sfold

    def is_reg(self, name):
        return self.fold(name) in self.rfold

    def typ(self, name):
        return "str" if self.is_str(name) else "reg" if self.is_reg(name) else "int"

    def spell(self, base):
        d = self.d
        v = variants(base)[:self.nvar]
        return v[d.weighted([(6, 0), (2, 1), (2, 2), (1, 3)][:len(v)])]

    def fold(self, s):
        return s.upper()

    def fault(self):
        return self.fault_p and self.d.bool(self.fault_p)

    def take(self, n=1):
        self.budget -= n
        return self.budget > 0

    def visible_names(self):
        s = set()
        for f in self.frames:
            s |= f.plan
        return sorted(s) or self.names

    def qualifier(self, base=None):
        """a random section qualifier for the current position (mostly one that names a level planning `base`)"""
        d = self.d
        depth = len(self.frames) - 1
        q = d.weighted([(6, None), (2, "name"), (3, "parent"), (1, "")])
        it = {}
        homes = [i for i, fr in enumerate(self.frames) if base in fr.plan] if base else []
        if q == "name":
            if self.fault():
                return dict(q="=" + d.choice(SECTS + ["Nowhere"]))
            if depth == 0:
                return dict(q="")
            i = d.choice([h for h in homes if h > 0] or [0]) if d.bool(0.8) else 0
            f = self.frames[i] if i else d.choice(self.frames[1:])
            return dict(q="=" + self.respell_sect(f.name))
        if q == "parent":
            if self.fault():
                k = d.int(depth + 1, 9)
            elif homes and d.bool(0.8):
                k = depth - d.choice(homes)
            else:
                k = d.int(0, depth)
            it["q"] = "P" if k == 1 and d.bool() else "P%d" % k
            if self.modes == [0] and d.bool(0.3):
                it["pl"] = True
            return it
        return dict(q=q)

    def respell_sect(self, name):
        d = self.d
        if d.bool(0.7):
            return name
        return d.choice([name.upper(), name.lower(), name])

    def ref(self, name=None):
        d = self.d
        if name is None:
            if self.fault():
                name = "nix"
            else:
                extras = [(i, x) for i, fr in enumerate(self.frames) for x in fr.extra]
                if extras and d.bool(0.15):
                    i, x = d.choice(extras)
                    if 1 not in self.modes and d.bool(0.4):
                        x = d.choice([x.upper(), x.lower()])
                    k = len(self.frames) - 1 - i
                    it = dict(k="ref", n=x, q=d.choice([None, None, "P%d" % k]))
                    if self.is_str(x.split("_")[-1]):
                        it["str"] = True
                    if self.is_reg(x.split("_")[-1]):
                        it["reg"] = True
                    return it
                base = d.choice(self.visible_names()) if d.bool(0.9) else d.choice(self.names)
                it = dict(k="ref", n=self.spell(base))
                if self.is_str(base):
                    it["str"] = True
                if self.is_reg(base):
                    it["reg"] = True
                it.update(self.qualifier(base))
                return it
        it = dict(k="ref", n=name)
        it.update(self.qualifier())
        return it

    # ---- definitions
    def definition(self, f, base=None, const_only=False, how=None):
        d = self.d
        if base is None:
            pl = sorted(f.plan)
            base = d.choice(pl) if pl and d.bool(0.7) else d.choice(self.names)
        name = self.spell(base)
        N = self.fold(name)
        if N in f.exported:
            return None         # owed to a PUBLIC/GLOBAL/FORWARD: written by pending_def()
        is_str = self.is_str(name)
        is_reg = self.is_reg(name)
        if is_reg and how is None:
            how = d.weighted([(4, "reg"), (2, "equ")] + ([] if const_only else [(3, "set")]))
        if is_str and how is None:
            how = d.weighted([(4, "equ"), (1, "="), (1, "equ2")] + ([] if const_only else [(5, "set"), (2, ":=")]))
        if how is None:
            how = d.weighted([(4, "equ"), (3, "lab:"), (2, "lab"), (1, "="), (1, "equ2"), (1, "label")]
                             + ([] if const_only else [(3, "set"), (1, ":=")]))
        kind = "var" if how in sm.VAR_HOW else "const"
        old = f.kinds.get(N)
        if old is not None and not (old == "var" and kind == "var") and not self.fault():
            if old == "var" and not const_only:
                how, kind = d.choice(["set", ":="]), "var"
                if 1 in self.modes:
                    name = f.spelled[N]
            elif 1 in self.modes and d.bool(0.5) and name != f.spelled[N]:
                pass            # another spelling: a distinct symbol under -U, a redefinition without
            else:
                return None
        if old == "var" and kind == "var" and 1 in self.modes and d.bool(0.8):
            name = f.spelled[N]
        it = dict(k="def", n=name, how=how)
        if is_str:
            it["str"] = True
        if is_reg:
            it["reg"] = True
            it["v"] = d.int(0, 15)
        elif how not in sm.LABEL_HOW:
            it["v"] = self.val()
            if not is_str and d.bool(0.2):
                of = self.alias_target(f, N if kind == "var" and old == "var" else None, N, kind)
                if of is not None:
                    it["of"] = of
                    it["v"] = d.int(1, 7)
        if old is None:
            f.kinds[N] = kind
            f.spelled[N] = name
        f.plan.add(base)
        if kind == "var" and (old in (None, "var")):
            if name not in f.vars:
                f.vars.append(name)
        elif kind == "const" and old is None:
            f.consts.append(name)
        return it

    def alias_target(self, f, selfname, N, kind):
        """a symbol that has a value at this point (written earlier), addressed plainly or with a qualifier"""
        d = self.d
        if selfname is not None and d.bool(0.6):
            mine = [x for x in self.sym_args(True, typ=False) if self.fold(x[0]) == selfname and None in x[1]]
            if mine:
                return dict(n=mine[0][0], q=None)
        # never the name being defined (a constant defined by itself does not converge), variables rarely
        pool = (self.sym_args(False, typ=False) if kind == "var" or d.bool(0.1)
                else self.sym_args(False, consts_only=True, typ=False))
        pool = [x for x in pool if self.fold(x[0]) != N]
        if not pool:
            return None
        n, forms = d.choice(pool)
        return dict(n=n, q=None if d.bool(0.6) else d.choice(forms))

    # ---- exports
    def export(self, f, out):
        d = self.d
        depth = len(self.frames) - 1
        cand = [b for b in self.names if self.fold(b) not in f.kinds and self.fold(b) not in f.exported]
        if not cand or depth == 0:
            return
        base = d.choice(cand)
        name = self.spell(base)
        N = self.fold(name)
        kind = d.weighted([(4, "pub"), (3, "glob"), (3, "fwd")])
        if kind == "fwd":
            f.exported.add(N)
            out.append(dict(k="fwd", n=name))
            if self.fault():
                out.append(dict(k="pub", n=name, q=None, g=d.bool()))
            f.pending.append((name, kind, None))
            return
        qk = d.weighted([(3, "none"), (3, "parent"), (2, "name")])
        dest = 0
        if qk == "none":
            q = None
        elif qk == "parent":
            k = d.int(1, depth)
            dest = depth - k
            q = "P" if k == 1 and d.bool() else "P%d" % k
        else:
            dest = d.int(0, depth - 1)
            q = ("=" + (self.frames[dest].name if 1 in self.modes else self.respell_sect(self.frames[dest].name))) if dest > 0 else None
        df = self.frames[dest]
        comp = "_".join(x.name for x in self.frames[dest + 1:]) + "_" + name
        target = N if kind == "pub" else self.fold(comp)
        if target in df.kinds and not self.fault():
            return
        f.exported.add(N)
        out.append(dict(k="pub", n=name, q=q, g=(kind == "glob")))
        if kind == "pub":
            df.plan.add(base)
            df.kinds.setdefault(N, "const")
            df.spelled.setdefault(N, name)
            if self.fault():
                out.append(dict(k="fwd", n=name))
            if self.fault():
                return              # PUBLIC that is never resolved
        else:
            df.kinds.setdefault(target, "const")
            df.spelled.setdefault(target, comp)
            df.extra.append(comp)
        f.pending.append((name, kind, dest))

    def pending_def(self, f, out):
        d = self.d
        name, kind, dest = f.pending.pop(d.int(0, len(f.pending) - 1))
        how = d.weighted([(4, "equ"), (3, "lab:"), (2, "lab"), (1, "="), (1, "label")])
        if self.is_str(name):
            how = d.choice(["equ", "=", "equ2"])
        if self.is_reg(name):
            how = d.choice(["reg", "equ"])
        it = dict(k="def", n=name, how=how)
        if self.is_str(name):
            it["str"] = True
        if self.is_reg(name):
            it["reg"] = True
            it["v"] = d.int(0, 15)
        elif how not in sm.LABEL_HOW:
            it["v"] = self.val()
        N = self.fold(name)
        if kind != "pub":
            f.kinds[N] = "const"
            f.spelled[N] = name
            f.consts.append(name)
        out.append(it)

    # ---- temporary symbol scenes
    def wrap(self, items, f):
        """optionally move a contiguous part of a scene into a nested section"""
        d = self.d
        if len(self.frames) > 4 or len(items) < 2 or not d.bool(0.3):
            return items
        a = d.int(0, len(items) - 1)
        b = d.int(a + 1, len(items))
        if any(x["k"] == "def" for x in items[a:b]):
            return items        # definitions are registered with the enclosing frame: keep them there
        name = self.new_sect_name(f)
        if name is None:
            return items
        return items[:a] + [dict(k="sect", n=name, end=None, items=items[a:b])] + items[b:]

    def scene_named(self, f):
        d = self.d
        out = []
        for _ in range(d.int(1, 2)):
            lead = self.definition(f)
            if lead is not None:
                out.append(lead)
            names = d.shuffle(TEMPS)[:d.int(1, 2)]
            body = []
            for t in names:
                body.append(dict(k="tdef", n=self.spell(t)))
                for _ in range(d.int(1, 2)):
                    body.append(dict(k="tref", n=self.spell(t)))
            body = d.shuffle(body)
            if d.bool(0.3):
                body.insert(d.int(0, len(body)), self.ref())
            out += body
        self.take(len(out))
        return self.wrap(out, f)

    def scene_nameless(self, f):
        d = self.d
        out = []
        need = 0
        for _ in range(d.int(2, 8)):
            w = d.weighted([(3, "def"), (3, "back"), (3, "fwd"), (1, "other")])
            if w == "def":
                c = d.weighted([(3, "-"), (3, "+"), (2, "/")])
                out.append(dict(k="ndef", c=c))
                if c in "-/":
                    self.minus += 1
                if c in "+/":
                    need = max(0, need - 1)
            elif w == "back":
                if self.minus == 0:
                    out.append(dict(k="ndef", c="-"))
                    self.minus += 1
                out.append(dict(k="nref", c="-", d=d.int(1, min(3, self.minus))))
            elif w == "fwd":
                k = d.int(1, 3)
                out.append(dict(k="nref", c="+", d=k))
                need = max(need, k)
            else:
                x = self.definition(f) if d.bool() else self.ref()
                if x is not None:
                    out.append(x)
        for _ in range(need):
            c = d.choice("+/")
            out.append(dict(k="ndef", c=c))
            if c == "/":
                self.minus += 1
        self.take(len(out))
        return self.wrap(out, f)

    def scene_composed(self, f):
        d = self.d
        out = []
        fulls = []
        for _ in range(d.int(1, 2)):
            lead = self.definition(f, const_only=d.bool(0.7))
            if lead is None:
                continue
            out.append(lead)
            body = []
            for n in d.shuffle(DOTS)[:d.int(1, 2)]:
                sp = self.spell(n)
                body.append(dict(k="cdef", n=sp, colon=d.bool()))
                fulls.append(lead["n"] + "." + sp)
                for _ in range(d.int(1, 2)):
                    body.append(dict(k="cref", n=self.spell(n)))
            out += d.shuffle(body)
        for full in fulls:
            if d.bool(0.5):
                if 1 not in self.modes and d.bool(0.5):
                    full = d.choice([full.upper(), full.lower()])
                out.insert(d.int(0, len(out)), dict(k="ref", n=full, q=None))
        self.take(len(out))
        return self.wrap(out, f)

    # ---- PUSHV / POPV
    def sym_args(self, want_var, consts_only=False, typ=None):
        """exactly addressed symbols that exist at this point: list of dict(n, q)"""
        depth = len(self.frames) - 1
        out = []
        for i, f in enumerate(self.frames):
            k = depth - i
            for n in (f.vars if want_var else f.consts if consts_only else f.vars + f.consts):
                N = self.fold(n)
                if want_var and f.kinds.get(N) != "var":
                    continue
                if "." in n and not n.endswith("dot.ted"):
                    continue
                if typ is not None and self.typ(n) != ("str" if typ else "int"):
                    continue
                if typ is None and self.is_reg(n):
                    continue
                forms = [("P%d" % k)]
                if k == 0:
                    forms.append(None)
                if i == 0:
                    forms.append("")
                else:
                    forms.append("=" + f.name)
                out.append((n, forms))
        return out

    def scene_stack(self, f):
        d = self.d
        typ = bool(self.sym_args(True, typ=True)) and d.bool(0.4)      # a scene saves strings or integers
        vars_ = self.sym_args(True, typ=typ)
        if not vars_:
            x = self.definition(f, how="set")
            return [x] if x is not None else []
        allsyms = self.sym_args(False, typ=typ)
        out = []
        depth = {}
        flag = dict(str=True) if typ else {}
        stacks = d.shuffle(STACKS)[:d.weighted([(3, 1), (3, 2), (2, 3), (1, 4)])]

        def arg(pool):
            n, forms = d.choice(pool)
            return dict(n=n, q=d.choice(forms))

        for _ in range(d.int(1, 3 + 2 * len(stacks))):
            s = d.choice(stacks)
            sp = s if (not s or 1 in self.modes or d.bool(0.6)) else d.choice([s.upper(), s.lower()])
            if depth.get(s, 0) and d.bool(0.45):
                n = d.int(1, min(3, depth[s]))
                out.append(dict(k="popv", s=sp, a=[arg(vars_) for _ in range(n)]))
                depth[s] -= n
            else:
                n = d.int(1, 3)
                out.append(dict(k="pushv", s=sp, a=[arg(allsyms if d.bool(0.3) else vars_) for _ in range(n)]))
                depth[s] = depth.get(s, 0) + n
            for _ in range(d.int(0, 2)):
                n, forms = d.choice(vars_)
                if d.bool(0.5):
                    out.append(dict(k="ref", n=n, q=d.choice(forms), **flag))
                elif None in forms:
                    out.append(dict(k="def", n=n, how=d.choice(["set", ":="]), v=self.val(), **flag))
        for s in stacks:
            while depth.get(s, 0):
                n = d.int(1, min(3, depth[s]))
                out.append(dict(k="popv", s=s, a=[arg(vars_) for _ in range(n)]))
                depth[s] -= n
                n2, forms = d.choice(vars_)
                out.append(dict(k="ref", n=n2, q=d.choice(forms), **flag))
        self.take(len(out))
        if len(self.frames) <= 4 and len(out) > 2 and d.bool(0.3):
            # "stacks are a global resource, i.e. their names are not local to sections": finish inside a section
            name = self.new_sect_name(f)
            if name is not None:
                cut = d.int(1, len(out) - 1)

                def deeper(a):
                    q = a.get("q")
                    if q is not None and q[:1] == "P":
                        return dict(a, q="P%d" % ((1 if q == "P" else int(q[1:])) + 1))
                    return a
                tail = []
                for x in out[cut:]:
                    if x["k"] in ("pushv", "popv"):
                        x = dict(x, a=[deeper(a) for a in x["a"]])
                    elif x["k"] == "ref":
                        x = deeper(x)
                    elif x["k"] == "def":
                        break           # an assignment must stay at its level
                    tail.append(x)
                if len(tail) == len(out) - cut:
                    out = out[:cut] + [dict(k="sect", n=name, end=None, items=tail)]
        return out

    # ---- sections and blocks
    def new_sect_name(self, f):
        d = self.d
        path = {self.fold(x.name) for x in self.frames[1:]}
        cand = [s for s in SECTS if self.fold(s) not in f.subs and self.fold(s) not in path]
        if not cand:
            return None
        name = d.choice(cand)
        f.subs.add(self.fold(name))
        if d.bool(0.3):
            name = d.choice(variants(name)[:3])
        return name

    def block(self, f):
        d = self.d
        out = []
        depth = len(self.frames) - 1
        n = d.int(2, 8)
        f.todo = d.shuffle(sorted(f.plan))
        made_sect = False
        force_at = d.int(0, n - 1) if depth < self.target_depth else -1
        for i in range(n):
            if i == force_at and not made_sect:
                x = self.section(f)
                if x is not None:
                    out.append(x)
                    made_sect = True
                continue
            if not self.take():
                break
            if f.pending and d.bool(0.4):
                self.pending_def(f, out)
                continue
            deeper = depth < self.target_depth
            what = d.weighted([(5, "def"), (8, "ref"), ((5 if deeper else 2) if depth < 4 else 0, "sect"),
                               (2 if depth else 0, "export"), (2 if self.macros else 0, "call"), (1, "named"),
                               (1, "nameless"), (1, "composed"), (1, "stack"), (1, "rept"), (1, "irp")])
            if what == "def":
                x = self.definition(f, base=f.todo.pop() if f.todo and d.bool(0.8) else None)
                if x is not None:
                    out.append(x)
            elif what == "ref":
                out.append(self.ref())
            elif what == "sect":
                x = self.section(f)
                if x is not None:
                    out.append(x)
                    made_sect = True
            elif what == "export":
                self.export(f, out)
                if d.bool(0.4):
                    self.export(f, out)
            elif what == "call":
                self.call(f, out)
            elif what == "named":
                out += self.scene_named(f)
            elif what == "nameless":
                out += self.scene_nameless(f)
            elif what == "composed":
                out += self.scene_composed(f)
            elif what == "stack":
                out += self.scene_stack(f)
            elif what == "rept":
                out += self.rept(f)
            elif what == "irp":
                out.append(self.irp(f))
        if depth < self.target_depth and not made_sect:
            x = self.section(f)
            if x is not None:
                out.append(x)
        while f.todo:
            x = self.definition(f, base=f.todo.pop())
            if x is not None:
                out.append(x)
        while f.pending:
            self.pending_def(f, out)
        return self.merge_exports(out)

    def merge_exports(self, out):
        """PUBLIC a / PUBLIC b -> PUBLIC a,b (same for GLOBAL, FORWARD) for some neighbours"""
        d = self.d
        res = []
        for it in out:
            p = res[-1] if res else None
            if (p is not None and it["k"] in ("pub", "fwd") and p["k"] == it["k"] and bool(p.get("g")) == bool(it.get("g"))
                    and "more" not in it and d.bool(0.6)):
                p.setdefault("more", []).append([it["n"], it.get("q")])
            else:
                res.append(it)
        return res

    def section(self, f):
        d = self.d
        name = self.new_sect_name(f)
        if name is None:
            return None
        N = self.fold(name)
        proc = self.procs and N not in f.kinds and N not in f.exported and d.bool(0.4)
        if proc:
            # the entry label becomes a constant of this level the moment the macro is called
            f.kinds[N] = "const"
            f.spelled[N] = name
            f.consts.append(name)
            if name in self.names:
                f.plan.add(name)
        sub = Frame(name, d.subset(self.names, 0.45))
        self.frames.append(sub)
        items = self.block(sub)
        self.frames.pop()
        if proc:
            return dict(k="proc", n=name, items=items)
        end = None
        if d.bool(0.5):
            end = name if 1 in self.modes else self.respell_sect(name)
        return dict(k="sect", n=name, end=end, items=items)

    def call(self, f, out):
        d = self.d
        m = d.choice(self.macros)
        for name, kind in m["defs"]:
            N = self.fold(name)
            old = f.kinds.get(N)
            if N in f.exported or (old is not None and not (old == "var" and kind == "var")):
                return
        for name, kind in m["defs"]:
            N = self.fold(name)
            f.kinds.setdefault(N, kind)
            f.spelled.setdefault(N, name)
            if kind == "var" and name not in f.vars:
                f.vars.append(name)
        out.append(dict(k="call", m=m["name"]))

    def rept(self, f):
        """REPT body with labels local to each repetition, references to them and to outer symbols, and the
        counter idiom  v set v+n"""
        d = self.d
        pre = []
        body = []
        labels = d.shuffle(self.inames)[:d.int(1, 2)]
        for b in labels:
            sp = self.spell(b)
            body.append(dict(k="def", n=sp, how=d.choice(["lab", "lab:"])))
            for _ in range(d.int(1, 2)):
                body.append(dict(k="ref", n=sp if 1 in self.modes else self.spell(b), q=None))
        body = d.shuffle(body)
        if d.bool(0.6):
            cand = [n for n in f.vars if self.fold(n) not in {self.fold(self_) for self_ in labels} and self.typ(n) == "int"]
            if cand:
                v = d.choice(cand)
                body.insert(d.int(0, len(body)), dict(k="def", n=v, how=d.choice(["set", ":="]), v=d.int(1, 7),
                                                      of=dict(n=v, q=None)))
                body.insert(d.int(0, len(body)), dict(k="ref", n=v, q=None))
        self.take(len(body))
        c = d.weighted([(3, 1), (3, 2), (2, 3), (1, 0)])
        it = dict(k="rept", c=c, body=body)
        if c == 1 and d.bool(0.3):
            # {GLOBALSYMBOLS}: the labels belong to the enclosing level
            ok = True
            for x in body:
                if x["k"] == "def" and x["how"] in ("lab", "lab:"):
                    N = self.fold(x["n"])
                    if N in f.kinds or N in f.exported:
                        ok = False
            if ok:
                it["glob"] = True
                for x in body:
                    if x["k"] == "def" and x["how"] in ("lab", "lab:"):
                        N = self.fold(x["n"])
                        f.kinds[N] = "const"
                        f.spelled[N] = x["n"]
                        f.consts.append(x["n"])
        return pre + [it]

    def irp(self, f):
        """IRP over symbol names: the references are made by parameter substitution"""
        d = self.d
        vis = self.visible_names()
        typ = self.typ(d.choice(vis))
        vis = [b for b in vis if self.typ(b) == typ]
        args = [self.spell(d.choice(vis)) for _ in range(d.int(1, 3))]
        body = []
        for _ in range(d.int(1, 3)):
            x = dict(k="ref", n="arg", **({typ: True} if typ != "int" else {}))
            x.update(self.qualifier())
            if d.bool(0.3):
                x = self.ref()
            body.append(x)
        self.take(len(body))
        return dict(k="irp", p="arg", a=args, body=body)

    def macro(self, name):
        d = self.d
        glob = d.bool(0.2)
        body = []
        defs = []
        labels = d.shuffle(self.inames)[:d.int(1, 2)]
        for b in labels:
            x = dict(k="def", n=self.spell(b), how=d.choice(["lab", "lab:"]))
            body.append(x)
            if glob:
                defs.append((x["n"], "const"))
            for _ in range(d.int(1, 2)):
                body.append(dict(k="ref", n=self.spell(b), q=None))
        body = d.shuffle(body)
        for _ in range(d.int(0, 2)):
            other = [b for b in self.inames if b not in labels and self.fold(b) not in {self.fold(n) for n, _ in defs}]
            if not other:
                break
            b = d.choice(other)
            w = d.weighted([(4, "ref"), (1, "set"), (1, "label")])
            if w == "ref":
                x = dict(k="ref", n=self.spell(b), q=d.weighted([(5, None), (1, ""), (1, "P0"), (1, "P1")]))
            elif w == "set":
                x = dict(k="def", n=b, how="set", v=self.val())
                defs.append((b, "var"))
            else:
                x = dict(k="def", n=self.spell(b), how="label")
                defs.append((x["n"], "const"))
            body.insert(d.int(0, len(body)), x)
        self.take(len(body))
        return dict(name=name, glob=glob, body=body, defs=defs)


def decorate(d, items):
    """put some references into small expressions"""
    for it in items:
        k = it["k"]
        if it.get("reg"):
            continue
        if k in ("ref", "tref", "cref", "nref") and d.bool(0.12):
            it["ins"] = True
        if k in ("ref", "tref", "cref") and d.bool(0.15):
            # no leading parenthesis in an instruction operand: that is addressing-mode syntax on most targets
            it["x"] = [d.choice(["+", "pre", "-", "sp"] + ([] if it.get("ins") else ["()"])), d.int(1, 7)]
        elif k in ("sect", "proc"):
            decorate(d, it["items"])
        elif k in ("rept", "irp"):
            decorate(d, it["body"])


@composite
def strategy_(d, tier):
    modes = d.weighted([(4, [0]), (2, [1]), (3, [0, 1])])
    g = Gen(d, tier, modes)
    cpu = d.choice(sorted(sm.CPUS))
    prefix = d.weighted([(12, ""), (1, "x" * 40), (1, "LongCommonPrefix" * 12 + "x"), (1, "q" * 200)])
    g.inames = [prefix + n for n in d.shuffle(NAMES)[:d.int(1, 4)]]
    g.snames = [prefix + n for n in d.shuffle(SNAMES)[:d.weighted([(5, 0), (3, 1), (2, 2)])]]
    g.rnames = [prefix + n for n in d.shuffle(RNAMES)[:d.weighted([(1, 0), (2, 1), (2, 2)])]] if cpu == "68000" else []
    g.names = g.inames + g.snames + g.rnames
    g.sfold = {g.fold(n) for n in g.snames}
    g.rfold = {g.fold(n) for n in g.rnames}
    g.procs = d.bool(0.3)
    g.target_depth = d.weighted([(1, 0), (2, 1), (3, 2), (3, 3), (3, 4)])
    for i in range(d.weighted([(5, 0), (3, 1), (2, 2)])):
        g.macros.append(g.macro(["MACA", "MacB"][i]))
    top = Frame(None, d.subset(g.names, 0.6))
    D = []
    if d.bool(0.25):
        # symbols from the command line: global, only referenced or hidden by local definitions, never redefined
        for b in d.shuffle(g.inames)[:d.int(1, 2)]:
            name = g.spell(b)
            D.append([name, g.val()])
            top.kinds[g.fold(name)] = "const"
            top.spelled[g.fold(name)] = name
            top.exported.add(g.fold(name))      # keeps definition() away from the name at global level
            top.plan.add(b)
            top.consts.append(name)
    g.frames.append(top)
    prog = g.block(top)
    while g.budget > 0:
        more = g.block(top)
        if not more:
            break
        prog += more
    macros = [dict(name=m["name"], glob=m["glob"], body=m["body"]) for m in g.macros]
    decorate(d, prog)
    for m in macros:
        decorate(d, m["body"])
    case = dict(cpu=cpu, modes=modes, macros=macros, prog=prog)
    if g.procs:
        case["procs"] = True
    if D:
        case["D"] = D
    if prefix:
        case["long"] = len(prefix)
    return case


def strategy(tier):
    return strategy_(tier)


def fixed_cases(tier):
    R = lambda n, q=None: dict(k="ref", n=n, q=q)
    E = lambda n, v, how="equ", **k: dict(k="def", n=n, how=how, v=v, **k)
    L = lambda n, how="lab:": dict(k="def", n=n, how=how)
    S = lambda n, items, end=None: dict(k="sect", n=n, end=end, items=items)
    C = lambda prog, cpu="68000", modes=(0,), macros=(), **k: dict(cpu=cpu, modes=list(modes), macros=list(macros),
                                                                   prog=prog, **k)
    out = []
    # the manual's example table (Nesting and Scope Rules), with every qualifier form
    out.append(C([
        E("sym", 0x2000), R("sym"),
        S("ModuleA", [R("sym"),
                      S("ProcA1", [E("sym", 0x2005), R("sym"), R("sym", "=ModuleA"), R("sym", "")], "ProcA1"),
                      S("ProcA2", [R("sym"), E("sym", 0x200a), R("sym", "P0"), R("sym", "P2")], "ProcA2")], "ModuleA"),
        S("ModuleB", [E("sym", 0x200f), S("ProcB", [R("sym"), R("sym", "P"), R("sym", "=ModuleB")], "ProcB")], "ModuleB"),
    ], modes=(0, 1)))
    # regression: a local symbol defined after its use must replace the outer one found in pass 1 (sections, macro
    # bodies, REPT bodies, PUBLIC into a level whose outer symbol was used, constants defined by such a reference)
    for cpu in sorted(sm.CPUS):
        out.append(C([E("sym", 0x2000), S("ModA", [R("sym"), E("sym", 0x2008), R("sym")])], cpu=cpu))
    out.append(C([L("sym"), dict(k="call", m="MACA"), R("sym")], cpu="z80",
                 macros=[dict(name="MACA", glob=False, body=[R("sym"), L("sym", "lab"), R("sym")])]))
    out.append(C([E("sym", 0x2000), dict(k="rept", c=2, body=[R("sym"), L("sym"), R("sym")]), R("sym")], cpu="6502"))
    out.append(C([E("sym", 0x2000), S("A", [R("sym"), S("B", [dict(k="pub", n="sym", q="P", g=False), R("sym"),
                                                                E("sym", 0x2008)]), R("sym")]), R("sym")], cpu="6809"))
    out.append(C([E("sym", 0x2000), S("A", [E("val", 1, of=dict(n="sym", q=None)), R("val"), E("sym", 0x2008)])]))
    # regression: every definition of a non-temporary symbol opens a new area for $$ symbols
    T = lambda n: dict(k="tdef", n=n)
    TR = lambda n: dict(k="tref", n=n)
    out.append(C([E("v", 1, "set"), T("t"), TR("t"), E("v", 2, "set"), T("t"), TR("t"), E("v", 3, ":="), TR("t"), T("t")],
                 cpu="6502", modes=(0, 1)))
    out.append(C([L("first"), TR("t"), S("s", [L("first")]), T("t")], cpu="6502"))
    out.append(C([L("a"), T("x"), S("s", [TR("x"), L("a"), T("x"), TR("x")]), TR("x")], cpu="z80"))
    # regression: an EQU that waits for a later pass (forward label) still opens a new area in every pass
    CD = lambda n: dict(k="cdef", n=n)
    CR = lambda n: dict(k="cref", n=n)
    out.append(C([E("v1", 1, of=dict(n="fwd", q=None)), TR("skip"), T("skip"), R("v1"), L("fwd")], cpu="6502"))
    out.append(C([L("glob"), E("v1", 2, of=dict(n="fwd", q=None)), CR("loc"), CD("loc"), R("v1"), L("fwd")]))
    # the manual's named example: the same $$loop on both sides of a label
    out.append(C([T("loop"), TR("loop"), L("split"), T("loop"), TR("loop")]))
    # FORWARD and the spelling of the reference: in pass 1 a reference to an announced name must not find the outer
    # symbol of that name, however it is spelled (outside -U).  The outer value does not fit a data word: bound to it,
    # the reference is refused in pass 1
    for cpu in sorted(sm.CPUS):
        out.append(C([E("big", 70000), S("s", [dict(k="fwd", n="big"), R("Big"), R("big"), R("BIG"), E("big", 5), R("bIG")])],
                     cpu=cpu))
        out.append(C([E("BIG", 70000), S("outer", [S("s", [dict(k="fwd", n="Big"), R("big"), L("Big"), R("BIG")])])], cpu=cpu))
    # regression: FORWARD does not redirect references that carry a section
    out.append(C([E("val", 0x2000, "set"),
                  S("s", [dict(k="fwd", n="val"), dict(k="pushv", s="", a=[dict(n="val", q="")]),
                          E("val", 0x2008, "set", ), dict(k="popv", s="", a=[dict(n="val", q="P")]), R("val", ""), R("val"),
                          ])], cpu="6809"))
    # the manual's nameless example, references as data words
    N = lambda c: dict(k="ndef", c=c)
    NR = lambda c, d: dict(k="nref", c=c, d=d)
    out.append(C([N("-"), N("-"), NR("-", 1), NR("+", 1), N("+"), NR("-", 2), L("SomeRtn"), L("RealSymbol"), NR("+", 1),
                  N("+"), NR("+", 2), NR("+", 1), N("/"), N("+"), NR("-", 1), L("ptr")], cpu="6502", modes=(0, 1)))
    # sight of three in both directions, slash counted on both sides, sections in between
    out.append(C([N("-"), N("/"), S("A", [N("-"), NR("-", 1), NR("-", 2), NR("-", 3), NR("+", 1), NR("+", 2), NR("+", 3),
                                          N("+")]), NR("-", 2), NR("-", 3), NR("+", 1), NR("+", 2), N("/"), N("+")],
                 cpu="z80"))
    # the manual's composed example; full names stay reachable
    CD = lambda n: dict(k="cdef", n=n)
    CR = lambda n: dict(k="cref", n=n)
    out.append(C([L("proc1"), CD("loop"), CR("loop"), L("proc2"), CD("loop"), CR("loop"), R("proc1.loop"),
                  R("proc2.loop"), R("PROC2.LOOP")]))
    out.append(C([L("proc1"), S("A", [CD("loop"), CR("loop"), L("inner"), CD("loop"), CR("loop"), R("proc1.loop")]),
                  CR("loop"), CD("loop"), R("inner.loop")], cpu="6809"))
    # PUSHV/POPV as in the manual (reverse order restores), shared stacks, named stacks
    P = lambda s, *a: dict(k="pushv", s=s, a=[dict(n=x, q=None) for x in a])
    O = lambda s, *a: dict(k="popv", s=s, a=[dict(n=x, q=None) for x in a])
    V = [E("var1", 0x2000, "set"), E("var2", 0x2008, "set"), E("var3", 0x2010, "set")]
    W = [E("var1", 0x2100, "set"), E("var2", 0x2108, "set"), E("var3", 0x2110, "set")]
    RR = [R("var1"), R("var2"), R("var3")]
    out.append(C(V + [P("", "var1", "var2", "var3")] + W + RR + [O("", "var3", "var2", "var1")] + RR, modes=(0, 1)))
    out.append(C(V + [P("", "var1", "var2", "var3")] + W + [O("", "var1", "var2", "var3")] + RR, cpu="z80"))
    out.append(C(V + [P("st", "var1"), P("", "var2"), P("ST", "var3"), O("", "var1"), O("St", "var2", "var3")] + RR))
    out.append(C(V + [P("st", "var1"), P("ST", "var2"), O("ST", "var3"), O("st", "var3")] + RR, modes=(1,)))
    # regression: PUSHV/POPV of string values (the stack needs its own copy of the string)
    SS = lambda n, v, how="set": dict(k="def", n=n, how=how, v=v, str=True)
    SR = lambda n, q=None: dict(k="ref", n=n, q=q, str=True)
    for cpu in sorted(sm.CPUS):
        out.append(C([SS("txt", 0x2000), SS("msg", 0x2008), P("", "txt", "msg"), SS("txt", 0x2010), SS("msg", 0x2018),
                      SS("txt", 0x2020), SR("txt"), SR("msg"), O("", "msg", "txt"), SR("txt"), SR("msg"),
                      P("st", "txt"), P("st", "msg"), SS("msg", 0x2028), O("st", "txt"), SS("msg", 0x2030), O("st", "msg"),
                      SR("txt"), SR("msg")], cpu=cpu))
    out.append(C([SS("txt", 0x2000, "equ"), S("A", [SS("txt", 0x2008), P("", "txt"), SS("txt", 0x2010), SR("txt"),
                                                     SR("txt", ""), SR("txt", "P1"), O("", "txt"), SR("txt"),
                                                     S("B", [SR("txt"), SR("txt", "=A"), SR("txt", "P2")])])],
                 modes=(0, 1)))
    # register symbols "are local to sections and it is possible to access a register symbol from a specific section
    # by appending the section's name enclosed in brackets" (68000)
    RD = lambda n, r, how="reg": dict(k="def", n=n, how=how, v=r, reg=True)
    RF = lambda n, q=None: dict(k="ref", n=n, q=q, reg=True)
    out.append(C([RD("rga", 3), RD("rgb", 10, "equ"), RD("rgc", 5, "set"), RF("rga"), RF("rgb"), RF("rgc"),
                  RD("rgc", 6, "set"), RF("rgc"),
                  S("s", [RD("rga", 4), RF("rga"), RF("rga", ""), RF("rga", "P0"), RF("RGA", "=S"), RF("rgb"),
                          S("t", [RF("rga"), RF("rga", "P1"), RF("rga", "P2"), RD("rgb", 15), RF("rgb"), RF("rgb", "")])]),
                  RF("rga"), RD("rga", 1), RD("rgb", 2, "set")], modes=(0, 1)))
    # GLOBAL as in the manual: A_SYM and B_SYM; two levels: A_B_SYM resp. B_SYM in A
    G = lambda n, q=None: dict(k="pub", n=n, q=q, g=True)
    out.append(C([S("A", [G("SYM", "P"), E("SYM", 0x2000), R("SYM")]), S("B", [G("SYM"), E("SYM", 0x2008)]),
                  R("A_SYM"), R("B_SYM"), R("a_sym")], modes=(0, 1)))
    out.append(C([S("A", [S("B", [G("SYM"), G("val", "=A"), G("lab", "P2"), E("SYM", 0x2000), E("val", 0x2008),
                                  L("lab"), R("B_val"), R("B_val", "P")]),
                          R("B_val"), R("B_val", "P0"), R("A_B_SYM")]), R("A_B_SYM"), R("A_B_lab"), R("B_val")]))
    # PUBLIC to every ancestor of a depth-4 section; PARENT0..9 from there
    deep = [dict(k="pub", n="p%d" % i, q="P%d" % i, g=False) for i in range(1, 5)]
    deep += [E("p%d" % i, 0x2000 + 8 * i) for i in range(1, 5)] + [E("p0", 0x2040)]
    deep += [R("p%d" % i) for i in range(5)] + [R("p%d" % i, "P%d" % i) for i in range(5)]
    deep += [R("p1", "P%d" % i) for i in range(10)]
    out.append(C([S("L1", [S("L2", [S("L3", [S("L4", deep), R("p1"), R("p2")]), R("p2"), R("p3")]), R("p3"), R("p4")]),
                  R("p4"), R("p4", ""), R("p3")], cpu="z80"))
    # the manual's proc/endp macro pair: the father sees the child's entry, the grandfather does not
    out.append(C([dict(k="proc", n="outer", items=[dict(k="proc", n="inner", items=[R("inner"), R("outer")]),
                                                    R("inner"), R("outer")]), R("outer"), R("inner")], procs=True))
    # mutability
    out.append(C([E("c", 0x2000), E("c", 0x2000), E("c", 0x2008, "set"), E("v", 0x2010, "set"), E("v", 0x2018, "="),
                  L("c"), E("v", 0x2020, ":="), R("c"), R("v"), E("C", 0x2028), E("V", 0x2030)], modes=(0, 1)))
    # names are distinguished on their whole length (255 characters)
    long = "n" * 254
    out.append(C([E(long + "a", 0x2000), E(long + "b", 0x2008), R(long + "a"), R(long + "b"),
                  S("s", [E(long + "a", 0x2010), R(long + "a"), R(long + "b"), R(long + "a", ""), R(long + "a", "P0"),
                          R(long + "a", "P1"), R(long + "a", "=s"), R(long + "b", "P0")])], modes=(0, 1)))
    return out


def coverage_extra(tier, classes):
    """the engine keeps the 60 most frequent classes; the rare ones are the interesting ones here"""
    rest = sorted(classes.items(), key=lambda kv: -kv[1])[60:]
    return dict(classes_rare=dict(rest))
