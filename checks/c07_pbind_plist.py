"""C07  PBIND conserves records and PLIST reports them truthfully.

Generated domain: 1-4 code files (synthetic ones written by the independent writer vf.pfile; in
about every tenth case one of them is a golden-corpus program assembled by asl and read back by the
independent reader) x tool (pbind | plist) x command line variations.

Oracles
  pbind: the output is parsed by the independent reader; its record SEQUENCE (cpu, segment,
         granularity, address, payload / entry address) must equal the concatenation, in command
         line order, of the input records whose CPU id passes the -f list, entry records included
         (doc/utility-programs.md "BIND": "concatenate the records of several code files",
         "-f: sets a list of record headers that should be copied ... Without such an option, all
         records will be copied").  The header *form* ($01..$7f short cut vs. $81) may change.
  plist: standard output is parsed by a table grammar (vf.c07gen.parse_plist): exactly one row per
         record (doc: "exactly one line will be printed per record"), family of the record's id,
         segment, start, length in bytes, end = start + length/granularity - 1 (doc/file-formats.md:
         "if the start address is $300 and the length is 12, the resulting end address would be $30b
         for a granularity of 1, however $303 for a granularity of 4"), all hexadecimal; the file's
         creator string; per segment totals equal to the sums of the record lengths.
"""
from vf import asl, corpus, engine, pfile, run
from vf import c07gen as G
from vf.gen import composite

ID = "C07"
RULE = ("case = tool (pbind|plist) x 1-4 generated code files (0-6, sometimes 16 data records each: documented CPU ids of "
        "all families incl. granularity 2/4 ones, a few undocumented ids $01..$7f, segments 0-9, short "
        "($01..$7f) and long ($81) header forms, long forms with the implied or with another granularity, "
        "lengths from {0,1,2,255,256,511,512,513,8191,8192,8193,16384,65535} and random, addresses 0..$ffffffff, "
        "entry record at the end / in the middle / absent, several creator strings; about one case in ten takes "
        "one input from the golden corpus, assembled by asl; a file may be named twice) x command line (file "
        "names with/without .p, other extension; pbind: -f list of 1-3 ids in decimal/$hex/0xhex/hexh given "
        "on the command line, through BINDCMD, a key file or BINDCMD=@keyfile, options before/between/after "
        "the files, -q; plist: -q); fixed cases: every documented family, every segment, every boundary "
        "length, each of the 201 corpus programs under plist and pairwise under pbind.  "
        "non-trivial = pbind: a filter that drops at least one record while >= 2 files hold different CPU "
        "ids, or a zero-length record, or a record longer than 8192 bytes, or entry records in >= 2 files, "
        "or a long-form input record that the short form could express (or vice versa is forced long); "
        "plist: a record of granularity > 1, a zero-length record, >= 2 segments with data, or >= 2 files.  "
        "distinct by (tool, #files, header form mix, filter effect, zero/large/granularity flags, "
        "entry pattern, option placement)")
ASSUMPTIONS = [
    "input files are written by the independent writer vf/pfile.py following doc/file-formats.md; the creator "
    "string is non-empty (all tools of the package require at least two bytes after the last data record)",
    "well-formedness of pbind's output = magic, documented record types only, segment 0..9, granularity a power "
    "of two that divides the length, terminating creator record; the 'single entry record, last before the "
    "creator' rule of assembler output is only applied when the expected sequence itself has that shape "
    "(the property demands that all entry records are conserved in input order)",
    "entry records are not subject to the -f filter (they carry no CPU id); the creator string of pbind's "
    "output is not judged",
    "pbind -q is taken as documented by 'calling conventions and variations are equivalent to those of AS' "
    "(utility-programs.md) and by the tool's own option table; -f is given at most once per run "
    "(accumulation over several -f is not documented; the one documented combination is generated: a list from BINDCMD or an earlier -f, "
    "ids retracted from it with the negated option +f, assembler-usage.md 'neutralize options ... prefix the option with a plus sign'); key files (@file on the "
    "command line or in BINDCMD) are used as assembler-usage.md describes them: one line, switch and argument together",
    "plist: the family abbreviations are not defined by the manual; vf/c07gen.FAMILY pairs every id of the "
    "manual's table with the abbreviation(s) of that family (manual spelling accepted too); ids $34/$35 "
    "(manual lists $35 twice) and ids missing from the manual are generated but their family column is not judged",
    "plist: segment 0 may be shown as <undefined> or NOTHING, segment 6 as BDATA or BITDATA (the manual uses both)",
    "plist: addresses are 32 bit, so the end address of a zero-length record at address 0 is FFFFFFFF "
    "(start + length - 1 modulo 2^32); other records never wrap (excluded by construction)",
    "plist: totals are read as decimal numbers (the manual's 'all outputs are in hexadecimal notation' is "
    "stated for the table columns); a total line is required for every segment with a non-zero sum and every "
    "printed total must be right; singular/plural of the unit is not judged",
    "plist with several files: layout (a 'File' column, one line with the file name before its rows) is the "
    "tool's own header; the manual only shows the single-file call, the usage text allows 'program file(s)'",
]

PBIND_BUF = 8192


def budget(tier):
    return dict(examples=12000 if tier == "quick" else 400000, shards=16)


# ---------------------------------------------------------------- generator

@composite
def strategy_(d, tier, corpus_names):
    tool = d.weighted([(3, "pbind"), (2, "plist")])
    files, cpus = G.gen_files(d)
    # now and then one of the inputs is a real program of the golden corpus, assembled by asl
    if corpus_names and d.weighted([(9, False), (1, True)]):
        k = d.int(0, len(files) - 1)
        files[k] = dict(corpus=d.choice(corpus_names), name="c%d.p" % k, arg=d.choice(["c%d.p" % k, "c%d" % k]))
    case = dict(tool=tool, files=files, quiet=d.weighted([(3, False), (1, True)]))
    if tool == "pbind":
        case["target"] = d.weighted([(4, "out.p"), (3, "out"), (1, "out.bin")])
        if d.weighted([(2, False), (3, True)]):
            present = sorted({r["cpu"] for f in files for r in f.get("recs", ()) if r["kind"] == "data"})
            pool = sorted(set(present) | set(cpus))
            k = d.int(1, 3)
            ids = []
            for _ in range(k):
                src = d.weighted([(6, "present"), (2, "other"), (1, "any")])
                if src == "present" and pool:
                    ids.append(d.choice(pool))
                elif src == "other":
                    ids.append(d.choice(G.DOC_IDS))
                else:
                    ids.append(d.choice([0x80, 0x81, 0xff]) if d.bool(0.3) else d.int(1, 0x7f))
            case["f"] = [[i, d.choice(G.STYLES)] for i in ids]
            case["f_via"] = d.weighted([(8, "argv"), (2, "env"), (1, "keyfile"), (1, "env-keyfile")])
            if len(set(ids)) >= 2 and d.bool(0.3):
                # the documented use of a negated option: a list preset in BINDCMD (or given first on the command line),
                # some of its ids retracted with +f; what remains is the list (nothing remains = no filter)
                uniq = sorted(set(ids), key=ids.index)
                case["f"] = [[i, d.choice(G.STYLES)] for i in uniq]
                nn = d.int(1, len(uniq))
                neg = d.shuffle(list(uniq))[:nn] if hasattr(d, "shuffle") else uniq[:nn]
                case["f_neg"] = [[i, d.choice(G.STYLES)] for i in neg]
                case["f_via"] = d.choice(["env", "argv"])
                case["opt_pos"] = "last"
        if "f_neg" not in case:
            case["opt_pos"] = d.choice(["last", "first", "mid"])
    return case


def strategy(tier):
    return strategy_(tier, corpus.names())


# ---------------------------------------------------------------- materialised inputs

class NoInput(Exception):
    pass


def materialise(case):
    """[dict(name, arg, creator, blob, recs)] - recs are vf.pfile records (payload as bytes).
    Generated files are serialised by the independent writer; corpus files are assembled by asl and
    read back by the independent (strict) reader."""
    out, done = [], {}
    for f in case["files"]:
        if f["name"] in done:
            out.append(dict(done[f["name"]], arg=f["arg"]))
            continue
        if "corpus" in f:
            c = corpus.load(f["corpus"])
            src = {f["corpus"] + ".asm": c["src"]}
            src.update(c["extra"])
            r = asl.assemble(src, main=f["corpus"] + ".asm", args=list(c["flags"]) + ["-i", asl.INCLUDE_DIR])
            if r.timed_out or r.status != 0 or r.p is None:
                raise NoInput("corpus program %s did not assemble" % f["corpus"])
            try:
                recs = pfile.parse(r.p, strict=True)
            except pfile.FormatError as e:
                raise NoInput("corpus program %s: code file rejected by the reader (%s)" % (f["corpus"], e))
            m = dict(name=f["name"], arg=f["arg"], creator=recs[-1]["text"], blob=r.p, recs=recs[:-1])
        else:
            m = dict(name=f["name"], arg=f["arg"], creator=f["creator"], blob=G.file_bytes(f),
                     recs=G.to_records(f["recs"]))
        done[f["name"]] = m
        out.append(m)
    return out


def data_recs(mfiles):
    return [r for f in mfiles for r in f["recs"] if r["kind"] == "data"]


def base_classes(case, mfiles):
    recs = data_recs(mfiles)
    cl = ["tool:" + case["tool"], "files%d" % len(mfiles)]
    forms = {r["form"] for r in recs}
    cl.append("forms:" + ("+".join(sorted(forms)) or "none"))
    lens = [len(r["data"]) for r in recs]
    if 0 in lens:
        cl.append("zero-length")
    if any(n > PBIND_BUF for n in lens):
        cl.append("len>8192")
    if any(n in (8191, 8192, 8193) for n in lens):
        cl.append("len~8192")
    if any(n >= 65532 for n in lens):
        cl.append("len-max")
    for g in sorted({r["gran"] for r in recs}):
        cl.append("gran%d" % g)
    if any(r["form"] == "long" and r["gran"] != pfile.implied_gran(r["cpu"], r["seg"]) for r in recs):
        cl.append("gran-not-implied")
    if any(r["cpu"] not in G.FAMILY for r in recs):
        cl.append("undocumented-id")
    if len({r["seg"] for r in recs}) > 1:
        cl.append("multi-segment")
    if any(r["seg"] == 0 for r in recs):
        cl.append("segment0")
    if len({r["cpu"] for r in recs}) > 1:
        cl.append("multi-cpu")
    nent = sum(1 for f in mfiles for r in f["recs"] if r["kind"] == "entry")
    cl.append("entries%d" % min(nent, 3))
    if any(r["kind"] == "entry" and i != len(f["recs"]) - 1 for f in mfiles for i, r in enumerate(f["recs"])):
        cl.append("entry-not-last")
    if any(not f["recs"] for f in mfiles):
        cl.append("empty-file")
    if any(len(f["recs"]) > 8 for f in mfiles):
        cl.append("many-records")
    if len({f["name"] for f in mfiles}) < len(mfiles):
        cl.append("file-twice")
    if any("corpus" in f for f in case["files"]):
        cl.append("corpus-file")
    if any(r["addr"] >= 0xffff0000 for r in recs):
        cl.append("addr-top")
    if case.get("quiet"):
        cl.append("quiet")
    if any(f["arg"] != f["name"] for f in mfiles):
        cl.append("arg-without-ext")
    return cl


def write_inputs(d, case, mfiles):
    files = {f["name"]: f["blob"] for f in mfiles}
    if "f" in case and case.get("f_via", "argv").endswith("keyfile"):
        # key file (assembler-usage.md): options written as on the command line, switch and argument in one line
        files["bind.key"] = "-f " + ",".join(G.number(i, s) for i, s in case["f"]) + "\n"
    run.write_files(d, files)


# ---------------------------------------------------------------- pbind

def pbind_argv(case):
    opts, env = [], {}
    if "f" in case:
        lst = ",".join(G.number(i, s) for i, s in case["f"])
        via = case.get("f_via", "argv")
        if via == "env":
            env["BINDCMD"] = "-f " + lst
        elif via == "keyfile":
            opts += ["@bind.key"]
        elif via == "env-keyfile":
            env["BINDCMD"] = "@bind.key"
        else:
            opts += ["-f", lst]
        if case.get("f_neg"):
            opts += ["+f", ",".join(G.number(i, s) for i, s in case["f_neg"])]
    if case.get("quiet"):
        opts += ["-q"]
    names = [f["arg"] for f in case["files"]] + [case["target"]]
    pos = case.get("opt_pos", "last")
    if pos == "first":
        argv = ["pbind"] + opts + names
    elif pos == "mid":
        k = len(names) // 2
        argv = ["pbind"] + names[:k] + opts + names[k:]
    else:
        argv = ["pbind"] + names + opts
    return argv, env


def sem(r):
    if r["kind"] == "data":
        return ("data", r["cpu"], r["seg"], r["gran"], r["addr"], bytes(r["data"]))
    return ("entry", r["addr"])


def pbind_expected(case, mfiles):
    ids = {i for i, _ in case["f"]} if "f" in case else None
    if ids is not None and case.get("f_neg"):
        ids -= {i for i, _ in case["f_neg"]}
        if not ids:
            ids = None           # every id retracted: as if no -f had been given
    exp, dropped = [], 0
    for f in mfiles:
        for r in f["recs"]:
            if r["kind"] == "data" and ids is not None and r["cpu"] not in ids:
                dropped += 1
                continue
            exp.append(sem(r))
    return exp, dropped


def brief(t):
    if t[0] == "data":
        return "data cpu=$%02x seg=%d gran=%d addr=$%x len=%d head=%s" % (t[1], t[2], t[3], t[4], len(t[5]), t[5][:8].hex())
    return "entry $%x" % t[1]


def validate_output(buf, exp):
    """own well-formedness rules (see ASSUMPTIONS); returns (records, None) or (None, reason)"""
    try:
        recs = pfile.parse(buf, strict=False)
    except pfile.FormatError as e:
        return None, str(e)
    if not recs or recs[-1]["kind"] != "creator":
        return None, "no terminating creator record"
    if any(r["kind"] == "creator" for r in recs[:-1]):
        return None, "creator record before the end"
    for r in recs:
        if r["kind"] != "data":
            continue
        if not 0 <= r["seg"] <= 9:
            return None, "segment %d out of range" % r["seg"]
        if r["gran"] not in (1, 2, 4, 8):
            return None, "granularity %d" % r["gran"]
        if len(r["data"]) % r["gran"]:
            return None, "length %d not a multiple of granularity %d" % (len(r["data"]), r["gran"])
    ents = [i for i, t in enumerate(exp) if t[0] == "entry"]
    if len(ents) <= 1 and (not ents or ents[0] == len(exp) - 1):
        try:
            pfile.parse(buf, strict=True)
        except pfile.FormatError as e:
            return None, "strict: " + str(e)
    return recs, None


def execute_pbind(case, mfiles):
    classes = base_classes(case, mfiles)
    exp, dropped = pbind_expected(case, mfiles)
    recs = data_recs(mfiles)
    argv, env = pbind_argv(case)
    target = case["target"] if "." in case["target"] else case["target"] + ".p"
    if "f" not in case:
        feff = "nofilter"
    elif dropped == 0:
        feff = "keeps-all"
    elif dropped == len(recs):
        feff = "drops-all"
    else:
        feff = "drops-some"
    classes.append("filter:" + feff)
    if "f" in case:
        classes.append("filter-ids%d" % len(case["f"]))
        classes += sorted({"num:" + s for _, s in case["f"]})
        classes.append("filter-via-" + case.get("f_via", "argv"))
        if case.get("f_neg"):
            classes.append("filter-negated:%d-of-%d" % (len(case["f_neg"]), len(case["f"])))
    cpus_by_file = [{r["cpu"] for r in f["recs"] if r["kind"] == "data"} for f in mfiles]
    diffcpu = len(mfiles) >= 2 and len(set().union(*cpus_by_file)) >= 2
    nt = []
    if dropped and diffcpu:
        nt.append("filter-drops")
    if any(len(r["data"]) == 0 for r in recs):
        nt.append("zero")
    if any(len(r["data"]) > PBIND_BUF for r in recs):
        nt.append("large")
    if sum(1 for f in mfiles if any(r["kind"] == "entry" for r in f["recs"])) >= 2:
        nt.append("multi-entry")
    if any(r["form"] == "long" and r["seg"] == 1 and r["gran"] == pfile.implied_gran(r["cpu"], 1) for r in recs):
        nt.append("long-could-be-short")
    if any(r["form"] == "long" and r["seg"] == 1 and r["gran"] != pfile.implied_gran(r["cpu"], 1) for r in recs):
        nt.append("code-must-stay-long")
    classes += ["nt:" + x for x in nt]
    key = None
    if nt:
        forms = "+".join(sorted({r["form"] for r in recs}))
        key = "|".join(["pbind", str(len(mfiles)), forms, feff, ",".join(nt),
                        "g" + "".join(str(g) for g in sorted({r["gran"] for r in recs})),
                        "e%d" % sum(1 for t in exp if t[0] == "entry"),
                        "q" if case.get("quiet") else "", case.get("f_via", ""),
                        case.get("opt_pos", "last"), case["target"]])
    with run.Work("c07") as d:
        write_inputs(d, case, mfiles)
        r = run.run(argv, d, env=env or None, timeout=10.0, cpu=5, fsize=1 << 26)
        if r.timed_out:
            return engine.inconclusive("timeout", classes)
        got = run.read(d, target)
    detail = dict(argv=argv, env=env, status=r.status, signal=r.signal, stderr=r.err[-400:], stdout=r.out[-400:])
    if r.signal:
        return engine.bad("pbind killed by signal %d" % r.signal, key, classes, **detail)
    if r.status != 0:
        return engine.bad("pbind exit status %s on well-formed input files" % r.status, key, classes, **detail)
    if got is None:
        return engine.bad("pbind wrote no target file %s" % target, key, classes, **detail)
    out, why = validate_output(got, exp)
    if out is None:
        return engine.bad("pbind output is not a well-formed code file: " + why, key, classes,
                          head=got[:64].hex(), **detail)
    gots = [sem(x) for x in out[:-1]]
    if gots != exp:
        n = min(len(gots), len(exp))
        i = next((i for i in range(n) if gots[i] != exp[i]), n)
        return engine.bad("record sequence differs at index %d: got %s, expected %s (got %d records, expected %d)"
                          % (i, brief(gots[i]) if i < len(gots) else "<end>",
                             brief(exp[i]) if i < len(exp) else "<end>", len(gots), len(exp)),
                          key, classes, **detail)
    if dropped == 0 and [x["form"] for x in out if x["kind"] == "data"] != [x["form"] for x in recs]:
        classes.append("form-changed")
    return engine.ok(key, classes)


# ---------------------------------------------------------------- plist

def execute_plist(case, mfiles):
    classes = base_classes(case, mfiles)
    recs = data_recs(mfiles)
    argv = ["plist"] + (["-q"] if case.get("quiet") else []) + [f["arg"] for f in mfiles]
    sums = {}
    for r in recs:
        sums[r["seg"]] = sums.get(r["seg"], 0) + len(r["data"])
    nt = []
    if any(r["gran"] > 1 and len(r["data"]) for r in recs):
        nt.append("gran>1")
    if any(len(r["data"]) == 0 for r in recs):
        nt.append("zero")
    if sum(1 for v in sums.values() if v) >= 2:
        nt.append("multi-segment-sums")
    if len(mfiles) >= 2:
        nt.append("multi-file")
    classes += ["nt:" + x for x in nt]
    key = None
    if nt:
        key = "|".join(["plist", str(len(mfiles)), ",".join(nt),
                        "g" + "".join(str(g) for g in sorted({r["gran"] for r in recs})),
                        "s" + "".join(str(s) for s in sorted(sums)),
                        "+".join(sorted({r["form"] for r in recs})),
                        "e%d" % min(3, sum(1 for f in mfiles for r in f["recs"] if r["kind"] == "entry")),
                        "q" if case.get("quiet") else ""])
    with run.Work("c07") as d:
        write_inputs(d, case, mfiles)
        r = run.run(argv, d, timeout=10.0, cpu=5)
        if r.timed_out:
            return engine.inconclusive("timeout", classes)
    detail = dict(argv=argv, status=r.status, signal=r.signal, stderr=r.err[-400:], stdout=r.out[-1500:])
    if r.signal:
        return engine.bad("plist killed by signal %d" % r.signal, key, classes, **detail)
    if r.status != 0:
        return engine.bad("plist exit status %s on well-formed input files" % r.status, key, classes, **detail)
    multi = len(mfiles) > 1
    try:
        lst = G.parse_plist(r.out, {f["name"] for f in mfiles} if multi else set())
    except G.ListingError as e:
        return engine.bad("plist output does not fit the table grammar: %s" % e, key, classes, **detail)
    if lst["banner"] == bool(case.get("quiet")):
        classes.append("banner-unexpected")          # counted only: the banner is not part of the property
    if len(lst["files"]) != len(mfiles):
        return engine.bad("listing has %d file sections (each closed by a creator line), %d files given"
                          % (len(lst["files"]), len(mfiles)), key, classes, **detail)
    for f, sec in zip(mfiles, lst["files"]):
        if multi and sec["name"] != f["name"]:
            return engine.bad("section of file %s is headed %r" % (f["name"], sec["name"]), key, classes, **detail)
        if sec["creator"] != f["creator"]:
            return engine.bad("creator of %s shown as %r, is %r" % (f["name"], sec["creator"], f["creator"]),
                              key, classes, **detail)
        if len(sec["rows"]) != len(f["recs"]):
            return engine.bad("%s: %d rows for %d records" % (f["name"], len(sec["rows"]), len(f["recs"])),
                              key, classes, **detail)
        for i, (rec, row) in enumerate(zip(f["recs"], sec["rows"])):
            where = "%s row %d" % (f["name"], i + 1)
            if rec["kind"] != row["kind"]:
                return engine.bad("%s: %s row for a %s record" % (where, row["kind"], rec["kind"]), key, classes, **detail)
            if rec["kind"] == "entry":
                if row["addr"] != rec["addr"]:
                    return engine.bad("%s: entry point %08X shown, is %08X" % (where, row["addr"], rec["addr"]),
                                      key, classes, **detail)
                continue
            n = len(rec["data"])
            if rec["cpu"] in G.FAMILY and row["fam"] not in G.FAMILY[rec["cpu"]][1]:
                return engine.bad("%s: id $%02x (%s) shown as family %r" % (where, rec["cpu"], G.FAMILY[rec["cpu"]][0],
                                                                            row["fam"]), key, classes, **detail)
            if row["seg"] not in G.SEGMENT[rec["seg"]]:
                return engine.bad("%s: segment %d shown as %r" % (where, rec["seg"], row["seg"]), key, classes, **detail)
            if row["start"] != rec["addr"]:
                return engine.bad("%s: start %08X shown, is %08X" % (where, row["start"], rec["addr"]), key, classes, **detail)
            if row["len"] != n:
                return engine.bad("%s: length %04X shown, is %04X" % (where, row["len"], n), key, classes, **detail)
            end = (rec["addr"] + n // rec["gran"] - 1) & 0xffffffff
            if row["end"] != end:
                return engine.bad("%s: end %08X shown, start+length/gran-1 is %08X (start %X, %d bytes, granularity %d)"
                                  % (where, row["end"], end, rec["addr"], n, rec["gran"]), key, classes, **detail)
    # totals
    seen = {}
    for segname, num in lst["totals"]:
        seg = next((s for s, names in G.SEGMENT.items() if segname in names), None)
        if seg is None:
            return engine.bad("total line names unknown segment %r" % segname, key, classes, **detail)
        if not num.isdigit():
            return engine.bad("total of segment %s is not a number: %r" % (segname, num), key, classes, **detail)
        if seg in seen:
            return engine.bad("two total lines for segment %s" % segname, key, classes, **detail)
        seen[seg] = int(num)
    for seg, v in seen.items():
        if v != sums.get(seg, 0):
            return engine.bad("total of segment %s shown as %d, records sum to %d" % (G.SEGMENT[seg][-1], v, sums.get(seg, 0)),
                              key, classes, **detail)
    for seg, v in sums.items():
        if v and seg not in seen:
            return engine.bad("no total line for segment %s holding %d bytes" % (G.SEGMENT[seg][-1], v), key, classes, **detail)
    return engine.ok(key, classes)


def execute(case):
    try:
        mfiles = materialise(case)
    except NoInput as e:
        return engine.inconclusive(str(e), ["tool:" + case["tool"], "corpus-file"])
    if case["tool"] == "pbind":
        return execute_pbind(case, mfiles)
    return execute_plist(case, mfiles)


# ---------------------------------------------------------------- presentation, fixed cases

def show(case):
    s = dict(tool=case["tool"],
             files=[dict(arg=f["arg"], corpus=f["corpus"]) if "corpus" in f else
                    dict(arg=f["arg"], recs=[(r["form"][0], "$%02x" % r["cpu"], r["seg"], r["gran"], "$%x" % r["addr"],
                                              G.paylen(r["pay"])) if r["kind"] == "data" else ("entry", "$%x" % r["addr"])
                                             for r in f["recs"]]) for f in case["files"]])
    if case["tool"] == "pbind":
        s["argv"], s["env"] = pbind_argv(case)
    elif case.get("quiet"):
        s["quiet"] = True
    return s


def _rec(cpu, addr, n, seg=1, gran=None, form="long"):
    gran = gran or pfile.implied_gran(cpu, seg)
    return dict(kind="data", cpu=cpu, seg=seg, gran=gran, addr=addr, pay=["pat", n, 7, 1], form=form)


def _file(name, recs, arg=None, creator="AS 1.42/x86_64-unknown-linux"):
    return dict(name=name, arg=arg or name, creator=creator, recs=recs)


def fixed_cases(tier):
    out = []
    ent = dict(kind="entry", addr=0x1234)
    two = [_file("a.p", [_rec(0x11, 0x100, 5, form="short"), _rec(0x51, 0x200, 0), ent]),
           _file("b.p", [_rec(0x31, 0, 1), _rec(0x70, 0x10, 6, seg=2), _rec(0x76, 0, 8, form="short")])]
    # plist: single file, two files, quiet
    out.append(dict(tool="plist", files=two[:1], quiet=False))
    out.append(dict(tool="plist", files=two, quiet=False))
    out.append(dict(tool="plist", files=two, quiet=True))
    # plist: every documented family once (short form), 8 per file
    ids = G.DOC_IDS
    for i in range(0, len(ids), 24):
        out.append(dict(tool="plist", quiet=True,
                        files=[_file("fam.p", [_rec(c, 0x40 * k, 4 * pfile.implied_gran(c), form="short")
                                               for k, c in enumerate(ids[i:i + 24])])]))
    # plist: every segment
    out.append(dict(tool="plist", quiet=False,
                    files=[_file("seg.p", [_rec(0x51, 0x10 * s, s + 1, seg=s) for s in range(0, 10)])]))
    # pbind: plain concatenation, filter forms, quiet, names without extension
    out.append(dict(tool="pbind", files=two, quiet=False, target="out.p", opt_pos="last"))
    out.append(dict(tool="pbind", files=two, quiet=True, target="out", opt_pos="first"))
    out.append(dict(tool="pbind", files=[_file("a.p", two[0]["recs"], arg="a"), two[1]], quiet=False, target="out",
                    opt_pos="last"))
    for sty in G.STYLES:
        out.append(dict(tool="pbind", files=two, quiet=False, target="out.p", opt_pos="last",
                        f=[[0x11, sty], [0x31, sty]], f_via="argv"))
    out.append(dict(tool="pbind", files=two, quiet=False, target="out.p", opt_pos="first", f=[[0x70, "dollar"]], f_via="env"))
    out.append(dict(tool="pbind", files=two, quiet=False, target="out.p", opt_pos="first", f=[[0x7f, "h"]], f_via="argv"))
    out.append(dict(tool="pbind", files=two, quiet=False, target="out.p", opt_pos="mid", f=[[0x51, "0x"], [0x76, "dec"]], f_via="keyfile"))
    out.append(dict(tool="pbind", files=two, quiet=True, target="out.p", opt_pos="last", f=[[0x31, "h"]], f_via="env-keyfile"))
    out.append(dict(tool="pbind", files=two, quiet=False, target="out.p", opt_pos="last", f=[[0x81, "dollar"]], f_via="argv"))
    # pbind: lengths around the copy buffer and the maximum, every boundary length
    for n in G.LEN_BOUNDARY:
        out.append(dict(tool="pbind", quiet=False, target="out.p", opt_pos="last",
                        files=[_file("l.p", [_rec(0x11, 0x1000, n), _rec(0x51, 0, 3, form="short")])]))
        out.append(dict(tool="plist", quiet=True, files=[_file("l.p", [_rec(0x11, 0x1000, n), _rec(0x70, 0, n - n % 2)])]))
    # pbind: long form whose granularity is not the implied one must stay long
    out.append(dict(tool="pbind", quiet=False, target="out.p", opt_pos="last",
                    files=[_file("g.p", [_rec(0x11, 0x10, 8, gran=2), _rec(0x70, 0x10, 8, gran=1), _rec(0x76, 0, 8, gran=4)])]))
    # the golden corpus, assembled by asl: every program listed alone, neighbours bound pairwise with a filter
    # naming the first program's families (ids read from the strictly parsed code file at run time are not
    # available here, so the filter cases use the documented id of well-known test programs)
    names = corpus.names()
    for i, n in enumerate(names):
        out.append(dict(tool="plist", quiet=bool(i % 2), files=[dict(corpus=n, name="c0.p", arg="c0.p" if i % 3 else "c0")]))
        m = names[(i + 1) % len(names)]
        out.append(dict(tool="pbind", quiet=bool(i % 4 == 0), target="out.p", opt_pos=["last", "first", "mid"][i % 3],
                        files=[dict(corpus=n, name="c0.p", arg="c0.p"), dict(corpus=m, name="c1.p", arg="c1")]))
    for n, cid in (("t_z80syntax", 0x51), ("t_6502u", 0x11), ("t_z8000", 0x34), ("t_avr", 0x3b), ("t_3201x", 0x74)):
        if n in names:
            out.append(dict(tool="pbind", quiet=False, target="out", opt_pos="last", f=[[cid, "dollar"]], f_via="argv",
                            files=[dict(corpus=n, name="c0.p", arg="c0"), dict(corpus=names[0], name="c1.p", arg="c1.p"),
                                   dict(corpus=n, name="c0.p", arg="c0.p")]))
    return out


KNOWN = {}

# classes every run must contain in a healthy fraction (of all cases); reported in the evidence
WANTED = {"tool:pbind": 0.4, "tool:plist": 0.25, "forms:long+short": 0.4, "zero-length": 0.1, "len>8192": 0.1,
          "len~8192": 0.05, "len-max": 0.03, "gran2": 0.15, "gran4": 0.08, "gran-not-implied": 0.05,
          "multi-segment": 0.2, "filter:drops-some": 0.08, "filter:drops-all": 0.03, "filter:keeps-all": 0.03,
          "filter:nofilter": 0.1, "entries2": 0.05, "entry-not-last": 0.03, "quiet": 0.1, "arg-without-ext": 0.2,
          "corpus-file": 0.03, "form-changed": 0.05, "nt:code-must-stay-long": 0.02, "nt:multi-segment-sums": 0.08}


def coverage_extra(tier, classes):
    n = max(1, classes.get("tool:pbind", 0) + classes.get("tool:plist", 0))
    low = {k: round(classes.get(k, 0) / n, 4) for k, v in WANTED.items() if classes.get(k, 0) / n < v}
    return dict(generator_selftest=dict(wanted=len(WANTED), below_minimum=low))
