"""C04  The code file contains exactly the program's bytes at the program's addresses.

Generated domain: model-directed data programs (emit / reserve / ORG / SEGMENT / CPU / PHASE / END)
on byte-, word- and 4-byte-granular targets with line sizes and run lengths around the 512-byte
write buffer and the 64 KiB record limit.  Oracle: the code file, read by the independent reader
vf/pfile.py (strict well-formedness), must hold exactly the (segment, address, byte) sequence an
address model of the statements predicts.
"""
from vf import engine, pfile, asl
from vf.gen import composite

ID = "C04"
RULE = ("case = statement list (cpu/segment/org/emit(list|dup)/reserve/phase/end) on Z80, 6502, 68000 "
        "(PADDING off), 8051 (CODE/DATA/XDATA), PIC16C84 and TMS320C25 (2-byte granules), TMS320C30 (4-byte granules), "
        "ATmega8 (CODE 2-byte, EEDATA 1-byte granules); "
        "line sizes from {1,2,3}, 60-64 and 510..514/1022..1026, runs built up to 65530..65540 bytes; "
        "non-trivial = a run crossing the 512-byte buffer or the 64 KiB record limit, or >= 2 segment/CPU "
        "switches, or a reservation between two emissions, or a backward ORG; distinct by (targets, boundary "
        "classes hit, #switches bucket)")
ASSUMPTIONS = [
    "bytes of one granule are stored little endian in the code file for PIC16C84, TMS320C25 and TMS320C30 "
    "(as P2HEX's INHX8M description and the pinned tree agree)",
    "after a CPU switch the generator either sets segment and ORG explicitly or (CODE active and used) goes on "
    "without ORG: the CODE program counter then continues at its numeric value (observed behaviour of the pinned tree)",
    "record *splitting* policy is not asserted, only well-formedness and the exact byte sequence",
]

T = {
    # name: cpu statement, header id, {segment name: (seg id, gran, unit bits, address limit)}, syntax
    "z80": dict(cpu="z80", hid=0x51, segs={"code": (1, 1, 8, 0x10000)},
                lst="db", dup=lambda n, v: "db %d dup (%d)" % (n, v), res="ds"),
    "6502": dict(cpu="6502", hid=0x11, segs={"code": (1, 1, 8, 0x10000)},
                 lst="byt", dup=lambda n, v: "byt [%d]%d" % (n, v), res="dfs"),
    "68000": dict(cpu="68000", hid=0x01, segs={"code": (1, 1, 8, 0x100000000)},
                  lst="dc.b", dup=lambda n, v: "dc.b [%d]%d" % (n, v), res="ds.b", pre=["\tpadding off"]),
    "8051": dict(cpu="8051", hid=0x31, segs={"code": (1, 1, 8, 0x10000), "data": (2, 1, 8, 0x100),
                                               "xdata": (4, 1, 8, 0x10000)},
                 lst="db", dup=lambda n, v: "db %d dup (%d)" % (n, v), res="ds"),
    "16c84": dict(cpu="16c84", hid=0x70, segs={"code": (1, 2, 14, 0x400)},
                  lst="data", dup=None, res="res"),
    "320c30": dict(cpu="320c30", hid=0x76, segs={"code": (1, 4, 32, 0x1000000)},
                   lst="word", dup=None, res="bss"),
    "320c25": dict(cpu="320c25", hid=0x75, segs={"code": (1, 2, 16, 0x10000), "data": (2, 2, 16, 0x10000)},
                   lst="word", dup=None, res="bss"),
}
# segments of different granularity in one target: AVR (CODE in 16-bit words, EEDATA in bytes)
T["atmega8"] = dict(cpu="atmega8", hid=0x3b, segs={"code": (1, 2, 16, 0x1000), "eedata": (10, 1, 8, 0x200)},
                    lst="data", dup=None, res="res")
BIG_OK = ("z80", "6502", "68000", "320c25", "320c30")


def budget(tier):
    return dict(examples=2500 if tier == "quick" else 60000, shards=16)


def _sizes(d, big_ok):
    fam = d.weighted([(6, "small"), (3, "line"), (3, "buf"), (1, "kilo")] + ([(1, "big")] if big_ok else []))
    if fam == "small":
        return d.int(1, 3)
    if fam == "line":
        return d.int(58, 66)
    if fam == "buf":
        return d.choice([510, 511, 512, 513, 514, 1022, 1023, 1024, 1025, 1026])
    if fam == "kilo":
        return d.int(100, 4000)
    return d.int(20000, 65535)


@composite
def strategy_(d, tier):
    items = []
    pcs = {}
    nspans = d.weighted([(5, 1), (3, 2), (2, 3)])
    tnames = list(T)
    want_big = d.bool(0.12 if tier == "quick" else 0.2)
    for si in range(nspans):
        tn = d.choice(BIG_OK) if (want_big and si == 0) else d.choice(tnames)
        t = T[tn]
        segs = list(t["segs"])
        carry = pcs.get("code") if si else None
        if carry is not None and carry + 64 < t["segs"]["code"][3] and d.bool(0.5):
            # CPU switch while CODE is the active, used segment and no ORG follows: the program counter goes on
            # (observed behaviour; the bytes of the new target must open a record of their own)
            items.append(["seg", "code"])
            items.append(["cpukeep", tn])
            pcs = {"code": carry}
            seg = "code"
        else:
            items.append(["cpu", tn])
            pcs = {}
            seg = None
        nsteps = d.int(2, 14)
        total = 0
        for k in range(nsteps):
            if seg is None or (len(segs) > 1 and d.bool(0.25)):
                seg = d.choice(segs)
                items.append(["seg", seg])
                if seg not in pcs:
                    lim = t["segs"][seg][3]
                    base = d.choice([0, 16, 0x100, lim // 2, max(0, lim - 0x300)]) if lim > 0x400 else d.int(0, lim // 4)
                    items.append(["org", base])
                    pcs[seg] = base
            _, gran, bits, lim = t["segs"][seg]
            op = d.weighted([(8, "emit"), (2, "res"), (2, "org"), (1, "phase")])
            room = lim - pcs[seg]
            if op == "emit":
                n = _sizes(d, want_big and tn in BIG_OK)
                if want_big and tn in BIG_OK and d.bool(0.5) and total < 60000:
                    # build a run that ends a few bytes around the 64 KiB record limit
                    n = max(1, (65535 - total) // gran + d.int(-6, 4))
                n = min(n, room, 65535 // gran if not t["dup"] else 65535)
                if n <= 0:
                    items.append(["org", 0])
                    pcs[seg] = 0
                    total = 0
                    continue
                mode = "dup" if (t["dup"] and (n > 64 or d.bool(0.2))) else "list"
                if mode == "list" and n > 64 and not (want_big and tn in BIG_OK and not t["dup"]):
                    n = d.int(40, 64)      # (long lists are rendered as several source lines of <= 64 units)
                items.append(["emit", n, d.int(0, 255), d.choice([1, 3, 5, 7]), mode])
                pcs[seg] += n
                total += n * gran
            elif op == "res":
                n = min(d.choice([1, 2, 5, 511, 512, 513]) if d.bool(0.5) else d.int(1, 40), room)
                if n > 0:
                    items.append(["res", n])
                    pcs[seg] += n
                    total = 0
            elif op == "org":
                how = d.weighted([(4, "fwd"), (2, "back"), (1, "same"), (1, "abs")])
                if how == "fwd":
                    a = min(lim - 1, pcs[seg] + d.int(1, 300))
                elif how == "back":
                    a = max(0, pcs[seg] - d.int(1, 40))
                elif how == "same":
                    a = pcs[seg]
                else:
                    a = d.int(0, min(lim - 1, 0xfff0))
                items.append(["org", a])
                pcs[seg] = a
                total = 0
            else:
                if d.bool(0.6):
                    items.append(["phase", d.int(0, 0xffff)])
                else:
                    items.append(["dephase"])
    if d.bool(0.3):
        items.append(["end", d.int(0, 0xffff)])
    return dict(items=items)


def strategy(tier):
    return strategy_(tier)


def unit_value(start, step, i, bits, mode):
    v = start if mode == "dup" else (start + i * step * 37)
    return v & ((1 << bits) - 1)


def render_and_model(case):
    """returns (source text, expected list of ((seg, byteaddr), byte) in emission order, info)"""
    lines = []
    exp = []
    t = None
    seg = None
    pcs = {}
    info = dict(switches=0, res_between=False, back_org=False, maxrun=0, linesizes=set(), cpus=[], hids=set(),
                entry=None, segs=set())
    run = 0
    had_emit = False
    pending_res = False
    depth = 0
    for it in case["items"]:
        op = it[0]
        if op in ("cpu", "cpukeep", "seg", "org", "end") and depth:
            # ORG inside PHASE takes a phased address (C10's subject): leave all phases first
            lines += ["\tdephase"] * depth
            depth = 0
        if op == "cpu":
            t = T[it[1]]
            lines.append("\tcpu %s" % t["cpu"])
            lines += t.get("pre", [])
            pcs = {}
            seg = None
            info["switches"] += 1
            info["cpus"].append(it[1])
            run = 0
        elif op == "cpukeep":
            t = T[it[1]]
            lines.append("\tcpu %s" % t["cpu"])
            lines += t.get("pre", [])
            pcs = {"code": pcs["code"]}
            seg = "code"
            info["switches"] += 1
            info["cpus"].append(it[1])
            info["cpukeep"] = True
            run = 0
        elif op == "seg":
            seg = it[1]
            lines.append("\tsegment %s" % seg)
            info["switches"] += 1
            run = 0
        elif op == "org":
            lines.append("\torg %d" % it[1])
            if seg in pcs and it[1] < pcs[seg]:
                info["back_org"] = True
            pcs[seg] = it[1]
            run = 0
        elif op == "emit":
            _, n, start, step, mode = it
            sid, gran, bits, lim = t["segs"][seg]
            vals = [unit_value(start, step, i, bits, mode) for i in range(n)]
            if mode == "dup":
                lines.append("\t" + t["dup"](n, vals[0]))
            else:
                per = 64 if n > 64 else n
                for i0 in range(0, n, per):
                    lines.append("\t%s %s" % (t["lst"], ",".join(str(v) for v in vals[i0:i0 + per])))
            a = pcs[seg]
            for i, v in enumerate(vals):
                for k in range(gran):
                    exp.append(((sid, (a + i) * gran + k), (v >> (8 * k)) & 0xff))
            pcs[seg] = a + n
            run += n * gran
            info["maxrun"] = max(info["maxrun"], run)
            info["linesizes"].add(n * gran)
            info["hids"].add((t["hid"], sid, gran))
            info["segs"].add(sid)
            if pending_res and had_emit:
                info["res_between"] = True
            pending_res = False
            had_emit = True
        elif op == "res":
            lines.append("\t%s %d" % (t["res"], it[1]))
            pcs[seg] += it[1]
            run = 0
            pending_res = True
        elif op == "phase":
            # phased addresses stay at or below the load address, so they cannot leave the address space
            lines.append("\tphase %d" % min(it[1], pcs.get(seg, 0)))
            depth += 1
            info["phased"] = True
        elif op == "dephase":
            if depth:
                lines.append("\tdephase")
                depth -= 1
        elif op == "end":
            lines.append("\tend %d" % it[1])
            info["entry"] = it[1]
    return "\n".join(lines) + "\n", exp, info


def execute(case):
    src, exp, info = render_and_model(case)
    classes = ["cpu:" + c for c in set(info["cpus"])]
    nt = []
    if info["maxrun"] >= 512:
        nt.append("buf512")
    if any(510 <= s <= 514 or 1022 <= s <= 1026 for s in info["linesizes"]):
        nt.append("line~512")
    if info["maxrun"] > 65535:
        nt.append("rec64k")
    if info["switches"] >= 3:
        nt.append("switches")
    if info["res_between"]:
        nt.append("res-between")
    if info["back_org"]:
        nt.append("back-org")
    if info.get("cpukeep"):
        nt.append("cpu-switch-without-org")
    classes += nt
    key = None
    if nt:
        key = "|".join([",".join(sorted(set(info["cpus"]))), ",".join(nt), str(min(info["switches"], 6)),
                        str(min(len(exp) // 2000, 40))])
    r = asl.assemble({"t.asm": src}, timeout=60, cpu=40)
    if r.timed_out:
        return engine.inconclusive("timeout", classes)
    detail = dict(src=src if len(src) < 3000 else src[:3000] + "...", **r.brief())
    if r.signal:
        return engine.bad("asl killed by signal %d" % r.signal, key, classes, **detail)
    if case.get("oversize") and r.status == 2 and r.p is None and "error" in r.err:
        # a single statement beyond the assembler's per-statement limit may be refused - but not swallowed
        return engine.ok(key, classes + ["oversize-statement-refused"])
    if r.status != 0 or r.p is None:
        return engine.bad("valid data program rejected: status %s" % r.status, key, classes, **detail)
    try:
        recs = pfile.parse(r.p, strict=True)
    except pfile.FormatError as e:
        return engine.bad("code file not well formed: %s" % e, key, classes, **detail)
    if not recs[-1]["text"].startswith("AS "):
        return engine.bad("creator record %r" % recs[-1]["text"][:40], key, classes, **detail)
    got = []
    nempty = 0
    for rec in recs:
        if rec["kind"] == "data":
            if rec["form"] != "long" and False:
                pass
            if (rec["cpu"], rec["seg"], rec["gran"]) not in info["hids"]:
                if len(rec["data"]) == 0:
                    nempty += 1
                    continue
                return engine.bad("record header (cpu $%02x, seg %d, gran %d) matches no emitting statement"
                                  % (rec["cpu"], rec["seg"], rec["gran"]), key, classes, **detail)
            if len(rec["data"]) == 0:
                nempty += 1
            base = rec["addr"] * rec["gran"]
            got += [((rec["seg"], base + k), b) for k, b in enumerate(rec["data"])]
    if nempty:
        classes.append("empty_records")
    ents = [x for x in recs if x["kind"] == "entry"]
    if info["entry"] is None and ents:
        return engine.bad("entry record without END address", key, classes, **detail)
    if info["entry"] is not None and (len(ents) != 1 or ents[0]["addr"] != info["entry"]):
        return engine.bad("entry record %s, END said %d" % ([e["addr"] for e in ents], info["entry"]),
                          key, classes, **detail)
    if got != exp:
        if len(got) != len(exp):
            why = "code file holds %d bytes, the program specifies %d" % (len(got), len(exp))
        else:
            why = "byte sequence differs"
        i = next((i for i in range(min(len(got), len(exp))) if got[i] != exp[i]), min(len(got), len(exp)))
        return engine.bad("%s; first difference at emission index %d: got %s expected %s"
                          % (why, i, got[i:i + 1], exp[i:i + 1]), key, classes,
                          records=[(hex(x["cpu"]), x["seg"], hex(x["addr"]), len(x["data"])) for x in recs
                                   if x["kind"] == "data"][:40], **detail)
    return engine.ok(key, classes)


def show(case):
    its = case["items"]
    return its if len(its) < 60 else its[:60] + ["..."]


def fixed_cases(tier):
    out = []
    # exact boundary family around the 64 KiB record limit and the 512-byte buffer, per byte target
    for tn in ("z80", "6502", "68000"):
        for tail in (65532, 65533, 65534, 65535):
            for nxt in (1, 2, 3):
                last = 2 if tn == "68000" else 65536 - tail - nxt   # 16-bit targets: stay inside 64 KiB
                its = [["cpu", tn], ["seg", "code"], ["org", 0], ["emit", tail, 5, 1, "dup"],
                       ["emit", nxt, 9, 3, "list"]]
                if last > 0:
                    its.append(["emit", last, 77, 1, "list"])
                if last >= 0:
                    out.append(dict(items=its))
        for first in (509, 510, 511, 512, 513):
            out.append(dict(items=[["cpu", tn], ["seg", "code"], ["org", 256], ["emit", first, 1, 1, "dup"],
                                   ["emit", 3, 2, 1, "list"], ["res", 2], ["emit", 2, 3, 1, "list"]]))
            out.append(dict(items=[["cpu", tn], ["seg", "code"], ["org", 256], ["emit", 60, 1, 1, "list"]] +
                                  [["emit", 64, i, 3, "list"] for i in range(7)] +
                                  [["emit", first - 508, 9, 1, "list"], ["emit", 1, 4, 1, "list"]]))
    for tn, gran in (("320c25", 2), ("320c30", 4)):
        for k in (-3, -1, 0, 1, 2):
            units = 65536 // gran + k
            out.append(dict(items=[["cpu", tn], ["seg", "code"], ["org", 16], ["emit", units - 40, 3, 1, "list"],
                                   ["emit", 37, 9, 3, "list"], ["emit", 5, 1, 1, "list"], ["res", 2],
                                   ["emit", 2, 77, 1, "list"]]))
    # one statement at and just beyond 64 KiB: laid down completely or refused with an error
    for tn, gran in (("68000", 1), ("z80", 1), ("8051", 1), ("6502", 1)):
        for n in (65534, 65535, 65536, 65537, 65540, 131072):
            its = [["cpu", tn], ["seg", "code"], ["org", 256 if tn == "68000" else 0]]
            if tn == "68000":
                its += [["emit", 4, 72, 1, "list"], ["emit", n, 5, 1, "dup"], ["emit", 4, 84, 1, "list"]]
            elif n <= 65536:
                its += [["emit", n, 5, 1, "dup"]]
            else:
                continue
            out.append(dict(items=its, oversize=n > 65535))
    out.append(dict(items=[["cpu", "16c84"], ["seg", "code"], ["org", 0]] +
                          [["emit", 64, i * 11, 3, "list"] for i in range(5)] + [["res", 3], ["emit", 2, 1, 1, "list"]]))
    out.append(dict(items=[["cpu", "320c30"], ["seg", "code"], ["org", 64]] +
                          [["emit", 64, i * 11, 5, "list"] for i in range(3)] + [["res", 3], ["emit", 2, 1, 1, "list"],
                                                                                 ["end", 64]]))
    return out


KNOWN = {}
