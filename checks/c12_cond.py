"""C12  Conditional assembly selects exactly the documented branch.

Generated domain: programs made of conditional-assembly skeletons (vf/condmodel.py).  Every branch body
emits a unique marker byte and defines a unique symbol; IFDEF-style probes after each construct emit
further markers for the symbols that exist.  Oracle: the independent interpreter of condmodel (written
from the manual) predicts the exact contents of the code file, the set of "no CASE hit" warnings and
the absence of every other diagnostic.  Malformed family: one stray ELSE/ELSEIF/ENDIF/CASE/ELSECASE/
ENDCASE or one deleted closer must give at least one error and exit status 2, never a signal.
"""
import re
from vf import engine, asl, pfile
from vf import condmodel as cm
from vf.gen import composite

ID = "C12"
RULE = ("three case kinds.  (1) enum: batches of the exhaustively enumerated small space (all skeletons with "
        "<= 2 nesting levels and <= 3 branches per construct, IF ladders and SWITCH constructs, every truth "
        "assignment), each skeleton in its own ORG slot.  (2) prog: sampled programs of 1-10 skeleton items "
        "(depth <= 4, <= 5 branches; IF expressions, IFDEF/IFNDEF, IFUSED/IFNUSED, IFEXIST/IFNEXIST, IFB/IFNB "
        "in macros with every blank pattern and positional/trimmed/keyword argument lists, int/float/string "
        "SWITCH with overlapping CASE lists, EXITM in macros/IRP/REPT, macro calls and loops wrapped in up to "
        "two live or skipped constructs and an outer macro, INCLUDE/REPT wrappers inside branches, poison "
        "statements and erroneous conditions in text the model proves skipped, 8 targets (SELECT on OLMS-50), "
        "1 or 2 passes) plus fixed regression and deep-nesting (6-26 levels) programs.  (3) mal: a small well-formed program with one stray conditional statement or one deleted "
        "closer.  non-trivial = nesting >= 2 with a selected branch that is not the first, or an IFB list with "
        "a blank and a non-blank argument, or overlapping CASE values (prog/enum), or a mutation whose place "
        "makes an error mandatory (mal); distinct by (skeleton shapes, vector of assembled leaves) resp. "
        "(shape, mutation, place)")
ASSUMPTIONS = [
    "IFDEF/IFNDEF are only applied to symbols (labels, EQU constants, -D symbols); IFDEF of macro or function "
    "names is not documented and not generated",
    "statements between SWITCH and the first CASE belong to no branch and are assembled iff the SWITCH itself "
    "is (manual: 'an arbitrary number of statements may be between SWITCH and the first CASE')",
    "CASE values always have the selector's type (comparison of different types is not documented)",
    "IF expressions stay within 32 bits; selector/CASE integers within 64 bits",
    "macro bodies define symbols only as labels (documented to be local to the expansion) and are probed "
    "inside the expansion; symbols defined in macros are never tested from outside",
    "U symbols tested with IFUSED are referenced only by data statements of leaves, never by IFDEF/DEFINED",
    "whitespace-only macro arguments are not generated (only truly empty or non-empty ones)",
    "no labels on conditional statements themselves",
    "IRP/REPT items: leaves define no symbols (labels in loop bodies may be local to a repetition); an executed "
    "EXITM ends the whole IRP/REPT, not only the current repetition (manual: EXITM terminates 'one of the "
    "instructions REPT, IRP, or WHILE prematurely')",
    "the operator '!=' (documented alias of '<>') is not generated: it is missing from the operator table of the "
    "tree (every use gives 'wrong number of operands'); that belongs to C08, not to this property",
    "OLMS-50 (the only target where the construct is opened with SELECT): DATA lays down one 16-bit code word "
    "per value; markers are read from the low bytes and the high bytes must be zero",
    "poison statements (ERROR, FATAL, END, INCLUDE of a missing file, unknown instructions, ORG, CPU, macro "
    "calls, unterminated strings, erroneous IF/ELSEIF/SWITCH/CASE expressions) are rendered only in text the "
    "model proves is never assembled; erroneous conditions keep one argument (CASE: a list), because argument "
    "counts of conditional statements are checked even in skipped text",
    "malformed family: an error is only demanded where no reading of the manual pairs the statement: surplus "
    "closer anywhere, missing closer anywhere, stray ELSE/ELSEIF with no IF open or after the default branch, "
    "stray CASE/ELSECASE with no SWITCH open or after ELSECASE (all in assembled text); other places only "
    "demand a normal exit (status 0 or 2, no signal)",
]

KNOWN = {}
ENUM_BATCH = 400
ENUM_STRIDE = 8
ENUM_CPUS = [i for i, n in enumerate(cm.CPU_NAMES) if cm.CPUS[n]["limit"] >= 32 * ENUM_BATCH + 64]


def budget(tier):
    return dict(examples=3200 if tier == "quick" else 60000, shards=16)


# ------------------------------------------------------------------ execution helpers

_DIAG = re.compile(r"^> > > (?P<pos>.*?): (?P<kind>error|warning|fatal error|fatal)(?: #(?P<num>\d+))?: (?P<msg>.*)$", re.M)


def _diag(r):
    """(errors, warnings) of a run with -n.  Own parser: positions inside IRP ('t.asm(62) IRP:3(4)') and
    messages without a source position ('> > > INTERNAL: error #1470: missing ENDIF/ENDCASE' at the end of a
    pass) must be counted as well; fatal errors count as errors."""
    errs, warns = [], []
    for m in _DIAG.finditer(r.err + "\n" + r.out):
        pm = re.match(r"([^\s(]+)\((\d+)\)", m.group("pos"))
        d = dict(file=pm.group(1) if pm else m.group("pos"), line=int(pm.group(2)) if pm else 0,
                 num=int(m.group("num")) if m.group("num") else None, msg=m.group("msg"), pos=m.group("pos"))
        (warns if m.group("kind") == "warning" else errs).append(d)
    return errs, warns


def run_program(prog, args=()):
    argv = ["-n", "-i", "incd", "-D", cm.CLI_DEFS] + list(args)
    return asl.assemble(prog.files, args=argv)


def compare(prog, r):
    """returns None or (why, detail)"""
    errs, warns = _diag(r)
    brief = r.brief(500)
    if r.signal:
        return "asl killed by signal %d on a well-formed program" % r.signal, brief
    if r.status != 0 or errs:
        return "well-formed program: exit status %s, %d errors (first: %s)" % (
            r.status, len(errs), errs[0]["msg"] if errs else "-"), brief
    if r.p is None:
        return "no code file", brief
    try:
        bm = r.bytemap()
    except pfile.FormatError as e:
        return "code file unreadable: %s" % e, brief
    if any(seg != 1 for seg, _ in bm):
        return "bytes outside the CODE segment", brief
    got = {a: b for (seg, a), b in bm.items()}
    unit = cm.CPUS[prog.cpu].get("unit", 1)
    if unit == 2:
        # OLMS-50: DATA lays down one 16-bit code word per value (little endian in the code file)
        if any(a % 2 and b for a, b in got.items()) or any((a ^ 1) not in got for a in got):
            return "OLMS-50 code words with a non-zero high byte", brief
        got = {a // 2: b for a, b in got.items() if a % 2 == 0}
    if got != prog.expect:
        for idx, call, base, out in prog.slots:
            size = len(out)
            g = bytes(got[a] for a in sorted(got) if base <= a < _next_base(prog, base))
            if g != bytes(out):
                return ("item %d call %d at %d: marker bytes %s, model expects %s"
                        % (idx, call, base, g.hex(), bytes(out).hex()),
                        dict(item=idx, call=call, got=g.hex(), exp=bytes(out).hex(), **brief))
        extra = sorted(set(got) - set(prog.expect))[:8]
        return "code file differs outside the slots (extra addresses %s)" % extra, brief
    # warnings: exactly the predicted 'no CASE hit' ones (number 100), any number of passes
    bad = [w for w in warns if w["num"] != 100]
    if bad:
        return "unexpected warning: %s" % bad[0]["msg"], brief
    if prog.warn_count == 0:
        if warns:
            return "warning 'no CASE hit' although every SWITCH selects a branch (line %d)" % warns[0]["line"], brief
    else:
        if not warns:
            return "SWITCH without matching CASE and without ELSECASE did not warn", brief
        if len(warns) % prog.warn_count:
            return "%d 'no CASE hit' warnings, model expects a multiple of %d" % (len(warns), prog.warn_count), brief
    # warnings given outside macro/loop expansions name the ENDCASE line of exactly the constructs without a hit
    # (files are compared by their base name: how much of the path a message shows is not this property's subject)
    base = lambda f: f.rsplit("/", 1)[-1]
    plain = {(base(w["file"]), w["line"]) for w in warns if re.fullmatch(r"[^\s(]+\(\d+\)(:\d+)?", w["pos"])}
    if plain != {(base(f), l) for f, l in prog.warn_lines}:
        return ("'no CASE hit' warnings at %s, model expects them at %s"
                % (sorted(plain)[:6], sorted(prog.warn_lines)[:6]), brief)
    return None


def _next_base(prog, base):
    nb = [b for _, _, b, _ in prog.slots if b > base]
    return min(nb) if nb else prog.top


# ------------------------------------------------------------------ enumerated family

_ENUMS = {}


def enum(single):
    if single not in _ENUMS:
        _ENUMS[single] = cm.Enum(bool(single))
    return _ENUMS[single]


def exec_enum(case):
    en = enum(case["single"])
    idxs = list(range(case["lo"], min(case["hi"], en.total), case.get("step", 1)))
    items = [en.item(i) for i in idxs]
    cpu = cm.CPU_NAMES[case.get("cpu", 0)]
    prog = cm.Program(cpu, items, twopass=bool(case.get("twopass")), style=case.get("style", 0), slot=32)
    nt = sum(1 for s in prog.item_stats if s["nested_nonfirst"] or s["overlap"])
    classes = ["enum", "enum-single" if case["single"] else "enum-full", "cpu:" + cpu,
               "enumnt=%d/%s" % (nt, "single" if case["single"] else "full"),
               "enumn=%d/%s" % (len(items), "single" if case["single"] else "full")]
    r = run_program(prog)
    if r.timed_out:
        return engine.inconclusive("timeout", classes)
    bad = compare(prog, r)
    key = "enum:%d:%d:%d:%d" % (case["single"], case["lo"], case["hi"], case.get("step", 1))
    if bad:
        why, detail = bad
        # isolate the first failing skeleton and re-run it alone for a minimal reproduction
        k = detail.get("item") if isinstance(detail, dict) else None
        if k is not None:
            solo = cm.Program(cpu, [items[k]], slot=32)
            r2 = run_program(solo)
            bad2 = compare(solo, r2)
            detail = dict(detail, index=idxs[k], decoded=repr(en.decode(idxs[k])), solo_source=solo.files["t.asm"],
                          solo_fails=bool(bad2), solo_why=bad2[0] if bad2 else None)
        return engine.bad("enumerated skeleton: " + why, key, classes, **detail)
    return engine.ok(key, classes)


def fixed_cases(tier):
    out = []
    ncpu = len(ENUM_CPUS)
    e1 = enum(1)
    n = 0
    for lo in range(0, e1.total, ENUM_BATCH):
        out.append(dict(kind="enum", single=1, lo=lo, hi=lo + ENUM_BATCH, cpu=ENUM_CPUS[n % ncpu] if n % 3 == 0 else 0,
                        style=n, twopass=n % 2))
        n += 1
    e2 = enum(0)
    if tier == "quick":
        # systematic 1-in-ENUM_STRIDE sample of the full two-level space (the full space runs in the thorough tier)
        span = ENUM_BATCH * ENUM_STRIDE
        for lo in range(0, e2.total, span):
            out.append(dict(kind="enum", single=0, lo=lo + (n % ENUM_STRIDE), hi=lo + span, step=ENUM_STRIDE,
                            cpu=ENUM_CPUS[n % ncpu] if n % 3 == 0 else 0, style=n, twopass=n % 2))
            n += 1
    else:
        for lo in range(0, e2.total, ENUM_BATCH):
            out.append(dict(kind="enum", single=0, lo=lo, hi=lo + ENUM_BATCH, cpu=ENUM_CPUS[n % ncpu] if n % 3 == 0 else 0,
                            style=n, twopass=n % 2))
            n += 1
    out += REGRESSIONS
    return out


def coverage_extra(tier, classes):
    def total(prefix, tag):
        return sum(int(k.split("=")[1].split("/")[0]) * v for k, v in classes.items()
                   if k.startswith(prefix + "=") and k.endswith("/" + tag))
    e1, e2 = enum(1), enum(0)
    done1, done2 = total("enumn", "single"), total("enumn", "full")
    return dict(enumerated_spaces=[
        dict(space="all skeletons with <= 2 nesting levels, <= 3 branches per construct (IF ladder or SWITCH, "
                   "conditional branches + default), at most one level-1 branch holding a nested construct, "
                   "x all truth assignments", size=e1.total, executed=done1, exhaustive=done1 == e1.total,
             nontrivial_pairs=total("enumnt", "single")),
        dict(space="all skeletons with <= 2 nesting levels, <= 3 branches per construct, every level-1 branch "
                   "empty or holding any level-2 construct, x all truth assignments", size=e2.total,
             executed=done2, exhaustive=done2 == e2.total, nontrivial_pairs=total("enumnt", "full"),
             note=None if done2 == e2.total else "systematic 1-in-%d sample in this tier" % ENUM_STRIDE)])


# ------------------------------------------------------------------ sampled programs

INT_POOLS = [[0, 1, 2, 3], [5, 4, 6, -1], [4294967296, 0, 4294967297, 1], [255, -1, 256, -256],
             [2147483648, -2147483648, 0, 2147483647]]
FLT_POOL = ["1.5", "0.5", "2.25", "-1.5", "1.0", "3.0"]
STR_POOL = ["abc", "ABC", "abd", "ab", "abcd", ""]
ARGV = ["", "x", "", "1", "foo", ""]


def g_atom(d, env, small=False):
    if env.get("irp") and d.bool(0.35):
        return ["p"]
    if small:
        return ["s", d.choice(["K0", "K1", "K5", "KM1"])] if d.bool(0.4) else ["n", d.choice([0, 1, 5, -1, 2, 255])]
    if d.bool(0.4):
        return ["s", d.choice(["K0", "K1", "K5", "KM1", "CLIA", "CLIB"])]
    return ["n", d.choice([0, 1, 0, 5, -1, 2, 4, 6, 255, -128, 65536, 2147483647, -2147483647])]


def g_expr(d, env, depth=0):
    k = d.weighted([(4, "atom"), (4, "cmp"), (2, "logic"), (1, "arith"), (3, "def"), (1, "scmp")])
    if k == "atom":
        return g_atom(d, env)
    if k == "cmp":
        return ["cmp", d.choice(["==", "=", "<>", "<", ">", "<=", ">="]), g_atom(d, env), g_atom(d, env)]
    if k == "logic":
        if depth >= 2:
            return g_atom(d, env)
        op = d.choice(["and", "or", "xor", "not"])
        if op == "not":
            return ["not", g_expr(d, env, depth + 1)]
        return [op, g_expr(d, env, depth + 1), g_expr(d, env, depth + 1)]
    if k == "arith":
        return [d.choice(["add", "sub"]), g_atom(d, env, True), g_atom(d, env, True)]
    if k == "def":
        return ["def", g_name(d, env)]
    return ["scmp", d.choice(["==", "<>", "="]), g_value(d, env, "s", None), g_value(d, env, "s", None)]


def g_name(d, env):
    """a symbol name for IFDEF/DEFINED: a leaf symbol that may or may not get defined, a constant, a -D
    symbol, or a name that is never defined"""
    k = d.weighted([(6, "leaf"), (2, "const"), (2, "undef"), (1, "cli")])
    if k == "leaf" and env["names"]:
        return d.choice(env["names"])
    if k == "const":
        return d.choice(["K0", "K5", "STRA", "FLH", "k1"])
    if k == "cli":
        return d.choice(["CLIA", "CLIB", "clia"])
    return d.choice(cm.UNDEF)


def g_value(d, env, ty, pool):
    if ty == "i":
        if env.get("irp") and d.bool(0.3):
            return ["p"]
        v = d.choice(pool)
        f = d.weighted([(6, "n"), (2, "sym"), (2, "arith")])
        if f == "sym":
            for name, val in (("K0", 0), ("K1", 1), ("K5", 5), ("KM1", -1), ("KBIG", 4294967296)):
                if val == v:
                    return ["s", name]
        if f == "arith":
            a = d.choice([1, 2, 5])
            return ["add", ["n", v - a], ["n", a]] if d.bool() else ["sub", ["n", v + a], ["n", a]]
        return ["n", v]
    if ty == "f":
        v = d.choice(FLT_POOL)
        if v == "1.5" and d.bool(0.5):
            return ["s", "FLH"] if d.bool() else ["fadd", "0.5", "1.0"]
        if v == "2.25" and d.bool(0.4):
            return ["fadd", "0.25", "2.0"]
        return ["f", v]
    v = d.choice(STR_POOL)
    if v == "abc" and d.bool(0.5):
        return ["s", "STRA"] if d.bool() else ["cat", "ab", "c"]
    return ["str", v]


def g_cond(d, env):
    mac = env["mac"]
    k = d.weighted([(6, "if"), (4, "def"), (2, "used"), (2, "ex"), (6 if mac else 1, "b")])
    if k == "if":
        return {"k": "if", "e": g_expr(d, env)}
    if k == "def":
        return {"k": "def", "s": g_name(d, env), "n": int(d.bool(0.4))}
    if k == "used":
        return {"k": "used", "s": d.choice(cm.USYMS + cm.USYMS + ["u1", "u3"] + cm.UNDEF), "n": int(d.bool(0.4))}
    if k == "ex":
        nf = len(cm.EXIST_FORMS)
        # (the last three forms name the neighbour of the include files in sub/: a third of the IFEXIST leaves)
        return {"k": "ex", "f": d.int(nf - 3, nf - 1) if d.bool(0.33) else d.int(0, nf - 1), "n": int(d.bool(0.4))}
    n = d.weighted([(1, 0), (3, 1), (4, 2), (3, 3), (2, 4)])
    args = []
    for _ in range(n):
        if mac and d.bool(0.8):
            args.append(d.int(0, mac - 1))
        else:
            args.append(d.choice(["", "", "x", "1"]))
    return {"k": "b", "a": args, "n": int(d.bool(0.4))}


def g_leaf(d, env):
    lf = {"t": "L", "id": 0}
    if env.get("nodef"):
        df = "none"
    else:
        df = d.weighted([(6, "lab"), (0 if env["mac"] else 3, "equ"), (1, "none")])
    if df != "lab":
        lf["df"] = df
    if d.bool(0.12):
        lf["use"] = d.int(0, 3)
    if env["poison"] and d.bool(0.3):
        lf["po"] = d.int(0, len(cm.POISON) - 1)
    if env.get("exitm") and d.bool(0.04):
        lf["x"] = 1
    if env.get("mdef") and d.bool(0.2):
        lf["md"] = 1
    return lf


def g_body(d, env, depth, budget):
    body = [g_leaf(d, env)]
    budget[0] -= 1
    n = 0
    while depth <= env["maxdepth"] and budget[0] > 3 and n < 2 and d.bool(0.75 if depth == 1 else 0.45):
        el = g_construct(d, env, depth, budget)
        if env["wrap"] and d.bool(0.14):
            if d.bool(0.6):
                inner = [el]
                if d.bool(0.6):
                    # IFEXIST/IFNEXIST for the neighbour of the include file (or, from the main directory, for a file
                    # that is not there): resolved relative to the file that holds the statement
                    nf = len(cm.EXIST_FORMS)
                    probe = {"t": "I", "c": {"k": "ex", "f": d.int(nf - 3, nf - 1), "n": int(d.bool(0.4))},
                             "b": [g_leaf(d, env)], "ei": [], "el": [g_leaf(d, env)] if d.bool(0.6) else None}
                    budget[0] -= 2
                    inner = [probe, g_leaf(d, env)] + inner if d.bool() else inner + [g_leaf(d, env), probe]
                    if d.bool(0.3):
                        inner = [{"t": "N", "b": inner}]          # include file included from an include file
                el = {"t": "N", "b": inner}
            else:
                el = {"t": "R", "b": [el]}
                for lf in cm.leaves_of([el]):
                    lf["df"] = "none"         # labels inside REPT may be local to the repetition
        body.append(el)
        body.append(g_leaf(d, env))
        budget[0] -= 1
        n += 1
    return body


def g_construct(d, env, depth, budget):
    sub = lambda: g_body(d, env, depth + 1, budget)
    nb = d.weighted([(3, 1), (4, 2), (3, 3), (2, 4), (1, 5)])
    dflt = d.bool(0.5)
    if dflt and nb > 1:
        nb -= 1
    elif nb == 5:
        dflt = False
    pc = env["poison"] and not env["mac"] and not env.get("irp") and not env.get("nodef")
    if d.bool(0.6):
        n = {"t": "I", "c": g_cond(d, env), "b": sub(), "ei": [], "el": None}
        if pc and d.bool(0.25):
            n["pc"] = d.int(0, len(cm.PCOND) - 1)
        for _ in range(nb - 1):
            ei = {"e": g_expr(d, env), "b": sub()}
            if pc and d.bool(0.25):
                ei["pc"] = d.int(0, len(cm.PCOND) - 1)
            n["ei"].append(ei)
        if dflt:
            n["el"] = sub()
        return n
    ty = d.weighted([(5, "i"), (2, "f"), (3, "s")])
    pool = d.choice(INT_POOLS) if ty == "i" else None
    if env.get("irp") and ty == "i":
        pool = INT_POOLS[0]
    n = {"t": "S", "sel": g_value(d, env, ty, pool), "pre": None, "cs": [], "el": None}
    if pc and d.bool(0.25):
        n["pc"] = d.int(0, len(cm.PCOND) - 1)
    if d.bool(0.15):
        n["pre"] = [g_leaf(d, env)]
        budget[0] -= 1
    for _ in range(nb):
        vals = [g_value(d, env, ty, pool) for _ in range(d.weighted([(5, 1), (3, 2), (1, 3), (1, 4)]))]
        cs = {"v": vals, "b": sub()}
        if pc and d.bool(0.2):
            cs["pc"] = 1
        n["cs"].append(cs)
    if dflt:
        n["el"] = sub()
    return n


def number(item):
    for i, lf in enumerate(cm.leaves_of(item["body"])):
        lf["id"] = i + 1


def g_wrappers(d):
    wr = [[d.choice("IS"), int(d.bool(0.75))] for _ in range(d.weighted([(5, 0), (3, 1), (2, 2)]))]
    if d.bool(0.2):
        wr.append(["M", 1])
    return wr


def g_item(d, idx, names, maxdepth, allow_mac, poison, wrap, maxleaf):
    kind = "plain"
    if allow_mac:
        kind = d.weighted([(11, "plain"), (6, "mac"), (2, "irp"), (1, "rept")])
    own = ["S%d_%d" % (idx, k) for k in (1, 2, 3, 4, 5, 7, 9, 12)]
    env = dict(names=names + own, mac=0, poison=poison, wrap=wrap and kind == "plain", maxdepth=maxdepth,
               mdef=kind == "plain" and allow_mac and d.bool(0.3))
    if env["mdef"]:
        env["wrap"] = False
    if kind == "mac":
        env["mac"] = d.int(1, 4)
        env["exitm"] = True
    elif kind in ("irp", "rept"):
        env["irp"] = kind == "irp"
        env["nodef"] = True
        env["exitm"] = True
        env["names"] = names
        env["maxdepth"] = min(maxdepth, 3)
        maxleaf = min(maxleaf, 10)
    budget = [d.choice([6, 12, 25, maxleaf]) if kind in ("plain", "mac") else maxleaf]
    body = [g_construct(d, env, 1, budget)]
    if d.bool(0.2) and budget[0] > 3:
        body.append(g_leaf(d, env))
        body.append(g_construct(d, env, 1, budget))
    it = {"body": body, "mac": None, "pf": d.int(0, 4), "sty": d.int(0, 255)}
    if kind == "mac":
        mac = env["mac"]
        calls = []
        for _ in range(d.int(1, 4)):
            calls.append([d.choice(ARGV) for _ in range(mac)])
        it["mac"] = {"np": mac, "calls": calls}
        if d.bool(0.4):
            it["mac"]["wr"] = [g_wrappers(d) for _ in calls]
        form = d.weighted([(4, "pos"), (3, "trim"), (2, "kw"), (1, "kwrev")])
        if form == "trim":
            it["trim"] = 1
        elif form != "pos":
            it["kw"] = 1 if form == "kw" else 2
    elif kind == "irp":
        it["loop"] = {"k": "irp", "vals": [d.choice([0, 1, 2, 3, -1, 5]) for _ in range(d.int(1, 4))], "wr": g_wrappers(d)}
    elif kind == "rept":
        it["loop"] = {"k": "rept", "n": d.int(1, 3), "wr": g_wrappers(d)}
    number(it)
    if len(cm.leaves_of(it["body"])) > cm.MAXLEAF:
        raise AssertionError("generator produced too many leaves")
    return it


@composite
def strategy_(d, tier):
    kind = d.weighted([(7, "prog"), (3, "mal")])
    if kind == "mal":
        nitems = d.int(1, 3)
        items, names = [], []
        for i in range(nitems):
            items.append(g_item(d, i, names, d.int(1, 3), False, False, False, 12))
            names += ["S%d_%d" % (i, k) for k in (1, 2, 3, 5)]
        op = d.weighted([(6, "stray"), (3, "delete")])
        mut = {"op": op, "pos": d.int(0, 9999), "any": int(d.bool(0.25))}
        if op == "stray":
            mut["stmt"] = d.int(0, len(cm.STRAYS) - 1)
        return dict(kind="mal", cpu=d.weighted([(4, 0)] + [(1, i) for i in range(1, len(cm.CPU_NAMES))]),
                    style=d.int(0, 255), items=items, mut=mut)
    nitems = d.weighted([(2, 1), (3, 2), (3, 4), (2, 6), (1, 9)])
    maxdepth = d.weighted([(1, 1), (3, 2), (3, 3), (3, 4)])
    poison = d.bool(0.5)
    wrap = d.bool(0.4)
    items, names = [], []
    for i in range(nitems):
        it = g_item(d, i, names, maxdepth, True, poison, wrap, 40 if nitems <= 4 else 16)
        items.append(it)
        if not it["mac"] and not it.get("loop"):
            names += ["S%d_%d" % (i, k) for k in (1, 2, 3, 5, 8)]
    cpu = d.weighted([(4, 0)] + [(1, i) for i in range(1, len(cm.CPU_NAMES))])
    size = sum(cm.slot_size(it) * (len(it["mac"]["calls"]) if it["mac"] else 1) for it in items) + 32
    if size > cm.CPUS[cm.CPU_NAMES[cpu]]["limit"]:
        cpu = 0
    return dict(kind="prog", cpu=cpu, twopass=int(d.bool(0.3)), style=d.int(0, 255), items=items)


def strategy(tier):
    return strategy_(tier)


def build(case):
    return cm.Program(cm.CPU_NAMES[case["cpu"]], case["items"], twopass=bool(case.get("twopass")),
                      style=case.get("style", 0))


def exec_prog(case):
    prog = build(case)
    cpu = cm.CPU_NAMES[case["cpu"]]
    classes = ["prog", "cpu:" + cpu, "passes:%d" % (2 if case.get("twopass") else 1), "items:%d" % len(case["items"])]
    kinds = set()
    depth = 0
    nt = []
    for it, st in zip(case["items"], prog.item_stats):
        kinds |= st["kinds"]
        depth = max(depth, st["depth"])
        if it["mac"]:
            kinds.add("macro")
        if it.get("loop"):
            kinds.add("loop")
        if st["exitm"]:
            kinds.add("exitm-taken")
        if st["poison"]:
            kinds.add("poison")
        if st["warn"]:
            kinds.add("nocasehit")
        if st["nested_nonfirst"]:
            nt.append("nested-nonfirst")
        if st["ifb_mixed"]:
            nt.append("ifb-mixed")
        if st["overlap"]:
            nt.append("case-overlap")
    shp = "".join(cm.shape_of(it["body"]) for it in case["items"])
    for t, name in (("N(", "include-wrap"), ("R(", "rept-wrap")):
        if t in shp:
            kinds.add(name)
    classes += sorted("c:" + k for k in kinds) + ["depth:%d" % depth] + sorted(set("nt:" + x for x in nt))
    key = None
    if nt:
        key = engine.digest(shp + "|" + ";".join(",".join(map(str, st["taken"])) for st in prog.item_stats))
    r = run_program(prog)
    if r.timed_out:
        return engine.inconclusive("timeout", classes)
    bad = compare(prog, r)
    if bad:
        why, detail = bad
        return engine.bad(why, key, classes, source=prog.files["t.asm"], includes={k: v for k, v in prog.files.items()
                          if k.startswith("i") and k.endswith(".inc") and k[1:2].isdigit()}, **detail)
    return engine.ok(key, classes)


# ------------------------------------------------------------------ malformed programs

def mutate(case):
    """returns (files, classification, description, line number of the mutation)"""
    prog = cm.Program(cm.CPU_NAMES[case["cpu"]], case["items"], style=case.get("style", 0))
    lines = prog.lines
    first = prog.first_item_line
    mut = case["mut"]
    if mut["op"] == "delete":
        cands = [i for i in range(first, len(lines)) if lines[i]["role"] == "close"]
        p = cands[mut["pos"] % len(cands)]
        new = [l["text"] for l in lines[:p]] + [l["text"] for l in lines[p + 1:]]
        cls, desc = "must", "deleted '%s' of line %d" % (lines[p]["text"].strip(), p + 1)
    else:
        stmt = cm.STRAYS[mut["stmt"]]
        allc = []
        for i in range(first, len(lines) + 1):
            if i < len(lines):
                c = cm.classify_stray(stmt, lines[i]["stack"], lines[i]["act"])
            else:
                c = cm.classify_stray(stmt, (), True)
            allc.append((i, c))
        must = [x for x in allc if x[1] == "must"]
        pool = allc if (mut.get("any") or not must) else must
        if mut.get("at") == "end":
            pool = allc[-1:]
        p, cls = pool[mut["pos"] % len(pool)]
        new = [l["text"] for l in lines[:p]] + ["\t" + stmt] + [l["text"] for l in lines[p:]]
        st = lines[p]["stack"] if p < len(lines) else ()
        desc = "stray '%s' before line %d (open: %s, %s)" % (
            stmt, p + 1, "".join(s[0] + ("e" if s[1] else "") for s in st) or "-",
            "assembled" if (p >= len(lines) or lines[p]["act"]) else "skipped")
    files = dict(prog.files)
    files["t.asm"] = "\n".join(new) + "\n"
    return files, cls, desc, p + 1


def exec_mal(case):
    files, cls, desc, line = mutate(case)
    mut = case["mut"]
    what = "delete" if mut["op"] == "delete" else cm.STRAYS[mut["stmt"]].split()[0]
    classes = ["mal", "mal:" + what, "mal-" + cls, "cpu:" + cm.CPU_NAMES[case["cpu"]]]
    r = asl.assemble(files, args=["-n", "-i", "incd", "-D", cm.CLI_DEFS])
    if r.timed_out:
        return engine.inconclusive("timeout", classes)
    errs, warns = _diag(r)
    detail = dict(mutation=desc, source=files["t.asm"], **r.brief(600))
    key = None
    if cls == "must":
        key = engine.digest("mal|" + "".join(cm.shape_of(it["body"]) for it in case["items"]) + "|" + what + "|%d" % line)
    if r.signal:
        return engine.bad("asl killed by signal %d: %s" % (r.signal, desc), key, classes, **detail)
    if cls == "must":
        if r.status != 2 or not errs:
            return engine.bad("malformed program (%s): exit status %s with %d errors, expected >= 1 error and status 2"
                              % (desc, r.status, len(errs)), key, classes, **detail)
        if any(e["line"] == line for e in errs):
            classes.append("mal-error-at-line")
    else:
        if r.status not in (0, 2) or (r.status == 2) != bool(errs):
            return engine.bad("program with %s: exit status %s with %d errors" % (desc, r.status, len(errs)),
                              key, classes, **detail)
        classes.append("mal-noclaim-error" if errs else "mal-noclaim-clean")
    return engine.ok(key, classes)


def _L(**kw):
    return dict({"t": "L", "id": 0}, **kw)


def _deep(depth, false_at=None, kinds="IS"):
    """chain of `depth` nested constructs (IF ladders and SWITCHes alternating, three branches each); the nested
    construct sits in branch level%3 which is the selected one, except at level `false_at` where another
    branch is selected, so that everything deeper is skipped text that only has to be paired"""
    def level(k):
        if k == depth:
            return [_L()]
        pos = k % 3
        sel = pos if k != false_at else (pos + 1) % 3
        bodies = [[_L()] for _ in range(3)]
        bodies[pos] = [_L()] + [None] + [_L()]
        inner = level(k + 1)
        if kinds[k % len(kinds)] == "I":
            n = {"t": "I", "c": {"k": "if", "e": ["n", int(sel == 0)]}, "b": bodies[0],
                 "ei": [{"e": ["cmp", "==", ["s", "K5"], ["n", 5 if sel == 1 else 4]], "b": bodies[1]}], "el": bodies[2]}
        else:
            n = {"t": "S", "sel": ["n", sel], "pre": None,
                 "cs": [{"v": [["n", 0]], "b": bodies[0]}, {"v": [["n", 7], ["n", 1]], "b": bodies[1]}], "el": bodies[2]}
        bodies[pos][1] = inner[0] if len(inner) == 1 and inner[0]["t"] != "L" else None
        if bodies[pos][1] is None:
            # innermost level: plain leaves only
            bodies[pos][1:2] = []
        return [n]
    it = {"body": level(0), "mac": None, "pf": 0, "sty": 0}
    number(it)
    return it


def _regressions():
    out = []
    # IFB must look at every argument (pinned tree: every second one) - proposed/C12/ifb-skips-every-second-argument.md
    ifb = {"body": [{"t": "I", "c": {"k": "b", "a": [0, 1], "n": 0}, "b": [_L()], "ei": [], "el": [_L()]},
                    _L(), {"t": "I", "c": {"k": "b", "a": [0, 1, 2, 3], "n": 1}, "b": [_L()], "ei": [], "el": [_L()]}],
           "mac": {"np": 4, "calls": [["", "x", "", ""], ["x", "", "", ""], ["", "", "", ""], ["", "", "", "1"],
                                      ["", "", "foo", ""]]}, "pf": 0, "sty": 0}
    number(ifb)
    out.append(dict(kind="prog", cpu=0, twopass=0, style=0, items=[ifb]))
    # lone ELSECASE (pinned tree: SIGSEGV) - proposed/C12/elsecase-without-switch-crashes.md
    plain = {"body": [{"t": "I", "c": {"k": "if", "e": ["n", 1]}, "b": [_L()], "ei": [], "el": None}], "mac": None,
             "pf": 0, "sty": 0}
    number(plain)
    for st in range(len(cm.STRAYS)):
        out.append(dict(kind="mal", cpu=0, style=0, items=[plain], mut={"op": "stray", "stmt": st, "pos": 0, "at": "end"}))
    # EXITM inside IRP (pinned tree: SIGSEGV) - proposed/C12/exitm-in-irp-crashes.md
    for wr in ([], [["I", 1]], [["S", 1], ["M", 1]]):
        irp = {"body": [{"t": "I", "c": {"k": "if", "e": ["cmp", "==", ["p"], ["n", 3]]}, "b": [_L(df="none", x=1)], "ei": [],
                         "el": [_L(df="none")]}, _L(df="none")], "mac": None, "pf": 0, "sty": 0,
               "loop": {"k": "irp", "vals": [1, 3, 2], "wr": wr}}
        number(irp)
        out.append(dict(kind="prog", cpu=0, twopass=0, style=0, items=[irp]))
    # deep nesting ("may be nested arbitrarily"), fully assembled and with a skipped tail
    for depth in (6, 12, 20, 26):
        for false_at in (None, 0, depth // 2, depth - 1):
            for kinds in ("IS", "I", "S", "SSI"):
                out.append(dict(kind="prog", cpu=(depth + len(kinds)) % 7, twopass=int(false_at is None), style=depth,
                                items=[_deep(depth, false_at, kinds)]))
    return out


REGRESSIONS = _regressions()


def execute(case):
    if case["kind"] == "enum":
        return exec_enum(case)
    if case["kind"] == "prog":
        return exec_prog(case)
    if case["kind"] == "mal":
        return exec_mal(case)
    raise ValueError("unknown case kind")


def show(case):
    if case["kind"] == "enum":
        return case
    if case["kind"] == "prog":
        return dict(kind="prog", source=build(case).files["t.asm"][-1200:])
    files, cls, desc, line = mutate(case)
    return dict(kind="mal", mutation=desc, expect=cls, source=files["t.asm"][-900:])
