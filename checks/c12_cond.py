"""C12  Conditional assembly selects exactly the documented branch.

Generated domain: programs made of conditional-assembly skeletons (vf/condmodel.py).  Every branch body
emits a unique marker byte and defines a unique symbol; IFDEF-style probes after each construct emit
further markers for the symbols that exist.  Oracle: the independent interpreter of condmodel (written
from the manual) predicts the exact contents of the code file, the set of "no CASE hit" warnings and
the absence of every other diagnostic.  Malformed family: one stray ELSE/ELSEIF/ENDIF/CASE/ELSECASE/
ENDCASE or one deleted closer must give at least one error and exit status 2, never a signal.
"""
import re
from vf import engine, asl
from vf import condmodel as cm
from vf.gen import composite

ID = "C12"
RULE = ("three case kinds.  (1) enum: batches of the exhaustively enumerated small space (all skeletons with "
        "<= 2 nesting levels and <= 3 branches per construct, IF ladders and SWITCH constructs, every truth "
        "assignment), each skeleton in its own ORG slot.  (2) prog: sampled programs of 1-10 skeleton items "
        "(depth <= 4, <= 5 branches; IF expressions, IFDEF/IFNDEF, IFUSED/IFNUSED, IFEXIST/IFNEXIST, IFB/IFNB "
        "in macros with every blank pattern, int/float/string SWITCH with overlapping CASE lists, EXITM, "
        "INCLUDE/REPT wrappers, poison statements in branches the model proves skipped, 8 targets, 1 or 2 "
        "passes).  (3) mal: a small well-formed program with one stray conditional statement or one deleted "
        "closer.  non-trivial = nesting >= 2 with a selected branch that is not the first, or an IFB list with "
        "a blank and a non-blank argument, or overlapping CASE values (prog/enum), or a mutation whose place "
        "makes an error mandatory (mal); distinct by (skeleton shapes, vector of assembled leaves) resp. "
        "(shape, mutation, place)")
ASSUMPTIONS = [
    "IFDEF/IFNDEF are only applied to symbols (labels, EQU constants, -D symbols); IFDEF of macro or function "
    "names is not documented and not generated",
    "statements between SWITCH and the first CASE belong to no branch and are assembled iff the SWITCH itself "
    "is (manual: 'an arbitrary number of statements may be between SWITCH and the first CASE')",
    "CASE values always have the selector's type (comparison of different types is not documented)",
    "IF expressions stay within 32 bits; selector/CASE integers within 64 bits",
    "macro bodies define symbols only as labels (documented to be local to the expansion) and are probed "
    "inside the expansion; symbols defined in macros are never tested from outside",
    "U symbols tested with IFUSED are referenced only by data statements of leaves, never by IFDEF/DEFINED",
    "whitespace-only macro arguments are not generated (only truly empty or non-empty ones)",
    "no labels on conditional statements themselves",
    "malformed family: an error is only demanded where no reading of the manual pairs the statement: surplus "
    "closer anywhere, missing closer anywhere, stray ELSE/ELSEIF with no IF open or after the default branch, "
    "stray CASE/ELSECASE with no SWITCH open or after ELSECASE (all in assembled text); other places only "
    "demand a normal exit (status 0 or 2, no signal)",
]

ENUM_BATCH = 400


def budget(tier):
    return dict(examples=16 if tier == "quick" else 60000, shards=16)


# ------------------------------------------------------------------ execution helpers

def _diag(r):
    ds = asl.diagnostics(r.err + "\n" + r.out)
    return [d for d in ds if d["kind"] == "error"], [d for d in ds if d["kind"] == "warning"]


def run_program(prog, args=()):
    argv = ["-n", "-i", "incd", "-D", cm.CLI_DEFS] + list(args)
    return asl.assemble(prog.files, args=argv)


def compare(prog, r):
    """returns None or (why, detail)"""
    errs, warns = _diag(r)
    brief = r.brief(500)
    if r.signal:
        return "asl killed by signal %d on a well-formed program" % r.signal, brief
    if r.status != 0 or errs:
        return "well-formed program: exit status %s, %d errors (first: %s)" % (
            r.status, len(errs), errs[0]["msg"] if errs else "-"), brief
    if r.p is None:
        return "no code file", brief
    try:
        got = {a: b for (seg, a), b in r.bytemap().items() if seg == 1}
        other = [k for k in r.bytemap() if k[0] != 1]
    except Exception as e:       # pfile.FormatError
        return "code file unreadable: %s" % e, brief
    if other:
        return "bytes outside the CODE segment", brief
    if got != prog.expect:
        for idx, call, base, out in prog.slots:
            size = len(out)
            g = bytes(got[a] for a in sorted(got) if base <= a < base + 256 and a < _next_base(prog, base))
            if g != bytes(out):
                return ("item %d call %d at %d: marker bytes %s, model expects %s"
                        % (idx, call, base, g.hex(), bytes(out).hex()),
                        dict(item=idx, call=call, got=g.hex(), exp=bytes(out).hex(), **brief))
        extra = sorted(set(got) - set(prog.expect))[:8]
        return "code file differs outside the slots (extra addresses %s)" % extra, brief
    # warnings: exactly the predicted 'no CASE hit' ones (number 100), any number of passes
    bad = [w for w in warns if w["num"] != 100]
    if bad:
        return "unexpected warning: %s" % bad[0]["msg"], brief
    if prog.warn_count == 0:
        if warns:
            return "warning 'no CASE hit' although every SWITCH selects a branch (line %d)" % warns[0]["line"], brief
    else:
        if not warns:
            return "SWITCH without matching CASE and without ELSECASE did not warn", brief
        if len(warns) % prog.warn_count:
            return "%d 'no CASE hit' warnings, model expects a multiple of %d" % (len(warns), prog.warn_count), brief
    return None


def _next_base(prog, base):
    nb = [b for _, _, b, _ in prog.slots if b > base]
    return min(nb) if nb else prog.top


# ------------------------------------------------------------------ enumerated family

_ENUMS = {}


def enum(single):
    if single not in _ENUMS:
        _ENUMS[single] = cm.Enum(single)
    return _ENUMS[single]


def exec_enum(case):
    en = enum(case["single"])
    idxs = list(range(case["lo"], min(case["hi"], en.total), case.get("step", 1)))
    items = [en.item(i) for i in idxs]
    cpu = cm.CPU_NAMES[case.get("cpu", 0)]
    prog = cm.Program(cpu, items, twopass=bool(case.get("twopass")), style=case.get("style", 0), slot=32)
    nt = sum(1 for s in prog.item_stats if s["nested_nonfirst"] or s["overlap"])
    classes = ["enum", "enum-single" if case["single"] else "enum-full", "cpu:" + cpu,
               "enumnt=%d" % nt, "enumn=%d" % len(items)]
    r = run_program(prog)
    if r.timed_out:
        return engine.inconclusive("timeout", classes)
    bad = compare(prog, r)
    key = "enum:%d:%d:%d:%d" % (case["single"], case["lo"], case["hi"], case.get("step", 1))
    if bad:
        why, detail = bad
        # isolate the first failing skeleton and re-run it alone for a minimal reproduction
        k = detail.get("item") if isinstance(detail, dict) else None
        if k is not None:
            solo = cm.Program(cpu, [items[k]], slot=32)
            r2 = run_program(solo)
            bad2 = compare(solo, r2)
            detail = dict(detail, index=idxs[k], decoded=repr(en.decode(idxs[k])), solo_source=solo.files["t.asm"],
                          solo_fails=bool(bad2), solo_why=bad2[0] if bad2 else None)
        return engine.bad("enumerated skeleton: " + why, key, classes, **detail)
    return engine.ok(key, classes)


def fixed_cases(tier):
    out = []
    e1 = enum(True)
    for n, lo in enumerate(range(0, e1.total, ENUM_BATCH)):
        out.append(dict(kind="enum", single=1, lo=lo, hi=lo + ENUM_BATCH, cpu=n % len(cm.CPU_NAMES) if n % 3 == 0 else 0,
                        style=n, twopass=n % 2))
    return out


def execute(case):
    if case["kind"] == "enum":
        return exec_enum(case)
    raise ValueError("unknown case kind")


@composite
def strategy_(d, tier):
    return dict(kind="enum", single=1, lo=0, hi=10)


def strategy(tier):
    return strategy_(tier)
