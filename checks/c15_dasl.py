"""C15  Disassembling and re-assembling reproduces the original bytes.

Generated domain: programs for the three DASL targets (6800/6802, 87C00, 4004) built from the
assembler-accepted form tables in vf/c15gen.py: code runs that end in a terminal instruction,
branches/calls to labels inside the image, data islands and address tables that no control flow
reaches, 1-4 regions (also: image ending at the top of the address space; TLCS-870 image with code in
page FFh and the CALLV vector table at FFC0h), 1-4 entry points (direct, named, or indirect through an
address table), optional -symbol names.  The program is assembled by asl, converted with p2bin (one
file per region, optionally longer than the loaded length) or p2hex -F Intel, and handed to dasl.

Oracle (round trip, independent of the generator's encoding knowledge): dasl's stdout, prefixed with
`cpu X`, must be accepted by asl (status 0); the code file it produces must hold, on every area dasl
lists as disassembled (code and data), exactly the bytes of the original image; the listed areas must
be pairwise disjoint and lie inside the loaded image; every instruction that is statically reachable
from the entry points (fall through of non-terminal instructions, direct branch/call targets) must
lie in a listed code area.
"""
import re
from vf import engine, run, asl, build, pfile
from vf.gen import composite
from vf import c15gen as G

ID = "C15"
RULE = ("case = one program for one of 6800/6802/87C00/4004: 1-6 code runs (2-14 instructions from the form table, "
        "operands at boundary and random values, last instruction terminal) interleaved with data islands (random "
        "bytes) and address tables, 1-5 regions (relative gaps; 'down': a region below the first one, so that files are not in address order; 'top': the image ends at the last address of the "
        "address space; 87C00 'rom': code in page FFh reached by CALLP plus the CALLV table at FFC0h), branch/call "
        "targets chosen among the program's instruction labels within the encodable range, 1-4 entry points (plain "
        "/ named / indirect via an address table), 0-3 -symbol names on reachable instructions, loaded with "
        "-binfile (one per region, optionally with explicit length and trailing junk in the file, optionally one "
        "region cut into two files at an arbitrary byte, files in either order) or -hexfile (p2hex -F Intel, "
        "record length 2...254 (the documented range of p2hex -l), LF or CR LF), optional -h.  Fixed cases (always run): every form of the three "
        "tables alone; an exhaustive enumeration of every form x every register / condition / addressing-mode "
        "combination and of every numeric operand at its boundary values (about 4 900 statements in 63 batch programs); "
        "programs of 20 regions; the minimised inputs of all 21 defects found.  non-trivial = at least one "
        "reachable branch or call into the image and at least one data island or address table; distinct by (cpu, "
        "set of reachable forms); forms_<cpu> in the evidence = forms seen reachable / forms in the table")
ASSUMPTIONS = [
    "dasl's interface is taken from das.c (the manual does not describe it): -cpu <name>; -binfile "
    "<file>[@start[,length[,granularity]]] (several allowed, numbers as decimal, $hex, 0xhex or hexH); -hexfile "
    "<Intel hex file>; -entryaddress <address>[,<name>] and -entryaddress (<address of a stored address>,<length>,"
    "MSB|LSB)[,<name>]; -symbol <address>=<name>; -h for lower-case hex digits; the source text is written to "
    "stdout, each traced area introduced by its own ORG, followed by the comment block '; disassembled area:' / "
    "'; <start>...<end> (code|data)'",
    "the byte order of an indirect entry address is always given for the 87C00 (LSB); das.c defaults to MSB for "
    "every CPU ('TODO: depend on CPU') and the usage text states no default",
    "the CPU statement is not part of dasl's output; the harness prefixes `cpu <name>` with asl's name for the "
    "target (asl has no CPU called 6802; the MC6802 executes the 6800 instruction set, so `cpu 6800` is used for it)",
    "'disassembling ... starting at its entry points' is read as control-flow tracing: an instruction reached by "
    "falling through a non-terminal instruction or by a direct branch/call from a traced instruction belongs to "
    "the disassembled code (real-processor semantics of the instruction decide what falls through; CALLV n is "
    "followed through the vector table only when the image holds it); the converse (data never listed as code) "
    "is not asserted, only counted (class 'overreach')",
    "the re-assembled bytes are read from asl's code file with the independent reader vf/pfile.py instead of a "
    "second p2bin run, so that an address dasl lists but the re-assembly does not define is seen as missing and "
    "not as a fill byte",
    "branch and call targets are labels of instructions inside the image and data is only referenced as data (as "
    "the property's quantifier says); operands that point outside the image are numbers, never labels; -symbol "
    "names are only given to reachable instructions (a name for an address dasl does not list would be used "
    "without being defined - the property does not say who has to define it)",
    "only byte patterns the assembler produced are disassembled as code; undocumented opcodes are not fed; a "
    "TLCS-870 image either does not touch FFC0h-FFDFh or holds a complete CALLV table there",
    "4004: an ISZ/JCN target lies in the page of the following instruction (PC+2); a JCN at page offset $FE/$FF "
    "to a forward label is "
    "written with the numeric address (asl rejected the label form in pass 1 before the fix found by this check)",
    "TLCS-870: the direct address 0 cannot be written as (0) (asl: addressing mode not allowed), (hl+0) is (hl); "
    "both are not generated.  Instructions asl flags as 'unpredictable' are still valid input (warning, status 0)",
    "TLCS-870 CALL to a label in page FFh is not generated: asl shortens it to CALLP only in pass 2, and a "
    "range-limited branch across it that is legal in the final layout only is rejected in pass 1 (general "
    "multi-pass behaviour, not this property); the fixed-length CALLP form reaches those targets",
    "dasl output larger than 2 MB for an image of at most a few hundred bytes is judged an endless loop (a correct "
    "run prints under 100 bytes per image byte); wall-clock timeouts are only ever inconclusive",
]

CPUS = ["6800", "6802", "87C00", "4004"]
OUT_LIMIT = 2 << 20


def budget(tier):
    return dict(examples=4000 if tier == "quick" else 50000, shards=16)


# ---------------------------------------------------------------- generation

TERMINALS = {
    "6800": ["rts", "rti", "jmp_idx", "jmp_ext", "bra"],
    "87C00": ["ret", "reti", "retn", "jp", "jr", "jp_rr", "jp_abs", "jp_mem"],
    "4004": ["bbl", "jin", "jun"],
}
FILLER = {"6800": "nop", "87C00": "nop", "4004": "nop"}


def gen_ins(d, form, salt=0):
    return [form.name, [G.draw_slot(d, k, salt + 3 * i) for i, k in enumerate(form.slots)]]


def gen_run(d, table, lo, hi, salt):
    """salt: rotates the form lists per position (Hypothesis likes to repeat draws)"""
    forms = G.FORMS[table]
    flowing = [f for f in forms if f.flow in "nbc"]
    branching = [f for f in forms if f.flow in "bc"]
    ins = []
    for i in range(d.int(lo, hi)):
        pool = branching if d.int(0, 5) == 0 else flowing
        f = pool[(d.int(0, len(pool) - 1) + 37 * (salt + i)) % len(pool)]
        ins.append(gen_ins(d, f, salt + i))
    ins.append(gen_ins(d, G.BYNAME[table][d.choice(TERMINALS[table])], salt))
    return dict(k="code", ins=ins)


@composite
def strategy_(d, tier):
    cpu = d.choice(["87C00", "6800", "4004", "87C00", "6800", "4004", "87C00", "6802"])
    table = G.TABLE[cpu]
    nruns = d.choice([2, 1, 3, 2, 3, 4, 6])
    big = tier != "quick"
    layout = d.choice(["flat", "flat", "flat", "gaps", "gaps", "top", "rom", "down"])
    if layout == "rom" and cpu != "87C00":
        layout = "gaps"
    if layout == "top" and cpu == "87C00":
        layout = "flat"
    segs = []
    for r in range(nruns):
        segs.append(gen_run(d, table, 1, 22 if big else 13, 29 * r + d.int(0, 1000)))
        # what follows a terminal instruction: nothing, a data island, an address table, a new region
        w = d.int(0, 9)
        if w < 4:
            segs.append(dict(k="data", b=d.bytes(d.int(1, 10)).hex()))
        elif w < 6:
            segs.append(dict(k="vec", t=[d.int(0, 255) for _ in range(d.int(1, 3))]))
        if r + 1 < nruns and layout == "gaps" and d.bool():
            segs.append(dict(k="org", gap=d.int(1, 40)))
    space = G.ADDR_SPACE[cpu]
    base = d.choice([0x100, 0, 0x10, -1, -1, -2, 0x100])
    if base == -1:
        base = d.int(0, space - 0x800)
    elif base == -2:
        base = d.choice([0xf0, 0xfe, 0x1f0, 0x7f80, 0x8000, 0xe000, 0xf700]) % (space - 0x800)
    if layout == "down" and nruns > 1:
        # the second region lies *below* the first: the code file and the hex file are not in address order
        base = min(max(base, 0x800), space - 0x800)
        cut = next(i for i, sg in enumerate(segs) if i > 0 and sg["k"] == "code")
        segs.insert(cut, dict(k="org", at=base - 0x800 + d.choice([0, 1, 0x7f0 - 0x400])))
    if layout == "rom":
        # code in page FFh (CALLP targets; CALL to it is encoded as CALLP) and the CALLV vector table
        segs.append(dict(k="org", at=0xff00 + d.choice([0, 0, 1, 0x40])))
        segs.append(gen_run(d, table, 1, 8, 301))
        if d.bool():
            segs.append(gen_run(d, table, 1, 6, 407))
        segs.append(dict(k="org", at=0xffc0))
        segs.append(dict(k="vec", t=[d.int(0, 255) for _ in range(16)]))
    entries = []
    for _ in range(d.choice([1, 1, 2, 2, 3, 4])):
        entries.append(dict(s=d.int(0, 255), name=d.bool(), vec=d.int(0, 15) if d.int(0, 2) == 0 else None))
    syms = [d.int(0, 255) for _ in range(d.choice([0, 0, 0, 1, 2, 3]))]
    return dict(cpu=cpu, base=base, top=layout == "top", segs=segs, entries=entries, syms=syms,
                load=d.choice(["bin", "hex", "bin"]), pad=d.choice([0, 0, 1, 7]),
                split=d.int(0, 400) if d.int(0, 3) == 0 else None, rev=d.bool(), crlf=d.bool(), cpulast=d.int(0, 3) == 0,
                hexlen=d.choice([16, 16, 8, 32, 2, 100, 200, 254]), lower=d.bool(), fmt=[d.int(0, 3) for _ in range(4)])


def strategy(tier):
    return strategy_(tier)


# ---------------------------------------------------------------- program model

class Stmt:
    __slots__ = ("k", "kind", "form", "vals", "seg", "region", "line", "addr", "len", "target", "tsel")

    def __init__(self, k, kind, seg, region):
        self.k, self.kind, self.seg, self.region = k, kind, seg, region
        self.form = self.vals = self.line = self.addr = self.len = self.target = self.tsel = None


def flatten(case):
    """statements in source order; kinds: ins, data, vec; a new region starts at every org seg.
    returns statements and the list of region descriptors (gap=.. relative or at=.. absolute)"""
    table = G.TABLE[case["cpu"]]
    st, region = [], 0
    regs = [dict(at=case["base"])]
    pending = None
    for si, seg in enumerate(case["segs"]):
        if seg["k"] == "org":
            if st:
                pending = dict(at=seg["at"]) if "at" in seg else dict(gap=seg["gap"])
            continue
        if pending is not None:
            region += 1
            regs.append(pending)
            pending = None
        if seg["k"] == "code":
            if not seg["ins"]:
                raise ValueError("empty code run")
            for name, vals in seg["ins"]:
                s = Stmt(len(st), "ins", si, region)
                s.form, s.vals = G.BYNAME[table][name], list(vals)
                if len(vals) != len(s.form.slots):
                    raise ValueError("operand count of " + name)
                if "T" in s.form.slots:
                    s.tsel = vals[s.form.slots.index("T")]
                st.append(s)
            if st[-1].form.flow not in "jt":
                raise ValueError("code run does not end in a terminal instruction")
        elif seg["k"] == "data":
            s = Stmt(len(st), "data", si, region)
            s.vals = bytes.fromhex(seg["b"])
            st.append(s)
        elif seg["k"] == "vec":
            s = Stmt(len(st), "vec", si, region)
            s.vals = list(seg["t"])
            st.append(s)
        else:
            raise ValueError(seg["k"])
    if not any(s.kind == "ins" for s in st):
        raise ValueError("no code")
    return st, regs


def data_text(cpu, s, st, code_idx):
    moto = G.MOTO[cpu]
    if s.kind == "data":
        vals = ",".join(G.num(cpu, b, i + s.k) for i, b in enumerate(s.vals))
        if cpu == "4004":
            return "data " + vals
        return ("byt " if moto and s.k % 2 else "fcb " if moto else "db ") + vals
    labs = ["S%d" % code_idx[t % len(code_idx)] for t in s.vals]
    if cpu == "4004":
        return "data " + ",".join("(%s>>8)&15,%s&255" % (l, l) for l in labs)
    return ("adr " if moto and s.k % 2 else "fdb " if moto else "dw ") + ",".join(labs)


def source(case, st, regs, targets, base):
    """targets: {stmt index: label text} for T slots.  Sets s.line.  Line 1 = cpu, 2 = org."""
    cpu = case["cpu"]
    moto = G.MOTO[cpu]
    code_idx = [s.k for s in st if s.kind == "ins"]
    lines = ["\tcpu\t" + G.ASL_CPU[cpu], "\torg\t" + G.num(cpu, base, 1)]
    region = 0
    ends = {}
    for s in st:
        if s.region != region:
            lines.append("E%d:" % region)
            ends[region] = len(lines)
            rg = regs[s.region]
            if "at" in rg:
                lines.append("\torg\t" + G.num(cpu, rg["at"], 1))
            else:
                lines.append("\torg\t%s+%d" % ("*" if moto else "$", rg["gap"]))
            region = s.region
        if s.kind == "ins":
            txt = G.render(cpu, s.form, s.vals, s.k, len(st), targets.get(s.k))
        else:
            txt = data_text(cpu, s, st, code_idx)
        lines.append("S%d:\t%s" % (s.k, txt))
        s.line = len(lines)
    lines.append("E%d:" % region)
    ends[region] = len(lines)
    return "\n".join(lines) + "\n", ends


LST_RE = re.compile(r"^\s*(\d+)/\s*([0-9A-Fa-f]+) :", re.M)


def listing_addrs(lst):
    return {int(m.group(1)): int(m.group(2), 16) for m in LST_RE.finditer(lst)}


def static_addrs_4004(st, regs, base):
    """every 4004 statement has a fixed length: addresses without running the assembler"""
    a, region, out = base, 0, {}
    for s in st:
        if s.region != region:
            rg = regs[s.region]
            a = rg["at"] if "at" in rg else a + rg["gap"]
            region = s.region
        out[s.k] = a
        if s.kind == "ins":
            a += G.LEN_4004.get(s.form.name, 1)
        elif s.kind == "data":
            a += len(s.vals)
        else:
            a += 2 * len(s.vals)
    return out, a


def in_range(s, a, t):
    """may instruction s at address a (per form range class) reach target address t?"""
    rng = s.form.rng
    if rng == "abs":
        return True
    if rng == "rel8":
        return -128 <= t - (a + 2) <= 127
    if rng == "rel5":
        return -16 <= t - (a + 2) <= 15
    if rng == "page2":           # 4004 JCN: the page of the following instruction (assembler, processor, dasl agree)
        return (t >> 8) == ((a + 2) >> 8)
    if rng == "page12":          # 4004 ISZ: like JCN, the page of the following instruction (PC+2) - assembler (since
        return (t >> 8) == ((a + 2) >> 8)   # the fix found by C14), processor and dasl agree
    if rng == "ffpage":          # TLCS-870 CALLP: FF00h + n
        return 0xff00 <= t <= 0xffff
    raise ValueError(rng)


def abs_candidates(s, code, regs):
    """targets of an absolute jump/call: any instruction; TLCS-870 CALL: not into page FFh (asl turns that into
    the shorter CALLP only in pass 2 - the fixed-length CALLP form covers those targets)"""
    if s.form.name == "call":
        return [c.k for c in code if regs[c.region].get("at", 0) < 0xff00]
    return [c.k for c in code]


def resolve(case, st, addr, regs):
    """choose the branch targets: {k: operand text or None}, sets s.target (stmt index)"""
    cpu = case["cpu"]
    code = [s for s in st if s.kind == "ins"]
    tg = {}
    for s in code:
        if s.tsel is None:
            continue
        if s.form.rng == "abs":
            cand = abs_candidates(s, code, regs)
        else:
            cand = [c.k for c in code if in_range(s, addr[s.k], addr[c.k])]
        if not cand:
            s.target = None
            tg[s.k] = None
            continue
        s.target = cand[s.tsel % len(cand)]
        if s.form.rng != "abs" and s.tsel % 5 < 2:
            # the far ends of the reach (displacement -128 / +127, -16 / +15 when an instruction starts there)
            far = sorted(cand, key=lambda k: addr[k])
            s.target = far[0] if s.tsel % 5 == 0 else far[-1]
        tg[s.k] = "S%d" % s.target
        if cpu == "4004" and s.form.name == "jcn" and (addr[s.k] & 0xff) >= 0xfe and s.target > s.k:
            # asl rejected JCN at page offset $FE/$FF to a *forward label* in pass 1 (the unknown symbol is taken
            # as the current PC, which lies in the previous page); the number is accepted
            tg[s.k] = G.num(cpu, addr[s.target], s.k)
        if s.form.name == "callp" and s.target > s.k:
            # likewise asl rejected CALLP to a forward label in pass 1 ('range overflow')
            tg[s.k] = G.num(cpu, addr[s.target], s.k)
    return tg


class GenError(Exception):
    pass


def assemble_program(case, d):
    """returns st, {region: (first, end)}, AsmResult, text; raises GenError when asl rejects the generated program"""
    cpu = case["cpu"]
    space = G.ADDR_SPACE[cpu]
    st, regs = flatten(case)
    top = case.get("top") and not any("at" in r for r in regs[1:])
    base = case["base"] if not top else space // 2     # top: learn the span where labels are as large as finally

    def learn(targets, base):
        text, ends = source(case, st, regs, targets, base)
        r = asl.assemble({"t.asm": text}, args=("-L",), want=("t.lst",), workdir=d)
        return text, ends, r

    if cpu == "4004":
        addr, end = static_addrs_4004(st, regs, base)
        if top:
            base = space - (end - base)
            addr, end = static_addrs_4004(st, regs, base)
    else:
        # targets of absolute jumps/calls do not depend on the layout (any instruction label): they are final
        # already here, so that every statement has its final length (TLCS-870: CALL into page FFh is the 2-byte
        # CALLP); only range-limited branches get a placeholder of the same length
        code = [s for s in st if s.kind == "ins"]
        ph = {}
        for s in st:
            if s.tsel is not None:
                ca = abs_candidates(s, code, regs) if s.form.rng == "abs" else []
                ph[s.k] = "S%d" % ca[s.tsel % len(ca)] if ca else G.placeholder(cpu, s.form)
        text, ends, r = learn(ph, base)
        if r.timed_out:
            return st, None, r, text
        if r.status != 0 or r.files["t.lst"] is None:
            raise GenError("placeholder pass rejected: " + r.err[:400] + "\n" + text)
        la = listing_addrs(r.files["t.lst"].decode("latin-1"))
        addr = {s.k: la[s.line] for s in st}
        if top:
            nb = space - (la[ends[max(ends)]] - base)
            addr = {k: a - base + nb for k, a in addr.items()}
            base = nb
    for it in range(8):
        tg = resolve(case, st, addr, regs)
        # a branch without any label in range (4004 page rule at the end of a page, CALLP without code in page FFh)
        changed = False
        for s in st:
            if s.tsel is not None and tg.get(s.k) is None:
                s.form = G.BYNAME[G.TABLE[cpu]]["jun" if cpu == "4004" else FILLER[G.TABLE[cpu]]]
                s.vals = [s.tsel] if cpu == "4004" else []
                s.tsel = s.tsel if cpu == "4004" else None
                changed = True
        if changed:
            if cpu == "4004":
                continue
            tg = {k: v for k, v in tg.items() if v is not None}
        text, ends, r = learn(tg, base)
        if r.timed_out:
            return st, None, r, text
        if r.status != 0 or r.files["t.lst"] is None or r.p is None:
            raise GenError("generated program rejected: " + r.err[:600] + "\n" + text)
        la = listing_addrs(r.files["t.lst"].decode("latin-1"))
        new = {s.k: la[s.line] for s in st}
        if top and la[ends[max(ends)]] != space:
            nb = base + space - la[ends[max(ends)]]
            addr = {k: a - base + nb for k, a in new.items()}
            base = nb
            continue
        if new == addr:
            for s in st:
                s.addr = new[s.k]
            for i, s in enumerate(st):
                nxt = st[i + 1] if i + 1 < len(st) and st[i + 1].region == s.region else None
                s.len = (nxt.addr if nxt else la[ends[s.region]]) - s.addr
            bounds = {}
            for rg, ln in ends.items():
                bounds[rg] = (min(s.addr for s in st if s.region == rg), la[ln])
            return st, bounds, r, text
        addr = new
    return st, None, None, text


def entry_list(case, st):
    code = [s for s in st if s.kind == "ins"]
    slots = []                       # (vec stmt, slot index)
    for s in st:
        if s.kind == "vec" and len(s.vals) < 16:
            for j in range(len(s.vals)):
                slots.append((s, j))
    entries = []
    for e in case["entries"]:
        if e.get("vec") is not None and slots:
            v, j = slots[e["vec"] % len(slots)]
            tk = code[v.vals[j] % len(code)].k
            entries.append(dict(stmt=tk, name=e["name"], vec=(v, j)))
        else:
            entries.append(dict(stmt=code[e["s"] % len(code)].k, name=e["name"], vec=None))
    return entries


def reachable(case, st, entries):
    """statement indices reached from the entry points by real-processor control flow"""
    code = [s for s in st if s.kind == "ins"]
    vecat = {}
    for s in st:
        if s.kind == "vec":
            for j, t in enumerate(s.vals):
                vecat[s.addr + 2 * j] = code[t % len(code)].k
    seen, todo = set(), [e["stmt"] for e in entries]
    while todo:
        k = todo.pop()
        if k in seen:
            continue
        seen.add(k)
        s = st[k]
        if s.form.flow in "nbc":
            todo.append(k + 1)          # a run always ends in j/t, so k+1 is an instruction of the same run
        if s.form.flow in "bcj" and s.target is not None:
            todo.append(s.target)
        if s.form.name == "callv":
            t = vecat.get(0xffc0 + 2 * (s.vals[0] & 15))
            if t is not None:
                todo.append(t)
    return seen


# ---------------------------------------------------------------- running dasl

def cnum(v, style):
    if style == 0:
        return "$%x" % v
    if style == 1:
        return "0x%X" % v
    if style == 2:
        return str(v)
    return "%xh" % v


AREA_RE = re.compile(r"^\s*; ([0-9A-Fa-f]+)\.\.\.([0-9A-Fa-f]+) \((code|data)\)\s*$")


def parse_areas(out):
    lines = out.split("\n")
    try:
        i = next(i for i, l in enumerate(lines) if l.strip() == "; disassembled area:")
    except StopIteration:
        return None
    areas = []
    for l in lines[i + 1:]:
        m = AREA_RE.match(l)
        if m:
            areas.append((int(m.group(1), 16), int(m.group(2), 16), m.group(3)))
    return areas


def execute(case):
    cpu = case["cpu"]
    table = G.TABLE[cpu]
    classes = ["cpu:" + cpu, "load:" + case["load"]]
    with run.Work("c15") as d:
        st, bounds, r0, text = assemble_program(case, d)
        if r0 is not None and r0.timed_out:
            return engine.inconclusive("asl timeout", classes)
        if bounds is None:
            return engine.discarded("layout-unstable", classes)
        entries = entry_list(case, st)
        reach = reachable(case, st, entries)
        # the original image, from the code file
        try:
            orig = {a: b for (sg, a), b in r0.bytemap().items() if sg == 1}
        except pfile.FormatError as e:
            return engine.bad("asl wrote a malformed code file: %s" % e, None, classes, source=text)
        regions = [(a, b - 1) for a, b in (bounds[rg] for rg in sorted(bounds)) if b > a]
        inside = set()
        for a, b in regions:
            if inside & set(range(a, b + 1)):
                raise GenError("regions overlap")
            inside.update(range(a, b + 1))
        if set(orig) != inside:
            raise GenError("image of the code file differs from the listing's address ranges")
        if cpu == "87C00" and any(0xffc0 <= x < 0xffe0 for x in inside):
            if not any(s.kind == "vec" and s.addr == 0xffc0 and len(s.vals) == 16 for s in st):
                return engine.discarded("image-touches-callv-table", classes)
        if max(inside) >= G.ADDR_SPACE[cpu]:
            raise GenError("image leaves the address space")
        # conversion
        fmt = case["fmt"]
        argv = [] if case.get("cpulast") else ["-cpu", cpu]
        if case["lower"]:
            argv.append("-h")
            classes.append("opt:-h")
        if case["load"] == "hex":
            rc = run.run(["p2hex", "-F", "Intel", "-l", str(case.get("hexlen", 16)), "t.p", "t.hex"], d)
            if rc.timed_out:
                return engine.inconclusive("p2hex timeout", classes)
            if rc.status != 0:
                raise GenError("p2hex failed: " + rc.err[:300])
            if case.get("crlf"):
                # Intel hex files conventionally end their records with CR LF
                hx = run.read(d, "t.hex")
                run.write_files(d, {"t.hex": hx.replace(b"\r\n", b"\n").replace(b"\n", b"\r\n")})
                classes.append("hex-crlf")
            argv += ["-hexfile", "t.hex"]
            classes.append("hexlen:%d" % case.get("hexlen", 16))
        else:
            pad = case.get("pad", 0)
            pieces = list(regions)
            sp = case.get("split")
            if sp is not None and pieces[0][1] > pieces[0][0]:
                # one region delivered as two files (e.g. two ROM chips), cut at an arbitrary byte
                a, b = pieces[0]
                cut = a + 1 + sp % (b - a)
                pieces[0:1] = [(a, cut - 1), (cut, b)]
                classes.append("split-file")
            bargs = []
            for i, (a, b) in enumerate(pieces):
                rc = run.run(["p2bin", "t.p", "r%d.bin" % i, "-r", "$%x-$%x" % (a, b)], d)
                if rc.timed_out:
                    return engine.inconclusive("p2bin timeout", classes)
                img = run.read(d, "r%d.bin" % i)
                if rc.status != 0 or img is None or img != bytes(orig[x] for x in range(a, b + 1)):
                    raise GenError("p2bin image differs from the code file: " + rc.err[:300])
                arg = "r%d.bin@%s" % (i, cnum(a, fmt[i % 4]))
                if pad:
                    # the file is longer than the image: only <length> bytes are to be loaded
                    run.write_files(d, {"r%d.bin" % i: img + bytes((0xa5 ^ j) & 0xff for j in range(pad))})
                    arg += ",%s" % cnum(len(img), fmt[(i + 1) % 4])
                    if pad > 1:
                        arg += ",1"
                bargs.append(["-binfile", arg])
            if case.get("rev"):
                bargs.reverse()
            for ba in bargs:
                argv += ba
            if pad:
                classes.append("binfile-length")
        ncls = set()
        for i, e in enumerate(entries):
            if e["vec"]:
                v, j = e["vec"]
                # byte order: always explicit for the little-endian TLCS-870 (das.c: default MSB, "TODO: depend on
                # CPU"); for the big-endian targets the default is exercised too
                order = ",LSB" if cpu == "87C00" else (",MSB", "", ",msb")[(fmt[i % 4] + i) % 3]
                arg = "(%s,2%s)" % (cnum(v.addr + 2 * j, fmt[(i + 1) % 4]), order)
                ncls.add("entry:vector")
            else:
                arg = cnum(st[e["stmt"]].addr, fmt[(i + 2) % 4])
                ncls.add("entry:direct")
            if e["name"]:
                arg += ",ent%d" % i
                ncls.add("entry:named")
            argv += ["-entryaddress", arg]
        rl = sorted(reach)
        nsym = 0
        for i, sel in enumerate(case.get("syms", [])):
            k = rl[sel % len(rl)]
            argv += ["-symbol", "%s=usr%d" % (cnum(st[k].addr, fmt[(i + 3) % 4]), i)]
            nsym += 1
        if nsym:
            ncls.add("opt:-symbol")
        if case.get("cpulast"):
            argv += ["-CPU", cpu]           # option names are matched without regard to case
            ncls.add("opt:cpu-last")
        classes += sorted(ncls)
        classes.append("entries:%d" % len(entries))
        classes.append("regions:%d" % len(regions))
        if max(inside) == G.ADDR_SPACE[cpu] - 1:
            classes.append("ends-at-top")
        sh = ["/bin/sh", "-c", 'exec "$0" "$@" > dasl.out', build.exe("plain", "dasl")] + argv
        rd = run.run(sh, d, fsize=OUT_LIMIT, timeout=20.0, cpu=10)
        out = (run.read(d, "dasl.out") or b"").decode("latin-1")
        detail = dict(source=text, dasl=["dasl"] + argv, dasl_status=rd.status, dasl_signal=rd.signal,
                      dasl_stderr=rd.err[-400:], dasl_out=out[:3000])
        nimg = len(orig)
        if len(out) >= OUT_LIMIT - 4096:
            return engine.bad("dasl does not terminate: more than %d bytes of output for a %d-byte image"
                              % (OUT_LIMIT - 4096, nimg), None, classes, **detail)
        if rd.timed_out:
            return engine.inconclusive("dasl timeout", classes)
        if rd.signal:
            return engine.bad("dasl killed by signal %d" % rd.signal, None, classes, **detail)

        # non-triviality
        rforms = sorted({st[k].form.name for k in reach})
        nbranch = sum(1 for k in reach if st[k].form.flow in "bcj" and st[k].target is not None)
        ndata = sum(1 for s in st if s.kind != "ins")
        if nbranch:
            classes.append("has-branch")
        if ndata:
            classes.append("has-data")
        for s in st:
            if s.kind == "ins" and s.k in reach:
                classes.append("F:%s:%s" % (table, s.form.name))
        key = None
        if nbranch and ndata:
            key = table + "|" + ",".join(rforms)

        if rd.status != 0:
            return engine.bad("dasl exit status %s for a valid request" % rd.status, key, classes, **detail)
        areas = parse_areas(out)
        if areas is None:
            return engine.bad("dasl output lacks the 'disassembled area' summary", key, classes, **detail)
        detail["areas"] = ["%x-%x %s" % a for a in areas]
        # areas: inside the image, pairwise disjoint
        seen = {}
        for a, b, kind in areas:
            if b < a:
                return engine.bad("area %x...%x is empty or reversed" % (a, b), key, classes, **detail)
            if b - a > 0x20000:
                return engine.bad("area %x...%x is larger than any image" % (a, b), key, classes, **detail)
            for x in range(a, b + 1):
                if x not in inside:
                    return engine.bad("listed %s area %x...%x leaves the loaded image (address %x)"
                                      % (kind, a, b, x), key, classes, **detail)
                if x in seen:
                    return engine.bad("listed areas overlap at %x (%s %x...%x and %s)" % (x, kind, a, b, seen[x]),
                                      key, classes, **detail)
                seen[x] = "%s %x...%x" % (kind, a, b)
        # coverage: every reachable instruction is listed as code
        codeaddr = {x for x, what in seen.items() if what.startswith("code")}
        for k in sorted(reach):
            s = st[k]
            miss = [x for x in range(s.addr, s.addr + s.len) if x not in codeaddr]
            if miss:
                return engine.bad("reachable instruction S%d `%s` at %x (%d bytes) is not in a listed code area"
                                  % (k, G.render(cpu, s.form, s.vals, s.k, len(st), "S%s" % s.target), s.addr, s.len),
                                  key, classes, **detail)
        expect_code = set()
        for k in reach:
            expect_code.update(range(st[k].addr, st[k].addr + st[k].len))
        if codeaddr - expect_code:
            classes.append("overreach")
        # re-assembly
        src2 = "\tcpu\t%s\n" % G.ASL_CPU[cpu] + out
        r2 = asl.assemble({"t.asm": src2}, workdir=d, out="u.p")
        if r2.timed_out:
            return engine.inconclusive("asl timeout on dasl output", classes)
        if r2.status != 0 or r2.p is None:
            diag = asl.diagnostics(r2.err)
            srcl = src2.split("\n")
            where = ["%d: %s  <- %s" % (x["line"], srcl[x["line"] - 1].strip() if 0 < x["line"] <= len(srcl) else "?",
                                        x["msg"]) for x in diag if x["kind"] == "error"][:4]
            return engine.bad("asl rejects dasl's output (status %s): %s" % (r2.status, "; ".join(where) or r2.err[:300]),
                              key, classes, asl_stderr=r2.err[-600:], **detail)
        try:
            again = {a: b for (sg, a), b in pfile.bytemap(pfile.parse(r2.p, strict=True))[0].items() if sg == 1}
        except pfile.FormatError as e:
            return engine.bad("re-assembly wrote a malformed code file: %s" % e, key, classes, **detail)
        for a, b, kind in areas:
            for x in range(a, b + 1):
                if again.get(x) != orig[x]:
                    got = "nothing" if x not in again else "%02x" % again[x]
                    ctx = "".join("%02x" % orig[y] for y in range(max(a, x - 4), min(b, x + 4) + 1))
                    return engine.bad("re-assembled byte at %x is %s, original %02x (%s area %x...%x, original "
                                      "bytes around: %s)" % (x, got, orig[x], kind, a, b, ctx), key, classes, **detail)
    return engine.ok(key, classes)


def show(case):
    try:
        st, regs = flatten(case)
        n = sum(1 for s in st if s.kind == "ins")
    except Exception:
        n = -1
    return dict(cpu=case["cpu"], base=case["base"], load=case["load"], instructions=n,
                segs=[s["k"] for s in case["segs"]], entries=case["entries"],
                first=[i[0] for s in case["segs"] if s["k"] == "code" for i in s["ins"]][:12])


# ---------------------------------------------------------------- fixed cases

def mk(cpu, ins, base=0x100, data="00", entries=None, **kw):
    segs = [dict(k="code", ins=ins)]
    if data:
        segs.append(dict(k="data", b=data))
    c = dict(cpu=cpu, base=base, top=False, segs=segs, entries=entries or [dict(s=0, name=False, vec=None)], syms=[],
             load="bin", pad=0, hexlen=16, lower=False, fmt=[0, 1, 2, 3])
    c.update(kw)
    return c


CANON = {"n4": 5, "bit": 3, "u8": 0x34, "a8": 0x34, "xs": 0x12, "n8": 0x9a, "n16": 0xa5c3, "x16": 0x1234, "T": 0}


def canon_vals(form, variant):
    out = []
    for i, k in enumerate(form.slots):
        if k.startswith("ch:"):
            out.append((variant + i) % len(G.CHOICES[k[3:]]))
        elif k.startswith("mem:"):
            out.append((variant << 8) | 0x85)
        else:
            out.append(CANON[k])
    return out


def slot_domain(kind):
    """exhaustive index domain of a choice / memory-mode slot, None for numeric slots"""
    if kind.startswith("ch:"):
        return list(range(len(G.CHOICES[kind[3:]])))
    if kind.startswith("mem:"):
        out = []
        for mi, m in enumerate(kind[4:]):
            if m in "CA":
                out += [(mi << 8) | 0x05, (1 << 16) | (mi << 8) | 0x05]        # both spellings (hl+c)/(c+hl)
            elif m == "X":
                out += [(mi << 8) | d for d in (0x01, 0x7f, 0x80, 0xff)]        # (hl+1) (hl+127) (hl-128) (hl-1)
            else:
                out.append(mi << 8)
        return out
    return None


def enumerate_statements(cpu):
    """every form x every combination of its register / condition / addressing-mode choices (numeric operands
    canonical), then every numeric operand of every form at each boundary value; yields [name, vals]"""
    import itertools
    cnt = 0
    for f in G.FORMS[cpu]:
        doms = [slot_domain(k) for k in f.slots]
        combos = itertools.product(*[d if d is not None else [None] for d in doms])
        for combo in combos:
            cnt += 1
            vals = []
            for k, c in zip(f.slots, combo):
                if c is not None:
                    vals.append(c)
                elif k == "T":
                    vals.append(cnt)
                else:
                    vals.append(CANON[k])
            yield [f.name, vals]
        for i, k in enumerate(f.slots):
            bl = {"n8": G.B8 + [-128, -1], "u8": G.B8, "a8": G.B8[1:], "xs": G.B8, "n16": G.B16 + [G.LABREF + 1],
                  "x16": [x for x in G.B16 if x >= 0x100] + [G.LABREF + 1], "n4": [0, 9, 10, 15],
                  "bit": [0, 7]}.get(k)
            if not bl:
                continue
            for b in bl:
                cnt += 1
                vals = canon_vals(f, cnt)
                vals[i] = b
                if "T" in f.slots:
                    vals[f.slots.index("T")] = cnt
                yield [f.name, vals]


def batches(cpu, per_run=28, runs_per_case=4):
    term = {"6800": ["rts", []], "87C00": ["ret", []], "4004": ["bbl", [0]]}[cpu]
    runs, cur = [], []
    for name, vals in enumerate_statements(cpu):
        cur.append([name, vals])
        if G.BYNAME[cpu][name].flow in "jt":
            runs.append(cur)
            cur = []
        elif len(cur) >= per_run:
            runs.append(cur + [term])
            cur = []
    if cur:
        runs.append(cur + [term])
    for i in range(0, len(runs), runs_per_case):
        grp = runs[i:i + runs_per_case]
        segs, entries, ncode = [], [], 0
        for j, r in enumerate(grp):
            segs.append(dict(k="code", ins=r))
            entries.append(dict(s=ncode, name=bool(j & 1), vec=None))
            ncode += len(r)
            segs.append(dict(k="data", b="%02x" % (0x38 + j)) if j % 2 == 0 else dict(k="vec", t=[j, ncode - 1]))
        yield dict(cpu=cpu, base=(0x100, 0x2f0, 0x10, 0x8000)[(i // runs_per_case) % 4] % (G.ADDR_SPACE[cpu] - 0x800),
                   top=False, segs=segs, entries=entries, syms=[], load=("bin", "hex")[(i // runs_per_case) % 2],
                   pad=0, split=None, rev=False, hexlen=(16, 254, 200, 100, 32)[(i // runs_per_case) % 5],
                   crlf=bool((i // runs_per_case) % 4 == 1), lower=bool((i // runs_per_case) % 3 == 0),
                   fmt=[0, 1, 2, 3])


def fixed_cases(tier):
    out = []
    # every form once, alone in front of a terminal instruction (localises a wrong table entry)
    for cpu in ("6800", "87C00", "4004"):
        term = {"6800": ["rts", []], "87C00": ["ret", []], "4004": ["bbl", [0]]}[cpu]
        for f in G.FORMS[cpu]:
            ins = [[f.name, canon_vals(f, 0)]]
            if f.flow not in "jt":
                ins.append(term)
            out.append(mk(cpu, ins))
    # exhaustive: every form x register / condition / addressing-mode combination, every numeric operand at its
    # boundary values, in batches
    for cpu in ("6800", "87C00", "4004"):
        out.extend(batches(cpu))
    # more than 16 loaded chunks (the chunk list grows in steps of 16)
    for cpu in ("6800", "87C00", "4004"):
        term = {"6800": ["rts", []], "87C00": ["ret", []], "4004": ["bbl", [0]]}[cpu]
        jump = {"6800": "jmp_ext", "87C00": "jp", "4004": "jun"}[cpu]
        segs = []
        for i in range(20):
            segs += [dict(k="code", ins=[[FILLER[cpu], []], [jump, [2 * ((i + 7) % 20)]]]), dict(k="org", gap=1 + i % 3)]
        for load in ("bin", "hex"):
            out.append(dict(mk(cpu, [term]), segs=segs[:-1], load=load, crlf=True))
    # every relative form at both ends of its reach: one-byte instructions all around, so that an instruction starts at
    # every address and the far ends of the reach (-128 / +127, -16 / +15) are targets
    for cpu in ("6800", "87C00", "4004"):
        term = {"6800": ["rts", []], "87C00": ["ret", []], "4004": ["bbl", [0]]}[cpu]
        for f in G.FORMS[cpu]:
            if f.rng not in ("rel8", "rel5"):
                continue
            pad = [[FILLER[cpu], []]] * (135 if f.rng == "rel8" else 20)
            for cond in range(3):
                lo = canon_vals(f, cond)
                hi = canon_vals(f, cond)
                lo[f.slots.index("T")] = 0
                hi[f.slots.index("T")] = 1
                out.append(mk(cpu, pad + [[f.name, lo], [f.name, hi]] + pad + [term]))
    T = True
    # regression inputs of the defects found with this check (minimised)
    out.append(mk("6800", [["bcc", [0]], ["rts", []]], entries=[dict(s=0, name=T, vec=None)]))     # named entry
    out.append(mk("87C00", [["di", []], ["ret", []]]))                                             # org $100
    out.append(mk("87C00", [["jrs", [0, 0]], ["ret", []]]))                                        # lab_0100h
    out.append(dict(mk("6800", [["nop", []], ["rts", []]], data=""),
                    segs=[dict(k="code", ins=[["nop", []], ["rts", []]]), dict(k="vec", t=[0])],
                    entries=[dict(s=0, name=False, vec=0)]))                                       # indirect note
    for m in ("clv", "sev", "txs", "des"):
        out.append(mk("6800", [[m, []], ["rts", []]]))
    out.append(mk("6800", [["lds_ext", [0x1234]], ["sts_ext", [0x1234]], ["rts", []]]))
    out.append(mk("6800", [["and_exs", [0, 0]], ["rts", []]]))                                     # anda >$00
    out.append(mk("87C00", [["alu_r_i", [0, 0, 0xff]], ["alu_r_i", [1, 2, 0x12]], ["ret", []]]))   # addc w,0ffh
    out.append(mk("87C00", [["jrs", [0, 0]], ["ret", []]], data="38"))                             # ret falls through
    out.append(mk("87C00", [["jrs", [0, 0]], ["ret", []]], data="9f"))
    out.append(mk("4004", [["jcn", [0, 0]], ["jin", [0]]], data="01"))                             # jin falls through
    out.append(dict(mk("87C00", [["nop", []], ["ret", []]], base=0xe000, data=""),
                    segs=[dict(k="code", ins=[["nop", []], ["ret", []]]), dict(k="vec", t=[1, 0])],
                    entries=[dict(s=0, name=False, vec=1), dict(s=0, name=T, vec=0)]))             # dw e000h
    out.append(dict(mk("4004", [["nop", []], ["bbl", [0]]], data=""),
                    segs=[dict(k="code", ins=[["nop", []], ["bbl", [0]]]), dict(k="vec", t=[0, 1])],
                    entries=[dict(s=0, name=T, vec=0), dict(s=0, name=False, vec=1)]))             # db/dw, 0101
    for r in range(4):
        out.append(mk("87C00", [["ld_sp_rr", [r]], ["ld_rr_sp", [r]], ["call_rr", [r]], ["jp_rr", [r]]]))
    out.append(mk("87C00", [["ld_hl_abs", [1]], ["ld_hl_mem", [0x185]], ["ret", []]]))             # ld (hl),(src)
    out.append(mk("4004", [["jcn", [0, 1]], ["nop", []], ["bbl", [0]]], base=0xfe))                # jcn z,lab_0100
    out.append(mk("4004", [["jcn", [0, 1]], ["nop", []], ["bbl", [0]]], base=0xff))
    for b in (0xfe, 0xff, 0x1fe, 0x2ff):                                                          # isz at a page end
        out.append(mk("4004", [["isz", [1, 1]], ["nop", []], ["bbl", [0]]], base=b))
        out.append(mk("4004", [["isz", [3, 2]], ["nop", []], ["nop", []], ["bbl", [0]]], base=b))
    out.append(dict(mk("87C00", [["callp", [0]], ["ret", []]], data=""),
                    segs=[dict(k="code", ins=[["callp", [0]], ["ret", []]]), dict(k="org", at=0xff00),
                          dict(k="code", ins=[["nop", []], ["ret", []]])]))                        # callp sub_FF00
    out.append(mk("6800", [["bcc", [0]], ["rts", []]], data="", top=T))                            # % 0xffff
    out.append(mk("4004", [["nop", []], ["bbl", [0]]], data="", top=T))                            # % 0xfff
    out.append(mk("87C00", [["nop", []], ["ret", []]], data="", base=0xfffe))
    out.append(mk("6800", [["neg_ext", [G.LABREF]], ["rts", []]], split=1))                        # 70 01 | 00
    out.append(mk("6800", [["jsr_ext", [0]], ["rts", []]], split=1, rev=T))
    # cpx usr0 with usr0 = $100 a few bytes ahead of code that starts below $100 (two consistent layouts)
    out.append(mk("6800", [["bmi", [0]], ["jsr_ext", [0]], ["bge", [0]], ["aba", []], ["bvs", [0]], ["cpx_ext", [0x100]],
                           ["stx_exs", [0]], ["bvc", [0]], ["bcs", [0]], ["ble", [0]], ["rts", []]],
                  base=0xf0, data="", syms=[7]))
    out.append(mk("6800", [["lda_ext", [0, G.LABREF + 2]], ["sta_ext", [1, G.LABREF + 2]], ["rts", []]], base=0xfb,
                  data="", entries=[dict(s=0, name=False, vec=None), dict(s=2, name=T, vec=None)]))
    # a batch of long programs delivered with long hex records (more than 144 data bytes per record)
    return out


def coverage_extra(tier, classes):
    out = {}
    for table, forms in G.FORMS.items():
        cov = sum(1 for f in forms if classes.get("F:%s:%s" % (table, f.name)))
        out["forms_%s" % table] = "%d/%d" % (cov, len(forms))
        miss = [f.name for f in forms if not classes.get("F:%s:%s" % (table, f.name))]
        if miss:
            out["forms_missing_%s" % table] = miss[:20]
    out["class_histogram"] = {k: v for k, v in sorted(classes.items()) if not k.startswith("F:")}
    return out


KNOWN = {}
