"""C08  Expressions and constants evaluate to their documented mathematical value.

Generated domain: programs for the 68000 (Motorola syntax), 8086/8051 (Intel syntax) or PowerPC (C syntax)
target holding 12-40 typed expression trees, each observed in its own ORG slot through DC.Q/DQ (integers),
DC.D/DQ (floats) or DC.B/DB (strings) plus an EXPRTYPE(..) type byte, under a generated notation state
(INTSYNTAX / RELAXED / RADIX).  Oracle: vf/exprmodel.py,
a reference evaluator written from doc/assembler-usage.md.  Expressions the model calls undefined
must produce an error on their line; they are then removed and the rest is assembled again to read
the values from the code file.
"""
import math, struct
from vf import engine, asl, exprmodel as M
from vf.gen import composite

ID = "C08"
RULE = ("case = one program (68000, 8086, 8051 or PowerPC: the three documented default syntaxes): EQU/SET symbol "
        "definitions, then 12-40 items, each an expression tree (depth <= 6 over all operators of the manual's "
        "table, all documented functions, boundary and random operands, character constants, symbols) or a flat "
        "chain of 3-8 operands grouped by the rank table alone, rendered with minimal or redundant parentheses in a "
        "notation state "
        "(RADIX 2..36, INTSYNTAX +/- notations, RELAXED ON/OFF) that may change between items; an expression is "
        "non-trivial if it has >= 2 operators of different rank, or a boundary operand, or a literal in a "
        "notation other than plain decimal, or is an expected error; expressions are distinct by (operator/"
        "function multiset, operand classes, notations); the engine's distinct count is over programs (set of "
        "their non-trivial expression keys), per-expression counts are in coverage.expressions")
ASSUMPTIONS = [
    "unary minus is the '-' row of the rank table (rank 10) applied to 0-x; it is only written at the start of a "
    "(sub)expression and parenthesised whenever rank 10 and 'binds tightest' would give different trees",
    "mixed integer/float operands of + - * / ^ and comparisons: the integer is converted to float (manual states "
    "this for function arguments only)",
    "integer arithmetic wraps modulo 2^64; '/' truncates toward zero; -2^63/-1 wraps to -2^63",
    "'#' is only judged for operands >= 0 (sign of the remainder is not stated); '>>' only for left operands >= 0; "
    "shift counts 0..63; integer '^' only with exponent >= 0; 0.0^negative excluded",
    "'><' is judged on the whole 64-bit domain for counts 1..32 (manual: higher bits unchanged); other counts must "
    "be errors",
    "string '+' integer is excluded (result type not documented); strings and floats are never mixed",
    "ordering of strings = lexicographic by character code, judged on 7-bit strings only; single-quoted strings "
    "of 1..4 characters are integers where an integer is expected ('AB' == $4142), also as function arguments",
    "INT yields an integer (manual text; its table says floating point), judged for |x| <= 2.0E9 and not for "
    "negative non-integral arguments; TOUPPER/TOLOWER judged on 0..127; ACOT only for arguments >= 0 (two "
    "conventions differ below 0); ATANH <= -1 and ACOTH < -1 are not judged",
    "tolerances: + - * / SQRT exact IEEE double; SIN COS TAN ASIN ACOS ATAN EXP SINH COSH TANH LN LOG and float '^' "
    "4 ulp against Python's math module; COT ACOT ALOG ALD LD COTH ASINH ACOSH ATANH ACOTH (not in C89 libm, "
    "composed by any implementation) relative 1e-12 or absolute 1e-15; arguments within 0.001 of a singularity "
    "and results beyond 1e+-300 are not judged; errors of inexact subexpressions are propagated (first order) "
    "and comparisons/INT/SGN within the bound are not judged",
    "integer literals: only spellings that exactly one notation of the manual's table matches in the current "
    "state (marker letters eaten by RADIX, 0oct/0hex leading zero, 0x/0b against Intel suffixes); notations "
    "removed by INTSYNTAX while RELAXED is ON are treated as neither usable nor absent; literals <= 2^63-1; "
    "float literals always carry a decimal point",
    "string literals never contain NUL, '{', '}'; quotes are written \\h / \\i; a top-level string result is "
    "written with double quotes only (DC.B treats single-quoted multi character constants as integers)",
    "where E is a digit (RADIX >= 15, 0hex notation) the text <digits>E+<digit> / <digits>E-<digit> (integer constant "
    "plus term, or float constant) is not generated without a blank before the sign",
    "the manual's sentence that 08 is an error in C mode is not asserted (asl reads it in the default radix)",
]

# target -> (documented default integer syntax, int op, float op, byte op, byte order)
CPUS = {"68000": ("moto", "dc.q", "dc.d", "dc.b", "big"), "8086": ("intel", "dq", "dq", "db", "little"),
        "8051": ("intel", "dq", "dq", "db", "little"), "ppc403": ("c", "dq", "dq", "db", "little")}
SLOT = 512
BASEADDR = 0x2000
TWO63 = 1 << 63

BOUND_INTS = [0, 1, 2, 3, 7, 8, 15, 16, 31, 32, 33, 63, 64, 65, 127, 128, 255, 256, 32767, 32768, 65535, 65536,
              (1 << 31) - 1, 1 << 31, (1 << 31) + 1, (1 << 32) - 1, 1 << 32, 1 << 62, (1 << 63) - 1]
FLOAT_TEXTS = ["0.0", "1.0", "2.0", "0.5", "1.5", "3.0", "10.0", "0.1", "0.25", "100.0", "2.5", "7.0", "0.75",
               "4.0", "1000.0", "0.001", "3.14159", "2.718281828", "1.0E10", "1.0e5", "6.02E23", "12345.678"]
FLOAT_TEXTS_NEGEXP = ["1.0E-3", "2.5e-2", "1.0e-10", "6.626E-34", "1E-3", "25e-1"]
FLOAT_TEXTS_NODOT = ["1E5", "2e3", "15E1", "1e10", "3E0"]
CMPS = ["=", "==", "<>", "!=", "<", ">", "<=", ">="]
CHARS = [c for c in range(33, 127) if c in M.RAW_OK]


def budget(tier):
    return dict(examples=6400 if tier == "quick" else 64000, shards=16)


# ------------------------------------------------------------------------------------ generator

class G:
    """typed expression generator; every choice goes through d (Hypothesis)"""

    def __init__(self, d, syms, tier):
        self.d = d
        self.syms = syms          # {"i": [names], "f": [...], "s": [...]}
        self.env = {}
        self.tier = tier
        self.errp = 0.04          # probability of deliberately undefined constructs

    def val(self, node):
        try:
            return M.evaluate(node, self.env)
        except (M.Undefined, M.Excluded):
            return None

    # ---- leaves
    def ilit(self, v):
        d = self.d
        return ["i", v, d.int(0, 15), d.int(0, 7)]

    def int_mag(self):
        d = self.d
        k = d.weighted([(4, "small"), (4, "bound"), (3, "pow2"), (2, "r32"), (2, "r63")])
        if k == "small":
            return d.int(0, 300)
        if k == "bound":
            return d.choice(BOUND_INTS)
        if k == "pow2":
            return max(0, min(M.MAXI, (1 << d.int(0, 63)) + d.int(-1, 1)))
        if k == "r32":
            return d.int(0, (1 << 32) - 1)
        return d.int(0, M.MAXI)

    def int_leaf(self, allow_str=False):
        d = self.d
        k = d.weighted([(10, "lit"), (3, "neg"), (2, "sym"), (2 if allow_str else 0, "chr"), (1, "min"), (1, "tf")])
        if k == "lit":
            return self.ilit(self.int_mag())
        if k == "neg":
            return ["p", ["n", self.ilit(self.int_mag())]] if d.bool(0.3) else ["n", self.ilit(self.int_mag())]
        if k == "sym" and self.syms["i"]:
            return ["y", self.case_of(d.choice(self.syms["i"]))]
        if k == "chr":
            return self.char_const()
        if k == "min":
            return ["min"]
        if k == "tf":
            return ["y", self.case_of(d.choice(["TRUE", "FALSE"]))]
        return self.ilit(self.int_mag())

    def case_of(self, name):
        k = self.d.int(0, 2)
        return (name, name.lower(), name.upper())[k]

    def char_const(self):
        d = self.d
        n = d.weighted([(6, 1), (2, 2), (1, 3), (1, 4)])
        return ["s", [self.char_item() for _ in range(n)], d.weighted([(3, 1), (1, 0)])]

    def char_item(self, seven=False):
        d = self.d
        k = d.weighted([(12, "raw"), (2, "named"), (2, "num"), (0 if seven else 1, "high")])
        if k == "raw":
            return [d.choice(CHARS), 0]
        if k == "named":
            return [d.choice(sorted(M.NAMED)), d.choice([1, 5])]
        if k == "num":
            return [d.int(1, 126), d.int(2, 4)]
        return [d.int(128, 255), d.int(2, 4)]

    def float_leaf(self):
        d = self.d
        k = d.weighted([(8, "tab"), (4, "rnd"), (2, "sym"), (1, "pi"), (3, "neg"), (1, "negexp"), (1, "nodot")])
        if k == "nodot":
            return ["f", d.choice(FLOAT_TEXTS_NODOT)]
        if k == "tab":
            return ["f", d.choice(FLOAT_TEXTS)]
        if k == "rnd":
            t = "%d.%0*d" % (d.int(0, 999), d.int(1, 4), d.int(0, 9999) % 10 ** 4)
            if d.bool(0.2):
                t += d.choice(["e", "E"]) + str(d.int(0, 20))
            return ["f", t]
        if k == "sym" and self.syms["f"]:
            return ["y", self.case_of(d.choice(self.syms["f"]))]
        if k == "pi":
            return ["y", self.case_of("CONSTPI")]
        if k == "neg":
            return ["n", ["f", d.choice(FLOAT_TEXTS[1:])]]
        if k == "negexp":
            return ["f", d.choice(FLOAT_TEXTS_NEGEXP)]
        return ["f", d.choice(FLOAT_TEXTS)]

    def str_leaf(self, seven=False, maxlen=12):
        d = self.d
        if self.syms["s"] and d.bool(0.2):
            return ["y", self.case_of(d.choice(self.syms["s"]))]
        n = d.weighted([(1, 0), (3, 1), (3, 2), (3, 3), (2, 4), (2, 5), (3, d.int(6, max(6, maxlen)))])
        n = min(n, maxlen)
        return ["s", [self.char_item(seven) for _ in range(n)], d.weighted([(4, 0), (1, 1)])]

    # ---- integer expressions
    def maybe_paren(self, node):
        return ["p", node] if self.d.bool(0.06) else node

    def int_expr(self, depth, allow_str=False, top=False):
        d = self.d
        if depth <= 0 or (not top and d.bool(0.15)):
            return self.int_leaf(allow_str)
        return self.maybe_paren(self.int_expr_(depth, allow_str))

    def int_expr_(self, depth, allow_str):
        d = self.d
        k = d.weighted([(6, "arith"), (3, "div"), (2, "pow"), (5, "bit"), (3, "shift"), (2, "mirror"), (3, "logic"),
                        (4, "cmp"), (3, "unary"), (4, "func"), (1, "paren"), (1, "bad"), (1, "val")])
        sp = d.weighted([(5, 0), (2, 1), (1, 2), (1, 3)])
        if k == "arith":
            op = d.choice(["+", "-", "*"])
            a_s = op != "+"
            return ["b", op, self.int_expr(depth - 1, a_s), self.int_expr(depth - 1, a_s), sp]
        if k == "div":
            op = d.choice(["/", "#"])
            l, r = self.int_expr(depth - 1, True), self.int_expr(depth - 1, True)
            if op == "#":
                l, r = self.nonneg(l), self.nonneg(r)
            rv = self.val(r)
            if rv is not None and M.as_int(rv) == 0 and not d.bool(0.3):
                r = self.ilit(d.int(1, 1000))
            return ["b", op, l, r, sp]
        if k == "pow":
            l = self.int_expr(depth - 1, True)
            r = self.int_expr(depth - 2) if d.bool(0.3) else self.ilit(d.int(0, 70))
            r = self.in_range(r, 0, 200, lambda: self.ilit(d.int(0, 70)))
            return ["b", "^", l, r, sp]
        if k == "bit":
            return ["b", d.choice(["&", "|", "!"]), self.int_expr(depth - 1, True), self.int_expr(depth - 1, True), sp]
        if k == "shift":
            op = d.choice(["<<", ">>"])
            l = self.int_expr(depth - 1, True)
            if op == ">>":
                l = self.nonneg(l)
            r = self.int_expr(depth - 2) if d.bool(0.3) else self.ilit(d.int(0, 63))
            r = self.in_range(r, 0, 63, lambda: self.ilit(d.int(0, 63)), mask=63)
            return ["b", op, l, r, sp]
        if k == "mirror":
            l = self.int_expr(depth - 1, True)
            if d.bool(self.errp):
                r = self.ilit(d.choice([0, 33, 64, 100]))
            else:
                r = self.ilit(d.weighted([(3, d.int(1, 32)), (1, 32), (1, 1), (1, 31), (1, 8), (1, 16)]))
            return ["b", "><", l, r, sp]
        if k == "logic":
            return ["b", d.choice(["&&", "||", "!!"]), self.int_expr(depth - 1, True), self.int_expr(depth - 1, True), sp]
        if k == "cmp":
            op = d.choice(CMPS)
            t = d.weighted([(5, "i"), (2, "f"), (2, "m"), (2, "s"), (1, "si")])
            if t == "i":
                l = self.int_expr(depth - 1)
                r = self.near(l) if d.bool(0.35) else self.int_expr(depth - 1)
                return ["b", op, l, r, sp]
            if t == "f":
                l = self.float_expr(depth - 1)
                r = l if d.bool(0.15) else self.float_expr(depth - 1)
                return ["b", op, l, r, sp]
            if t == "m":
                a, b = self.int_expr(depth - 1), self.float_expr(depth - 1)
                return ["b", op, a, b, sp] if d.bool() else ["b", op, b, a, sp]
            if t == "s":
                l = self.str_expr(depth - 1, seven=True)
                r = l if d.bool(0.2) else self.str_expr(depth - 1, seven=True)
                return ["b", op, l, r, sp]
            a, b = self.char_const(), self.int_expr(depth - 1)
            return ["b", op, a, b, sp] if d.bool() else ["b", op, b, a, sp]
        if k == "unary":
            u = d.choice(["~", "~~", "-"])
            x = self.int_expr(depth - 1, u != "-")
            return ["n", x] if u == "-" else ["u", u, x]
        if k == "func":
            return self.int_func(depth)
        if k == "paren":
            return ["p", self.int_expr(depth - 1, allow_str)]
        if k == "val":
            return ["v", self.int_expr(min(depth - 1, 2)), d.int(0, 2)]
        # deliberately ill-typed: float or unconvertible string operand of an integer-only operator
        op = d.choice(["&", "|", "!", "<<", ">>", "#", "&&", "||", "!!", "><"])
        badop = self.float_leaf() if d.bool(0.6) else ["s", [self.char_item() for _ in range(d.choice([0, 5, 6]))], 0]
        good = self.ilit(d.int(1, 20))
        return ["b", op, badop, good, sp] if d.bool() else ["b", op, good, badop, sp]

    def near(self, node):
        """an operand equal or adjacent to the value of node (comparisons at the boundary)"""
        v = self.val(node)
        if v is None or v[0] != "i":
            return self.int_leaf()
        x = M.wrap(v[1] + self.d.int(-1, 1))
        if x == M.MINI:
            return ["min"]
        return self.ilit(x) if x >= 0 else ["p", ["n", self.ilit(-x)]]

    def nonneg(self, node):
        v = self.val(node)
        if v is None:
            return node
        try:
            x = M.as_int(v)
        except M.Undefined:
            return node
        if x >= 0:
            return node
        if self.d.bool(0.5):
            return ["b", "&", node, self.ilit(M.MAXI), 0]
        return self.ilit(self.int_mag())

    def in_range(self, node, lo, hi, fallback, mask=None):
        v = self.val(node)
        if v is not None and v[0] == "i" and lo <= v[1] <= hi:
            return node
        if mask is not None and v is not None and v[0] == "i" and self.d.bool(0.5):
            return ["b", "&", node, self.ilit(mask), 0]
        return fallback()

    def int_func(self, depth):
        d = self.d
        cs = d.int(0, 5)
        f = d.weighted([(3, "BITCNT"), (4, "FIRSTBIT"), (3, "LASTBIT"), (3, "BITPOS"), (2, "TOUPPER"), (2, "TOLOWER"),
                        (3, "STRLEN"), (4, "CHARFROMSTR"), (4, "STRSTR"), (3, "EXPRTYPE"), (3, "INT"), (3, "SGN"),
                        (3, "ABS"), (1, "badarg")])
        if f in ("BITCNT", "FIRSTBIT", "LASTBIT"):
            a = self.int_expr(depth - 1, True) if d.bool(0.6) else self.ilit(self.bitval())
            return ["c", f, [a], cs]
        if f == "BITPOS":
            if d.bool(0.85):
                a = self.ilit(1 << d.int(0, 62)) if d.bool(0.9) else ["min"]
            else:
                a = self.int_expr(depth - 1)
            return ["c", f, [a], cs]
        if f in ("TOUPPER", "TOLOWER"):
            if d.bool(0.5):
                a = ["s", [[d.choice(CHARS), 0]], 1]
            else:
                a = self.ilit(d.int(0, 127))
            return ["c", f, [a], cs]
        if f == "STRLEN":
            return ["c", f, [self.str_expr(depth - 1)], cs]
        if f == "CHARFROMSTR":
            s = self.str_expr(depth - 1, seven=True)
            sv = self.val(s)
            n = len(sv[1]) if sv else 3
            pos = d.weighted([(6, d.int(0, max(0, n - 1))), (1, n), (1, n + 1), (1, -1), (1, -2)])
            p = self.ilit(pos) if pos >= 0 else ["n", self.ilit(-pos)]
            return ["c", f, [s, p], cs]
        if f == "STRSTR":
            s = self.str_expr(depth - 1)
            sv = self.val(s)
            if sv and len(sv[1]) >= 1 and d.bool(0.7):
                a = d.int(0, len(sv[1]) - 1)
                b = d.int(a + 1, min(len(sv[1]), a + 3))
                pat = ["s", [[c, d.weighted([(5, 0), (1, 2)])] for c in sv[1][a:b]], d.weighted([(3, 0), (1, 1)])]
            else:
                pat = self.str_leaf(maxlen=3)
            return ["c", f, [s, pat], cs]
        if f == "EXPRTYPE":
            t = d.choice("ifs")
            a = self.int_expr(depth - 1) if t == "i" else self.float_expr(depth - 1) if t == "f" else self.str_expr(depth - 1)
            return ["c", f, [a], cs]
        if f == "INT":
            a = self.float_expr(depth - 1)
            v = self.val(a)
            if v is None or v[0] != "f" or abs(v[1]) > 2e9 or (v[1] < 0 and v[1] != math.floor(v[1])):
                a = ["f", d.choice(["0.0", "0.5", "0.999", "1.0", "1.5", "2.999999", "1234.5", "1.0E9", "2147483647.0",
                                    "99.99", "7.0"])]
                if d.bool(0.15):
                    a = ["n", ["f", d.choice(["1.0", "2.0", "100.0", "0.0"])]]
            return ["c", f, [a], cs]
        if f == "SGN":
            a = self.int_expr(depth - 1) if d.bool() else self.float_expr(depth - 1)
            return ["c", f, [a], cs]
        if f == "ABS":
            return ["c", f, [self.int_expr(depth - 1)], cs]
        # ill-typed argument
        g = d.choice(["BITCNT", "FIRSTBIT", "STRLEN", "UPSTRING", "TOUPPER", "SQRT", "CHARFROMSTR"])
        if g in ("BITCNT", "FIRSTBIT", "TOUPPER"):
            return ["c", g, [self.float_leaf()], cs]
        if g in ("STRLEN", "UPSTRING"):
            return ["c", "STRLEN", [self.ilit(d.int(0, 99)) if d.bool() else self.float_leaf()], cs]
        if g == "SQRT":
            return ["c", "INT", [["c", "SQRT", [["s", [self.char_item() for _ in range(d.choice([0, 5]))], 0]], cs]], cs]
        return ["c", g, [self.ilit(5), self.ilit(1)], cs]

    def bitval(self):
        d = self.d
        k = d.weighted([(3, "one"), (3, "two"), (2, "low"), (1, "zero"), (2, "rnd")])
        if k == "one":
            return 1 << d.int(0, 62)
        if k == "two":
            return (1 << d.int(0, 62)) | (1 << d.int(0, 62))
        if k == "low":
            return d.int(0, 15)
        if k == "zero":
            return 0
        return d.int(0, M.MAXI)

    # ---- flat chains: operands joined by random operators, grouped by the rank table alone
    def chain_tree(self, operands, ops):
        """precedence climbing over the manual's rank table: lower rank binds tighter, equal ranks group
        left to right; the renderer then needs no parentheses at all"""
        pos = [0]

        def parse(maxrank):
            left = operands[pos[0]]
            while pos[0] < len(ops) and M.RANK[ops[pos[0]]] <= maxrank:
                op = ops[pos[0]]
                pos[0] += 1
                right = parse(M.RANK[op] - 1)
                left = ["b", op, left, right, self.sp]
            return left
        return parse(99)

    def int_chain(self):
        d = self.d
        n = d.int(3, 8)
        self.sp = d.weighted([(6, 0), (2, 1)])
        mild = ["+", "-", "*", "&", "|", "!", "&&", "||", "!!"] + CMPS
        ops = [d.choice(ALLBIN) if d.bool(0.6) else d.choice(mild) for _ in range(n - 1)]
        operands = []
        for i in range(n):
            prev = ops[i - 1] if i else None
            nxt = ops[i] if i < n - 1 else None
            if prev in ("<<", ">>"):
                x = self.ilit(d.int(0, 63) if d.bool(0.5) else d.int(0, 8))
            elif prev == "><":
                x = self.ilit(d.int(1, 32))
            elif prev == "^":
                x = self.ilit(d.int(0, 5))
            elif prev in ("/", "#"):
                x = self.ilit(d.int(1, 50))
            else:
                x = self.ilit(d.int(0, 40) if d.bool(0.7) else self.int_mag())
                if d.bool(0.12):
                    x = ["u", "~~", x]
                elif d.bool(0.1) and prev in [None] + mild and nxt in [None] + mild:
                    x = ["u", "~", x]
                elif d.bool(0.08) and prev != "+" and nxt != "+":
                    x = ["s", [[d.choice(CHARS), 0]], 1]
            operands.append(x)
        return self.chain_tree(operands, ops)

    def float_chain(self):
        d = self.d
        n = d.int(3, 6)
        self.sp = d.weighted([(6, 0), (2, 1)])
        ops = [d.choice(["+", "-", "*", "/", "^"]) for _ in range(n - 1)]
        operands = []
        for i in range(n):
            prev = ops[i - 1] if i else None
            if prev == "^":
                operands.append(["f", d.choice(["2.0", "0.5", "3.0", "1.0", "0.0"])])
            else:
                operands.append(["f", d.choice(FLOAT_TEXTS[1:16])] if d.bool(0.8) else self.ilit(d.int(1, 9)))
        t = self.chain_tree(operands, ops)
        if d.bool(0.3):
            t = ["b", d.choice(CMPS), t, ["f", d.choice(FLOAT_TEXTS[:12])], self.sp]
        return t

    # ---- float expressions
    def float_expr(self, depth, top=False):
        d = self.d
        if depth <= 0 or (not top and d.bool(0.18)):
            return self.float_leaf()
        return self.maybe_paren(self.float_expr_(depth))

    def float_expr_(self, depth):
        d = self.d
        k = d.weighted([(6, "arith"), (2, "div"), (3, "pow"), (5, "func"), (2, "mixed"), (1, "neg"), (1, "paren"),
                        (1, "abs"), (1, "val")])
        sp = d.weighted([(5, 0), (2, 1), (1, 2), (1, 3)])
        if k == "arith":
            return ["b", d.choice(["+", "-", "*"]), self.float_expr(depth - 1), self.float_expr(depth - 1), sp]
        if k == "div":
            l, r = self.float_expr(depth - 1), self.float_expr(depth - 1)
            rv = self.val(r)
            if rv is not None and rv[0] == "f" and rv[1] == 0.0 and not d.bool(0.3):
                r = ["f", d.choice(FLOAT_TEXTS[1:])]
            return ["b", "/", l, r, sp]
        if k == "pow":
            m = d.weighted([(3, "negint"), (2, "pos"), (1, "zero"), (1, "negfrac")])
            if m == "negint":
                l = ["p", ["n", ["f", d.choice(["2.0", "1.5", "3.0", "0.5", "10.0", "1.0", "2.5"])]]]
                e = d.int(0, 12)
                r = ["f", "%d.0" % e] if d.bool(0.7) else ["p", ["n", ["f", "%d.0" % e]]]
                if d.bool(0.2):
                    r = self.ilit(e)
            elif m == "pos":
                l = self.float_expr(depth - 1)
                r = ["f", d.choice(["2.0", "0.5", "3.0", "1.5", "0.0", "10.0", "0.25"])] if d.bool(0.7) else self.float_expr(depth - 2)
            elif m == "zero":
                l, r = ["f", "0.0"], ["f", d.choice(["0.0", "1.0", "2.5"])]
            else:
                l = ["p", ["n", ["f", d.choice(["2.0", "8.0", "1.5"])]]]
                r = ["f", d.choice(["0.5", "1.5", "2.25"])]
            return ["b", "^", l, r, sp]
        if k == "func":
            return self.float_func(depth)
        if k == "mixed":
            op = d.choice(["+", "-", "*", "/"])
            a, b = self.int_expr(depth - 1), self.float_expr(depth - 1)
            if op == "/":
                a = self.ilit(d.int(1, 1000))
            return ["b", op, a, b, sp] if d.bool() or op == "/" else ["b", op, b, a, sp]
        if k == "neg":
            return ["n", self.float_expr(depth - 1)]
        if k == "paren":
            return ["p", self.float_expr(depth - 1)]
        if k == "abs":
            return ["c", "ABS", [self.float_expr(depth - 1)], d.int(0, 5)]
        return ["v", self.float_expr(min(depth - 1, 2)), d.int(0, 2)]

    SAFE_ARGS = {
        "SQRT": ["0.0", "1.0", "2.0", "4.0", "81.0", "0.25", "1.0E10", "2.25"],
        "TAN": ["0.0", "0.5", "1.0", "0.785398", "3.0"], "COT": ["0.5", "1.0", "2.0", "0.785398", "1.570796"],
        "ASIN": ["0.0", "0.5", "1.0", "0.25", "0.999"], "ACOS": ["0.0", "0.5", "1.0", "0.25", "0.999"],
        "ACOT": ["0.0", "0.5", "1.0", "2.0", "100.0"], "EXP": ["0.0", "1.0", "2.5", "10.0", "100.0", "700.0"],
        "ALOG": ["0.0", "1.0", "2.0", "3.5", "10.0", "0.5"], "ALD": ["0.0", "1.0", "10.0", "0.5", "52.0", "3.0"],
        "COTH": ["0.5", "1.0", "2.0", "10.0"], "LN": ["1.0", "2.0", "10.0", "0.5", "2.718281828", "1.0E10"],
        "LOG": ["1.0", "10.0", "100.0", "0.5", "2.0", "1000.0"], "LD": ["1.0", "2.0", "8.0", "0.5", "10.0", "1024.0"],
        "ACOSH": ["1.0", "1.5", "2.0", "10.0", "100.0"], "ATANH": ["0.0", "0.5", "0.25", "0.9", "0.1"],
        "ACOTH": ["1.5", "2.0", "10.0", "100.0"],
    }
    ERR_ARGS = {"SQRT": ["-1.0", "-0.5"], "ASIN": ["1.5", "-2.0"], "ACOS": ["1.001", "-1.5"], "LN": ["0.0", "-1.0"],
                "LOG": ["0.0", "-10.0"], "LD": ["0.0", "-2.0"], "ACOSH": ["0.5", "0.0", "-1.0"], "ATANH": ["1.0", "2.0"],
                "ACOTH": ["1.0", "0.5", "0.0"], "COT": ["0.0"], "COTH": ["0.0"]}

    def float_func(self, depth):
        d = self.d
        f = d.choice(sorted(M.FLOATFUNCS))
        cs = d.int(0, 5)
        if f in self.ERR_ARGS and d.bool(self.errp * 2):
            t = d.choice(self.ERR_ARGS[f])
            return ["c", f, [["n", ["f", t[1:]]] if t[0] == "-" else ["f", t]], cs]
        a = self.float_expr(depth - 1) if d.bool(0.55) else (self.int_expr(depth - 1) if d.bool(0.4) else self.float_leaf())
        node = ["c", f, [a], cs]
        if self.val(node) is None:
            t = d.choice(self.SAFE_ARGS.get(f, ["0.0", "0.5", "1.0", "2.0", "10.0", "3.0"]))
            a = ["f", t]
            if f in ("SIN", "COS", "ATAN", "SINH", "TANH", "ASINH", "TAN", "ASIN", "ATANH") and d.bool(0.4) and t != "0.0":
                a = ["n", a]
            if f == "ASINH" and d.bool(0.3):
                a = ["n", ["f", d.choice(["50.0", "1000.0", "100000.0", "3.0"])]]
            node = ["c", f, [a], cs]
        return node

    # ---- string expressions
    def str_expr(self, depth, seven=False, top=False):
        d = self.d
        if depth <= 0 or (not top and d.bool(0.4)):
            return self.str_leaf(seven)
        k = d.weighted([(4, "cat"), (3, "case"), (5, "sub"), (1, "paren"), (1, "lit")])
        if k == "cat":
            return ["b", "+", self.str_expr(depth - 1, seven), self.str_expr(depth - 1, seven), d.weighted([(5, 0), (2, 1)])]
        if k == "case":
            return ["c", d.choice(["UPSTRING", "LOWSTRING"]), [self.str_expr(depth - 1, True)], d.int(0, 5)]
        if k == "sub":
            s = self.str_expr(depth - 1, seven)
            sv = self.val(s)
            n = len(sv[1]) if sv else 4
            start = d.weighted([(6, d.int(0, max(0, n - 1))), (1, n), (1, n + 2), (2, -1), (1, -3)])
            cnt = d.weighted([(3, 0), (5, d.int(1, max(1, n))), (1, n + 3)])
            sn = self.ilit(start) if start >= 0 else ["n", self.ilit(-start)]
            if d.bool(0.15):
                sn = self.in_range(self.int_expr(depth - 2), -3, n + 3, lambda: self.ilit(d.int(0, n)))
            return ["c", "SUBSTR", [s, sn, self.ilit(cnt)], d.int(0, 5)]
        if k == "paren":
            return ["p", self.str_expr(depth - 1, seven)]
        return self.str_leaf(seven)


def gen_state_stmts(d, st, heavy):
    """a few notation statements valid in state st (applied to st)"""
    out = []
    n = d.weighted([(3, 1), (2, 2), (1, 3)]) if heavy else 1
    for _ in range(n):
        k = d.weighted([(4, "radix"), (3, "relaxed"), (5, "intsyntax"), (1, "family")])
        if k == "radix":
            r = d.weighted([(3, 16), (2, 10), (2, 2), (2, 8), (1, 36), (1, 11), (1, 12), (1, 17), (1, 18), (4, d.int(2, 36))])
            stmt = ["radix", r]
        elif k == "relaxed":
            stmt = ["relaxed", not st.relaxed if d.bool(0.8) else st.relaxed]
        elif k == "family":
            fam = d.choice(["intel", "c", "ibm", "moto"])
            stmt = ["intsyntax", ["-" + i for i in sorted(st.native)] + ["+" + i for i in M.FAMILIES[fam]]]
        else:
            ids = d.subset(M.ALL_IDENTS, 0.25) or [d.choice(M.ALL_IDENTS)]
            stmt = ["intsyntax", [("+" if d.bool(0.7) else "-") + i for i in ids]]
        if st.apply(stmt):
            out.append(stmt)
    return out


@composite
def strategy_(d, tier):
    nsym = d.int(0, 6)
    syms = {"i": [], "f": [], "s": []}
    g = G(d, syms, tier)
    symdefs = []
    for i in range(nsym):
        t = d.weighted([(3, "i"), (2, "f"), (2, "s")])
        name = "q_%s%d" % (t, i) if d.bool(0.7) else "Sym%s%d" % (t.upper(), i)
        node = g.int_expr(1) if t == "i" else g.float_expr(1) if t == "f" else g.str_leaf()
        if t == "s" and d.bool(0.35):
            # long string symbols: concatenations of them cross the 128 / 256 character steps of string storage
            n = d.choice([60, 100, 120, 126, 127, 128, 129, 130, 150, 200])
            c0 = d.int(0, 25)
            node = ["s", [[65 + (c0 + j * 7) % 26 + (32 if j % 3 else 0), 0] for j in range(n)], 0]
        if t == "s" and node[0] == "s":
            node[2] = 0
        how = d.weighted([(3, "equ"), (2, "set"), (1, "="), (1, ":=")])
        symdefs.append([name, how, node])
        v = g.val(node)
        if v is not None:
            g.env[name.upper()] = v
            syms[t].append(name)
    cpu = d.weighted([(4, "68000"), (2, "8086"), (1, "8051"), (2, "ppc403")])
    st = M.NotationState(CPUS[cpu][0])
    pre = gen_state_stmts(d, st, True) if d.bool(0.6) else []
    maxdepth = d.weighted([(2, 2), (4, 3), (3, 4), (1, 5), (1, 6)] if tier == "quick" else
                          [(1, 2), (3, 3), (3, 4), (2, 5), (2, 6)])
    hi = 40 if maxdepth <= 2 else 32 if maxdepth == 3 else 24 if maxdepth == 4 else 14
    nitems = hi - d.int(0, hi - 12)        # zero draws (what the library favours) give full batches
    items = []
    for _ in range(nitems):
        it = {}
        if d.bool(0.12):
            it["st"] = gen_state_stmts(d, st, False)
        t = d.weighted([(10, "i"), (5, "f"), (3, "s"), (4, "ic"), (1, "fc")])
        dep = d.int(0, maxdepth) if d.bool(0.3) else maxdepth
        if t == "ic":
            e = g.int_chain()
        elif t == "fc":
            e = g.float_chain()
        elif t == "i":
            e = g.int_expr(dep, top=True)
        elif t == "f":
            e = g.float_expr(dep, top=True)
        else:
            e = g.str_expr(min(dep, 3), top=True)
            v = g.val(e)
            if v is not None and v[0] == "s" and len(v[1]) > 255:
                e = g.str_leaf()             # (the manual limits strings to 255 characters)
        it["e"] = e
        setable = [s for s in symdefs if s[1] in ("set", ":=")]
        if setable and d.bool(0.06):
            s = d.choice(setable)
            v = g.val(e)
            old = g.env.get(s[0].upper())
            if v is not None and old is not None and v[0] == old[0]:
                it["set"] = s[0]
                g.env[s[0].upper()] = v
        items.append(it)
    return dict(cpu=cpu, syms=symdefs, pre=pre, items=items)


def strategy(tier):
    return strategy_(tier)


# ------------------------------------------------------------------------------------ fixed cases

def L(v, pref=0, flags=0):
    if v == M.MINI:
        return ["min"]
    return ["i", v, pref, flags] if v >= 0 else ["p", ["n", ["i", -v, pref, flags]]]


def FL(t):
    return ["p", ["n", ["f", t[1:]]]] if t[0] == "-" else ["f", t]


def S(text, q=0):
    return ["s", [[c, 0] for c in text.encode("latin-1")], q]


def B(op, l, r, sp=0):
    return ["b", op, l, r, sp]


def C(name, *args):
    return ["c", name, list(args), 0]


def chunks(exprs, n=40, pre=(), syms=()):
    return [dict(syms=list(syms), pre=list(pre), items=[{"e": e} for e in exprs[i:i + n]])
            for i in range(0, len(exprs), n)]


ALLBIN = ["<>", "!=", ">=", "<=", "<", ">", "=", "==", "!!", "||", "&&", "-", "+", "#", "/", "*", "^", "!", "|", "&",
          "><", ">>", "<<"]


def fixed_cases(tier):
    out = []
    # regression inputs (defects of the pinned tree, one expression each so that a failure names it)
    reg = [B("^", FL("-2.0"), FL("3.0")), C("FIRSTBIT", L(1)), C("FIRSTBIT", L(5)), B("/", L(M.MINI), L(-1)),
           C("SUBSTR", S("abc"), L(-1), L(2)), B("!=", L(3), L(4)), B("+", L(2), ["f", "1.0e-3"]),
           B("*", ["f", "1.5E-3"], L(2)), C("TOUPPER", S("a", 1)), C("BITCNT", S("A", 1)), B("><", L(1), L(32)),
           B("><", L(0x100000000), L(32)), C("BITPOS", L(M.MINI)), C("ASINH", FL("-1000.0")),
           C("ASINH", FL("-100000.0")), B("&", L(1), S("")), B("*", L(1), S("abcde")), C("STRLEN", L(5)),
           C("INT", C("SQRT", S("abcde"))), B("/", L(1), L(0)), B("#", L(1), L(0)), B("/", FL("1.0"), FL("0.0")),
           C("SUBSTR", S("abc"), L(1 << 32), L(2)), C("ABS", L(M.MINI)), B("*", L(M.MINI), L(-1)),
           B("-", L(0), L(M.MINI)), ["n", ["min"]]]
    out += chunks(reg, 1)
    out.append(dict(syms=[["face", "equ", L(5)], ["b1", "set", L(6)], ["dead", "=", L(7)]], pre=[["radix", 16]],
                    items=[{"e": ["y", "face"]}, {"e": B("+", ["y", "FACE"], L(1))}, {"e": ["y", "b1"]},
                           {"e": B("*", ["y", "dead"], ["y", "TRUE"])}, {"st": [["radix", 36]], "e": ["y", "TRUE"]},
                           {"e": B("+", ["y", "false"], ["y", "face"])}]))
    # exhaustive: every ordered pair of binary operators, both groupings, minimal parentheses
    triples = [(7, 3, 2), (1, 2, 3), (100, 7, 1)] if tier == "quick" else \
        [(7, 3, 2), (1, 2, 3), (100, 7, 1), (0, 1, 0), (5, 5, 5), (-6, 4, 3), (1 << 31, 2, 31)]
    ex = []
    for a, b, c in triples:
        for o1 in ALLBIN:
            for o2 in ALLBIN:
                ex.append(B(o2, B(o1, L(a), L(b)), L(c)))
                ex.append(B(o1, L(a), B(o2, L(b), L(c))))
    # unary operators against every binary operator
    for o in ALLBIN:
        for u in ("~", "~~"):
            ex.append(B(o, ["u", u, L(6)], L(3)))
            ex.append(B(o, L(6), ["u", u, L(3)]))
            ex.append(["u", u, B(o, L(6), L(3))])
        ex.append(B(o, ["n", L(6)], L(3)))
        ex.append(B(o, L(6), ["n", L(3)]))
        ex.append(["n", B(o, L(6), L(3))])
    # float operators: pairs, both groupings
    fops = ["+", "-", "*", "/", "^"]
    for o1 in fops:
        for o2 in fops:
            for a, b, c in (("1.5", "2.0", "3.0"), ("-2.0", "3.0", "2.0"), ("10.0", "0.5", "4.0")):
                ex.append(B(o2, B(o1, FL(a), FL(b)), FL(c)))
                ex.append(B(o1, FL(a), B(o2, FL(b), FL(c))))
    for o in CMPS:
        for a, b in (("1.5", "1.5"), ("1.5", "2.0"), ("-1.0", "0.0")):
            ex.append(B(o, FL(a), FL(b)))
            ex.append(B(o, FL(a), L(1)))
        for a, b in (("abc", "abc"), ("abc", "abd"), ("ab", "abc"), ("", "a"), ("B", "a")):
            ex.append(B(o, S(a), S(b)))
    out += chunks(ex)
    # bit functions on every single bit, neighbours and extremes
    bf = []
    vals = [0, -1, M.MINI, M.MAXI, 5, 6, 12, 0x8001] + [1 << k for k in range(63)] + [(1 << k) + 1 for k in range(1, 63, 7)]
    for f in ("BITCNT", "FIRSTBIT", "LASTBIT", "BITPOS"):
        for v in vals:
            bf.append(C(f, L(v)))
    for v in range(0, 128):
        bf.append(C("TOUPPER", L(v)))
        bf.append(C("TOLOWER", L(v)))
    for v in (0, 1, -1, M.MINI, M.MAXI):
        bf += [C("SGN", L(v)), C("ABS", L(v)), ["u", "~", L(v)], ["u", "~~", L(v)]]
    for t in ("0.0", "1.5", "-1.5", "1.0E10", "-0.001"):
        bf += [C("SGN", FL(t)), C("ABS", FL(t))]
    for n in range(1, 33):
        for v in (1, 0x80000000, 0xFFFFFFFF, 0x123456789ABCDEF, -1, M.MINI, 0xA5):
            bf.append(B("><", L(v), L(n)))
    for n in (0, 33, 64, -1):
        bf.append(B("><", L(1), L(n)))
    for n in range(0, 64):
        bf += [B("<<", L(1), L(n)), B("<<", L(-1), L(n)), B(">>", L(M.MAXI), L(n)), B("^", L(2), L(n)), B("^", L(-2), L(n)),
               B("^", L(3), L(n))]
    for a in (M.MINI, M.MAXI, -1, 0, 1, 7, -7):
        for b in (M.MINI, M.MAXI, -1, 1, 2, -2, 0):
            bf += [B("/", L(a), L(b)), B("*", L(a), L(b)), B("+", L(a), L(b)), B("-", L(a), L(b))]
            if a >= 0 and b >= 0:
                bf.append(B("#", L(a), L(b)))
    out += chunks(bf)
    # string functions over boundary arguments
    sf = []
    for s_ in ("", "a", "abc", "Hello World"):
        n = len(s_)
        sf += [C("STRLEN", S(s_)), C("UPSTRING", S(s_)), C("LOWSTRING", S(s_))]
        for st in (-2, -1, 0, 1, n - 1, n, n + 1, 1 << 32, M.MINI):
            sf.append(C("CHARFROMSTR", S(s_), L(st)))
            for cnt in (0, 1, n, n + 1, M.MAXI):
                sf.append(C("SUBSTR", S(s_), L(st), L(cnt)))
        for pat in ("a", "l", "lo", "World", "x", "Hello World!", "abc"):
            sf.append(C("STRSTR", S(s_), S(pat)))
    for q in (0, 1):
        for t in ("A", "AB", "ABC", "ABCD"):
            sf += [B("*", S(t, q), L(1)), B("=", S(t, q), L(int.from_bytes(t.encode(), "big"))), ["u", "~", S(t, q)],
                   B("-", S(t, q), S("A", 1))]
    sf += [C("EXPRTYPE", L(1)), C("EXPRTYPE", FL("1.0")), C("EXPRTYPE", S("1")), C("EXPRTYPE", S("1", 1)),
           C("EXPRTYPE", B("+", L(1), FL("1.0"))), C("EXPRTYPE", B("/", L(4), L(2))), C("EXPRTYPE", C("INT", FL("2.5"))),
           C("EXPRTYPE", C("SGN", FL("2.5"))), C("EXPRTYPE", C("ABS", FL("2.5"))), C("EXPRTYPE", C("ABS", L(2))),
           C("EXPRTYPE", C("SQRT", L(4))), C("EXPRTYPE", B("=", FL("1.0"), FL("1.0"))),
           C("EXPRTYPE", B("+", S("a"), S("b")))]
    # long strings: concatenation and multi-piece literals across the 128 / 255 character marks
    def LS(n, c0=0):
        return ["s", [[65 + (c0 + j * 5) % 26 + (32 if j % 2 else 0), 0] for j in range(n)], 0]
    for a, b in ((100, 50), (127, 1), (128, 1), (126, 3), (64, 64), (129, 126), (200, 55), (1, 128), (120, 9), (130, 2)):
        cat = B("+", LS(a), LS(b, 3))
        sf += [cat, C("STRLEN", cat), C("STRSTR", cat, LS(min(b, 12), 3)), C("SUBSTR", cat, L(a - 2), L(6)),
               C("CHARFROMSTR", cat, L(a + b - 1)), B("=", cat, B("+", LS(a), LS(b, 3))),
               B("+", B("+", LS(a // 2), LS(a - a // 2, (a // 2) * 5)), LS(b, 3))]
    for n in (127, 128, 129, 151, 254, 255):
        lit = LS(n)
        lit[1][n // 2] = [9, 2]          # an escape in the middle makes the literal consist of several pieces
        sf += [lit, C("STRLEN", lit), C("UPSTRING", LS(n)), C("SUBSTR", LS(n), L(n - 5), L(5))]
    # string escapes: every character code 1..255 in every escape spelling
    for esc in (2, 3, 4):
        for base in range(1, 256, 8):
            sf.append(["s", [[c, esc] for c in range(base, min(base + 8, 256))], 0])
    for code in sorted(M.NAMED):
        sf += [["s", [[code, 1]], 0], ["s", [[code, 5]], 0], B("*", ["s", [[code, 1]], 1], L(1))]
    out += chunks(sf)
    # float functions at tabulated arguments incl. the borders of their domains
    ff = []
    args = ["0.0", "0.5", "1.0", "-1.0", "-0.5", "1.5", "2.0", "-2.0", "10.0", "100.0", "-100.0", "0.001", "3.14159",
            "1.0E5", "-1.0E5", "700.0", "1.001", "0.999", "-0.999"]
    for f in sorted(M.FLOATFUNCS):
        for a in args:
            ff.append(C(f, FL(a)))
        ff.append(C(f, L(1)))
        ff.append(C(f, L(2)))
    for a in ["0.0", "0.5", "0.999999", "1.0", "1.5", "-1.0", "-3.0", "2147483647.0", "1.0E9", "2.0E9"]:
        ff.append(C("INT", FL(a)))
    for b in ("-2.0", "-1.5", "-0.5", "-10.0", "-1.0"):
        for e in range(-8, 13):
            ff.append(B("^", FL(b), FL("%d.0" % e)))
        ff.append(B("^", FL(b), FL("0.5")))
    for b in ("2.0", "0.0", "10.0", "0.5"):
        for e in ("0.0", "1.0", "2.0", "0.5", "-1.0", "3.0", "10.0"):
            if not (b == "0.0" and e[0] == "-"):
                ff.append(B("^", FL(b), FL(e)))
    out += chunks(ff)
    # literals: every notation x radix x syntax state
    states = [("moto", []), ("intel", [["intsyntax", ["-$hex", "-%bin", "-@oct", "+hexh", "+binb", "+octo", "+octq"]]]),
              ("c", [["intsyntax", ["-$hex", "-%bin", "-@oct", "+0xhex", "+0bbin", "+0oct"]]]),
              ("ibm", [["intsyntax", ["-$hex", "-%bin", "-@oct", "+x'hex'", "+h'hex'", "+b'bin'", "+o'oct'"]]]),
              ("relaxed", [["relaxed", True]]), ("0hex", [["intsyntax", ["+0hex", "+hexh", "+binb"]]]),
              ("mix", [["intsyntax", ["+0xhex", "+hexh", "+binb", "+0bbin", "+octq"]]])]
    lvals = [0, 1, 7, 8, 9, 10, 11, 15, 16, 17, 27, 35, 36, 255, 0xB1, 0x1B, 0xABCDEF, 0o777, M.MAXI]
    if tier == "quick":
        lvals = [0, 1, 8, 10, 11, 17, 27, 35, 255, 0xB1, 0xABCDEF, M.MAXI]
    for name, pre in states:
        for radix in range(2, 37):
            lit = []
            for v in lvals:
                for pref in range(16):
                    lit.append(["i", v, pref, (pref * 3 + v) & 7])
            st = M.NotationState()
            for p_ in pre + [["radix", radix]]:
                st.apply(p_)
            # keep one literal per distinct spelling
            seen, keep = set(), []
            for n_ in lit:
                sp = M.spellings(n_[1], st, n_[3]) or M.spellings(n_[1], st, n_[3] & ~4)
                if not sp:
                    continue
                t = sp[n_[2] % len(sp)][1]
                if t not in seen:
                    seen.add(t)
                    keep.append(n_)
            out += chunks(keep, 60, pre=pre + [["radix", radix]])
    # the documented default syntax of other targets
    for cpu in ("8086", "8051", "ppc403"):
        for radix in (2, 8, 10, 11, 12, 16, 17, 18, 25, 27, 34, 36):
            st = M.NotationState(CPUS[cpu][0])
            st.apply(["radix", radix])
            seen, keep = set(), []
            for v in lvals:
                for pref in range(8):
                    fl = (pref * 3 + v) & 7
                    sp = M.spellings(v, st, fl) or M.spellings(v, st, fl & ~4)
                    if sp and sp[pref % len(sp)][1] not in seen:
                        seen.add(sp[pref % len(sp)][1])
                        keep.append(["i", v, pref, fl])
            for c_ in chunks(keep + reg[:12], 60, pre=[["radix", radix]]):
                c_["cpu"] = cpu
                out.append(c_)
    return out


# ------------------------------------------------------------------------------------ program

def stmt_text(stmt):
    if stmt[0] == "radix":
        return "\tradix\t%d" % stmt[1]
    if stmt[0] == "relaxed":
        return "\trelaxed\t%s" % ("on" if stmt[1] else "off")
    return "\tintsyntax\t" + ",".join(stmt[1])


class Item:
    pass


def build(case):
    """returns (lines, items): items carry model outcome, rendering and line numbers"""
    cpu = case.get("cpu", "68000")
    fam, opi, opf, opb, order = CPUS[cpu]
    lines = ["\tcpu\t" + cpu] + (["\tpadding\toff"] if cpu == "68000" else [])
    env = {}
    st = M.NotationState(fam)
    plain = M.NotationState(fam)
    for name, how, node in case["syms"]:
        try:
            v = M.evaluate(node, env)
            txt = M.Renderer(plain, force_dq=True).render(node)
        except (M.Undefined, M.Excluded):
            continue
        if how in ("equ", "set"):
            lines.append("%s\t%s\t%s" % (name, how, txt))
        else:
            lines.append("%s\t%s %s" % (name, how, txt))
        env[name.upper()] = v
    for stmt in case["pre"]:
        if st.apply(stmt):
            lines.append(stmt_text(stmt))
    items = []
    slot = 0
    for idx, it in enumerate(case["items"]):
        o = Item()
        o.idx, o.node = idx, it["e"]
        o.skip = None
        o.lines = []
        pending = []
        for stmt in it.get("st", ()):
            if st.apply(stmt):
                pending.append(stmt_text(stmt))
        lines += pending
        try:
            try:
                o.model = M.evaluate(o.node, env)
                o.error = None
            except M.Undefined as e:
                o.model, o.error = None, str(e)
            rd = M.Renderer(st, force_dq=(o.model is not None and o.model[0] == "s"))
            o.text = rd.render(o.node)
            o.notations = rd.notations
            if len(o.text) > 230:
                raise M.Excluded("expression text too long for one source line")
        except M.Excluded as e:
            o.skip = str(e)
            items.append(o)
            continue
        o.addr = BASEADDR + slot * SLOT
        slot += 1
        o.state = (st.radix, st.relaxed, tuple(sorted(st.native)))
        if st.radix != 10:
            lines.append("\tradix\t10")
        lines.append("\torg\t%d" % o.addr)
        if st.radix != 10:
            lines.append("\tradix\t%d" % st.radix)
        kind = o.model[0] if o.model else None
        first = len(lines) + 1
        if "set" in it and o.model is not None:
            nm = it["set"]
            if nm.upper() in env and env[nm.upper()][0] == o.model[0]:
                lines.append("%s\tset\t%s" % (nm, o.text))
                env[nm.upper()] = o.model
                o.text_obs = nm
            else:
                o.text_obs = o.text
        else:
            o.text_obs = o.text
        o.order = order
        if kind is None:
            # expected error: a context that accepts a value of any type, so that only the expression
            # itself can be the reason for a message
            lines.append("q_err%d\tset\t%s" % (idx, o.text_obs))
        elif kind == "s":
            lines.append("\t%s\texprtype(%s)" % (opb, o.text_obs))
            lines.append("\t%s\t%s" % (opb, o.text_obs))
        elif kind == "f":
            lines.append("\t%s\t%s" % (opf, o.text_obs))
            lines.append("\t%s\texprtype(%s)" % (opb, o.text_obs))
        else:
            lines.append("\t%s\t%s" % (opi, o.text_obs))
            lines.append("\t%s\texprtype(%s)" % (opb, o.text_obs))
        o.lines = list(range(first, len(lines) + 1))
        items.append(o)
    return lines, items


def source(case):
    lines, _ = build(case)
    return "\n".join(lines) + "\n"


def show(case):
    try:
        return source(case).split("\n")
    except Exception as e:      # pragma: no cover - display only
        return "unrenderable: %r" % (e,)


# ------------------------------------------------------------------------------------ classification

def op_classes(node):
    ops, funcs, operands = [], [], set()
    for n in M.walk(node):
        k = n[0]
        if k == "b":
            ops.append(n[1])
        elif k == "u":
            ops.append("u" + n[1])
        elif k == "n":
            ops.append("neg")
        elif k == "c":
            funcs.append(n[1])
        elif k == "v":
            funcs.append("VAL")
        elif k == "i":
            v = n[1]
            if v in BOUND_INTS or (v & (v - 1)) == 0 or (v & (v + 1)) == 0:
                operands.add("bound")
            else:
                operands.add("int")
        elif k == "min":
            operands.add("min")
        elif k == "f":
            operands.add("float")
        elif k == "s":
            operands.add("chr" if n[2] else "str")
        elif k == "y":
            operands.add("sym")
    return ops, funcs, operands


def nontrivial_key(o):
    ops, funcs, operands = op_classes(o.node)
    ranks = {M.RANK.get(x, M.URANK.get(x[1:], 10)) for x in ops}
    nondec = [n for n in o.notations if n != "dec"] or (["radix%d" % o.state[0]] if o.state[0] != 10 and o.notations else [])
    nt = len(ranks) >= 2 or "bound" in operands or "min" in operands or bool(nondec) or o.error is not None
    if not nt:
        return None
    return "|".join([",".join(sorted(ops)), ",".join(sorted(funcs)), ",".join(sorted(operands)),
                     ",".join(sorted(set(nondec))), "err" if o.error else ""])


# ------------------------------------------------------------------------------------ execution

def run_asl(text):
    return asl.assemble({"t.asm": text}, timeout=20.0, cpu=10)


def execute(case):
    lines, items = build(case)
    classes = []
    live = [o for o in items if o.skip is None]
    for o in items:
        if o.skip is not None:
            classes.append("excluded")
            classes.append("excluded:" + o.skip[:60])
    if not live:
        return engine.discarded("no judged expression", classes)
    line2item = {}
    for o in live:
        for ln in o.lines:
            line2item[ln] = o
    text = "\n".join(lines) + "\n"
    r = run_asl(text)
    if r.timed_out:
        return engine.inconclusive("timeout", classes)
    detail = dict(source=text.split("\n"))

    def fail(why, o=None, **kw):
        dd = dict(detail)
        dd.update(kw)
        dd.update(stderr=r.err[-1500:], status=r.status, signal=r.signal)
        if o is not None:
            dd.update(expr=o.text, model=repr(o.model), model_error=o.error, lines=o.lines)
        return engine.bad(why, None, classes, **dd)

    if r.signal:
        return fail("asl killed by signal %d" % r.signal)
    diags = asl.diagnostics(r.err)
    if "internal error" in r.err:
        ln = [dg["line"] for dg in diags if "internal error" in dg["msg"]]
        o = line2item.get(ln[0]) if ln else None
        return fail("asl reports an internal error" + (" for " + o.text if o else ""), o)
    errs = {}
    for dg in diags:
        if dg["kind"] == "error":
            errs.setdefault(dg["line"], []).append(dg["msg"])
    warns = [dg for dg in diags if dg["kind"] == "warning"]
    if r.status not in (0, 2):
        return fail("asl exit status %s" % r.status)
    if r.status == 2 and not errs:
        return fail("asl exit status 2 without a located error message")
    # errors outside any item (symbol definitions, notation statements)
    for ln in errs:
        if ln not in line2item:
            return fail("error on line %d which holds no expression under test: %s" % (ln, errs[ln][0]), line=lines[ln - 1])
    for o in live:
        hit = [ln for ln in o.lines if ln in errs]
        if o.error is None and hit:
            return fail("error for an expression with a defined value: %s  ->  %s (model: %r)"
                        % (o.text, errs[hit[0]][0], o.model), o)
        if o.error is not None and o.lines[0] not in errs:
            return fail("no error for an undefined operation: %s (%s)" % (o.text, o.error), o)
    for w in warns:
        o = line2item.get(w["line"])
        if o is not None and o.error is None:
            return fail("warning for a well-defined expression: %s -> %s" % (o.text, w["msg"]), o)
    good = [o for o in live if o.error is None]
    if errs:
        drop = set()
        for o in live:
            if o.error is not None:
                drop.update(o.lines)
        text2 = "\n".join(("" if (i + 1) in drop else l) for i, l in enumerate(lines)) + "\n"
        r2 = run_asl(text2)
        if r2.timed_out:
            return engine.inconclusive("timeout", classes)
        if r2.signal or r2.status != 0:
            r = r2
            return fail("second run (error lines blanked) fails: status %s signal %s" % (r2.status, r2.signal))
        res = r2
    else:
        res = r
    if good:
        if res.p is None:
            return fail("no code file although no error was reported")
        try:
            bm = res.bytemap(1)
        except Exception as e:
            return fail("code file unreadable: %r" % (e,))
    keys = []
    for o in live:
        ops, funcs, operands = op_classes(o.node)
        classes.append("expr")
        classes.append("cpu:" + case.get("cpu", "68000"))
        classes.append("type:" + (o.model[0] if o.model else "error"))
        classes.append("depth:%d" % min(M.depth(o.node), 7))
        for x in set(ops):
            classes.append("op:" + x)
        for x in set(funcs):
            classes.append("fn:" + x)
        for x in operands:
            classes.append("operand:" + x)
        for x in set(o.notations):
            classes.append("notation:" + x)
        if o.notations and o.state[0] != 10:
            classes.append("radix-not-10")
        if o.state[1]:
            classes.append("relaxed")
        k = nontrivial_key(o)
        if k is not None:
            classes.append("expr-nontrivial")
            keys.append(k)
        if o.error is not None:
            classes.append("expected-error")
            continue
        present = [i for i in range(SLOT) if (1, o.addr + i) in bm]
        data = bytes(bm[(1, o.addr + i)] for i in present)
        if present != list(range(len(present))):
            return fail("bytes of the slot are not contiguous: %s" % o.text, o)
        kind = o.model[0]
        if o.order == "little" and kind in "if" and len(data) >= 8:
            data = data[7::-1] + data[8:]
        if kind == "i":
            exp = (o.model[1] & M.M64).to_bytes(8, "big") + b"\x00"
            if data != exp:
                if len(data) == 9 and data[8] != 0:
                    return fail("%s has type %d, documented type is integer" % (o.text, data[8]), o, got=data.hex())
                gv = M.wrap(int.from_bytes(data[:8], "big")) if len(data) >= 8 else None
                return fail("%s = %s, documented value %d" % (o.text, gv, o.model[1]), o, got=data.hex(), exp=exp.hex())
        elif kind == "f":
            if len(data) != 9:
                return fail("%s: %d bytes laid down, expected double + type byte" % (o.text, len(data)), o, got=data.hex())
            if data[8] != 1:
                return fail("%s has type %d, documented type is floating point" % (o.text, data[8]), o, got=data.hex())
            gv = struct.unpack(">d", data[:8])[0]
            if not M.float_matches(gv, o.model[1], o.model[2]):
                return fail("%s = %r, documented value %r (tolerance %g)" % (o.text, gv, o.model[1], o.model[2]),
                            o, got=data.hex(), exp=M.float_bytes(o.model[1]).hex())
        else:
            exp = b"\x02" + o.model[1]
            if data != exp:
                return fail("%s = %r (type byte first), documented value %r" % (o.text, data, exp), o,
                            got=data.hex(), exp=exp.hex())
    key = engine.digest("\n".join(sorted(set(keys)))) if keys else None
    return engine.ok(key, classes)


def coverage_extra(tier, classes):
    g = classes.get
    return dict(expressions=dict(total=g("expr", 0), nontrivial=g("expr-nontrivial", 0),
                                 expected_errors=g("expected-error", 0), excluded=g("excluded", 0),
                                 by_operator={k[3:]: v for k, v in classes.items() if k.startswith("op:")},
                                 by_function={k[3:]: v for k, v in classes.items() if k.startswith("fn:")},
                                 by_notation={k[9:]: v for k, v in classes.items() if k.startswith("notation:")},
                                 by_type={k[5:]: v for k, v in classes.items() if k.startswith("type:")},
                                 by_depth={k[6:]: v for k, v in classes.items() if k.startswith("depth:")},
                                 exclusions={k[9:]: v for k, v in classes.items() if k.startswith("excluded:")}))


KNOWN = {}
