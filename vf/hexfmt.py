"""Independent decoders of the hex formats P2HEX writes (C06).

Written from the PUBLIC definitions of the formats, not from p2hex.c:

* Motorola S-record (Motorola M68000 family programmer's reference, appendix "S-record output
  format"; unix man page srec(5)):  'S' type count address data checksum.  count = number of
  bytes that follow (address + data + checksum); checksum = one's complement of the low byte of
  the sum of count, address and data bytes.  Address width by type: S0/S1/S5/S9 16 bit, S2/S6/S8
  24 bit, S3/S7 32 bit.  S0 header, S1-S3 data, S5/S6 record count, S7/S8/S9 termination with the
  start (entry) address, matching S3/S2/S1 data.
* Intel HEX (Intel "Hexadecimal Object File Format Specification", rev. A, 1988):
  ':' LL AAAA TT data CC.  CC = two's complement of the low byte of the sum of all preceding
  bytes.  TT: 00 data, 01 end of file, 02 extended segment address (USBA, 2 data bytes, bits 4-19
  of the base; data byte i of a following data record is at base + ((AAAA + i) mod 64K)),
  03 start segment address (CS:IP), 04 extended linear address (ULBA, upper 16 bits of the base;
  data byte i is at (base + AAAA + i) mod 4G), 05 start linear address (EIP).
  8-bit format: 00/01; 16-bit format: 00-03; 32-bit format: 00, 01, 04, 05.
* MOS Technology (KIM-1 user manual, appendix "paper tape format"): ';' LL AAAA data CCCC.
  CCCC = 16-bit sum of the count byte, both address bytes and the data bytes of THAT record.
  Last record: ';00' NNNN CCCC with NNNN = number of data records, CCCC = its checksum
  (sum of 00, high and low byte of NNNN).
* Tektronix hexadecimal (non-extended): '/' AAAA LL HH data DD.  HH = 8-bit sum of the six
  hexadecimal DIGITS (4-bit values) of address and count; DD = 8-bit sum modulo 256 of the
  hexadecimal digits of the data.  A record with count 00 ('/AAAA00HH') ends the file.
* Atmel generic (AVR assembler user guide, "generic" output): 'AAAAAA:DDDD' - 24-bit word
  address, 16-bit word; P2HEX's -avrlen 2 shortens the address to 4 digits (manual).
* C array output: structure described in doc/utility-programs.md.
"""
import re

HEXDIG = set("0123456789ABCDEFabcdef")


class HexError(Exception):
    def __init__(self, line, msg, text=""):
        Exception.__init__(self, "line %d: %s%s" % (line, msg, (" [" + text[:80] + "]") if text else ""))
        self.line = line
        self.msg = msg


def _lines(text):
    """split into lines; every line must be terminated by a newline; no empty lines"""
    if isinstance(text, bytes):
        text = text.decode("latin-1")
    if text == "":
        return []
    if not text.endswith("\n"):
        raise HexError(text.count("\n") + 1, "last line is not terminated by a newline")
    out = text[:-1].split("\n")
    return [l[:-1] if l.endswith("\r") else l for l in out]


def _hexbytes(s, lineno, what="hex field"):
    if len(s) % 2:
        raise HexError(lineno, "odd number of hex digits in " + what, s)
    if any(c not in HEXDIG for c in s):
        raise HexError(lineno, "non-hex character in " + what, s)
    return bytes.fromhex(s)


# ------------------------------------------------------------------ Motorola S-record

SREC_ALEN = {0: 2, 1: 2, 2: 3, 3: 4, 5: 2, 6: 3, 7: 4, 8: 3, 9: 2}


def srec_line(l, n):
    if len(l) < 4 or l[0] != "S" or l[1] not in "0123456789":
        raise HexError(n, "not an S-record", l)
    t = int(l[1])
    if t not in SREC_ALEN:
        raise HexError(n, "undefined S-record type S%d" % t, l)
    body = _hexbytes(l[2:], n, "S-record")
    count = body[0]
    if count != len(body) - 1:
        raise HexError(n, "S%d count field %d but %d bytes follow" % (t, count, len(body) - 1), l)
    al = SREC_ALEN[t]
    if count < al + 1:
        raise HexError(n, "S%d count %d too small for a %d-byte address and checksum" % (t, count, al), l)
    want = (~sum(body[:-1])) & 0xff
    if body[-1] != want:
        raise HexError(n, "S%d checksum %02X, by definition %02X" % (t, body[-1], want), l)
    addr = int.from_bytes(body[1:1 + al], "big")
    data = bytes(body[1 + al:-1])
    if t in (5, 6, 7, 8, 9) and data:
        raise HexError(n, "S%d record carries data bytes" % t, l)
    return dict(t=t, addr=addr, data=data, line=n, alen=al)


def srec(text):
    return [srec_line(l, i + 1) for i, l in enumerate(_lines(text))]


# ------------------------------------------------------------------ Intel HEX

def intel_line(l, n, allow_no_checksum_eof=False):
    if not l.startswith(":"):
        raise HexError(n, "Intel record does not start with ':'", l)
    if allow_no_checksum_eof and l == ":00000001":
        return dict(t=1, addr=0, data=b"", line=n, checksum=None)
    body = _hexbytes(l[1:], n, "Intel record")
    if len(body) < 5:
        raise HexError(n, "Intel record too short", l)
    ll = body[0]
    if ll != len(body) - 5:
        raise HexError(n, "Intel length field %d but %d data bytes present" % (ll, len(body) - 5), l)
    want = (-sum(body[:-1])) & 0xff
    if body[-1] != want:
        raise HexError(n, "Intel checksum %02X, by definition %02X" % (body[-1], want), l)
    t = body[3]
    addr = (body[1] << 8) | body[2]
    data = bytes(body[4:-1])
    if t > 5:
        raise HexError(n, "undefined Intel record type %02X" % t, l)
    if t == 1 and ll != 0:
        raise HexError(n, "end-of-file record with data", l)
    if t in (2, 4) and (ll != 2 or addr != 0):
        raise HexError(n, "type %02X record must have length 2 and load offset 0000" % t, l)
    if t in (3, 5) and (ll != 4 or addr != 0):
        raise HexError(n, "type %02X record must have length 4 and load offset 0000" % t, l)
    return dict(t=t, addr=addr, data=data, line=n, checksum=body[-1])


def intel(text, allow_no_checksum_eof=False):
    return [intel_line(l, i + 1, allow_no_checksum_eof) for i, l in enumerate(_lines(text))]


def intel_place(recs):
    """absolute placement by the Intel specification: yields (record, [absolute address of each byte])"""
    mode, base = "lin", 0
    out = []
    for r in recs:
        if r["t"] == 2:
            mode, base = "seg", int.from_bytes(r["data"], "big") << 4
        elif r["t"] == 4:
            mode, base = "lin", int.from_bytes(r["data"], "big") << 16
        elif r["t"] == 0:
            if mode == "seg":
                adrs = [base + ((r["addr"] + i) & 0xffff) for i in range(len(r["data"]))]
            else:
                adrs = [(base + r["addr"] + i) & 0xffffffff for i in range(len(r["data"]))]
            out.append((r, adrs, base))
    return out


# ------------------------------------------------------------------ MOS Technology

def mos_line(l, n):
    if not l.startswith(";"):
        raise HexError(n, "MOS record does not start with ';'", l)
    body = _hexbytes(l[1:], n, "MOS record")
    if len(body) < 5:
        raise HexError(n, "MOS record too short", l)
    ll = body[0]
    if ll != len(body) - 5:
        raise HexError(n, "MOS count field %d but %d data bytes present" % (ll, len(body) - 5), l)
    want = sum(body[:-2]) & 0xffff
    got = (body[-2] << 8) | body[-1]
    if got != want:
        raise HexError(n, "MOS checksum %04X, by definition (sum of count, address and data of this record) %04X"
                       % (got, want), l)
    addr = (body[1] << 8) | body[2]
    return dict(kind="end" if ll == 0 else "data", addr=addr, data=bytes(body[3:-2]), line=n)


def mos(text):
    return [mos_line(l, i + 1) for i, l in enumerate(_lines(text))]


# ------------------------------------------------------------------ Tektronix hex

def _nibsum(s):
    return sum(int(c, 16) for c in s) & 0xff


def tek_line(l, n):
    if not l.startswith("/"):
        raise HexError(n, "Tektronix record does not start with '/'", l)
    s = l[1:]
    if len(s) < 8 or any(c not in HEXDIG for c in s) or len(s) % 2:
        raise HexError(n, "malformed Tektronix record", l)
    addr = int(s[0:4], 16)
    cnt = int(s[4:6], 16)
    h = int(s[6:8], 16)
    want = _nibsum(s[0:6])
    if h != want:
        raise HexError(n, "Tektronix header checksum %02X, by definition (sum of the six digits) %02X" % (h, want), l)
    if cnt == 0:
        if len(s) != 8:
            raise HexError(n, "Tektronix termination record with trailing characters", l)
        return dict(kind="end", addr=addr, data=b"", line=n)
    if len(s) != 8 + 2 * cnt + 2:
        raise HexError(n, "Tektronix count field %d but %d data bytes present" % (cnt, (len(s) - 10) // 2), l)
    d = s[8:8 + 2 * cnt]
    c2 = int(s[8 + 2 * cnt:], 16)
    want2 = _nibsum(d)
    if c2 != want2:
        raise HexError(n, "Tektronix data checksum %02X, by definition (sum of the data digits) %02X" % (c2, want2), l)
    return dict(kind="data", addr=addr, data=bytes.fromhex(d), line=n)


def tek(text):
    return [tek_line(l, i + 1) for i, l in enumerate(_lines(text))]


# ------------------------------------------------------------------ Atmel generic

def atmel(text, alen):
    out = []
    pat = re.compile(r"^([0-9A-Fa-f]{%d}):([0-9A-Fa-f]{4})$" % (2 * alen))
    for i, l in enumerate(_lines(text)):
        m = pat.match(l)
        if not m:
            raise HexError(i + 1, "not an Atmel generic line with a %d-digit address" % (2 * alen), l)
        out.append(dict(addr=int(m.group(1), 16), word=int(m.group(2), 16), line=i + 1))
    return out


# ------------------------------------------------------------------ C arrays

_C_DEFINE = re.compile(r"^#define (\w+) (0x[0-9A-Fa-f]{8})(ul|u)$")
_C_ARRAY = re.compile(r"^static const unsigned char (\w+)\[\] =$")
_C_BYTES = re.compile(r"^  ((?:0x[0-9A-Fa-f]{2},)*0x[0-9A-Fa-f]{2}),?$")


def carray(text, name):
    """parse the C output.  returns dict(defines={name: (value, suffix)}, arrays={name: (bytes, 'lower'|'upper'|'')},
    order=[array/define names in order], fields=[struct member lines], rows=[[idents]], entry=value|None)"""
    ls = _lines(text)
    pos = 0

    def need(s):
        nonlocal pos
        if pos >= len(ls) or ls[pos] != s:
            raise HexError(pos + 1, "expected %r" % s, ls[pos] if pos < len(ls) else "<end of file>")
        pos += 1

    need("#ifndef _%s_H" % name)
    need("#define _%s_H" % name)
    need("")
    defines, arrays, order = {}, {}, []
    while pos < len(ls) and ls[pos] != "typedef struct":
        l = ls[pos]
        m = _C_DEFINE.match(l)
        if m:
            if m.group(1) in defines:
                raise HexError(pos + 1, "macro defined twice", l)
            defines[m.group(1)] = (int(m.group(2), 16), m.group(3))
            order.append(("define", m.group(1)))
            pos += 1
            continue
        m = _C_ARRAY.match(l)
        if m:
            an = m.group(1)
            if an in arrays:
                raise HexError(pos + 1, "array defined twice", l)
            pos += 1
            need("{")
            data = bytearray()
            case = set()
            rows = []
            while pos < len(ls) and ls[pos] != "};":
                mm = _C_BYTES.match(ls[pos])
                if not mm:
                    raise HexError(pos + 1, "not a line of an initialiser list", ls[pos])
                toks = mm.group(1).split(",")
                for t in toks:
                    h = t[2:]
                    if h != h.lower():
                        case.add("upper")
                    if h != h.upper():
                        case.add("lower")
                    data.append(int(h, 16))
                rows.append((len(toks), ls[pos].endswith(",")))
                pos += 1
            need("};")
            need("")
            if not rows:
                raise HexError(pos, "empty initialiser list (not valid ISO C)", an)
            for k, (cnt, comma) in enumerate(rows):
                if k < len(rows) - 1 and not comma:
                    raise HexError(pos, "missing comma between initialiser lines", an)
            arrays[an] = (bytes(data), "".join(sorted(case)), [r[0] for r in rows])
            order.append(("array", an))
            continue
        if l == "":
            pos += 1
            continue
        raise HexError(pos + 1, "unexpected line in C output", l)
    need("typedef struct")
    need("{")
    fields = []
    while pos < len(ls) and not ls[pos].startswith("}"):
        m = re.match(r"^  (const (?:unsigned )?char \*data|unsigned start|unsigned long start|unsigned len|unsigned long len|"
                     r"unsigned end|unsigned long end);$", ls[pos])
        if not m:
            raise HexError(pos + 1, "unexpected struct member", ls[pos])
        fields.append(m.group(1))
        pos += 1
    need("} %s_blk;" % name)
    need("static const %s_blk %s_blks[] =" % (name, name))
    need("{")
    rows = []
    while pos < len(ls) and ls[pos] != "};":
        m = re.match(r"^  \{ (.*) \}(,?)$", ls[pos])
        if not m:
            raise HexError(pos + 1, "unexpected descriptor row", ls[pos])
        rows.append(([t.strip() for t in m.group(1).split(",")], m.group(2) == ","))
        pos += 1
    need("};")
    need("")
    entry = None
    if pos < len(ls) and ls[pos].startswith("#define %s_entry " % name):
        m = re.match(r"^#define \w+_entry (0x[0-9A-Fa-f]{8})ul$", ls[pos])
        if not m:
            raise HexError(pos + 1, "malformed entry macro", ls[pos])
        entry = int(m.group(1), 16)
        pos += 1
        need("")
    need("#endif /* _%s_H */" % name)
    if pos != len(ls):
        raise HexError(pos + 1, "text after #endif", ls[pos])
    for k, (r, comma) in enumerate(rows):
        if k < len(rows) - 1 and not comma:
            raise HexError(0, "missing comma between descriptor rows")
    return dict(defines=defines, arrays=arrays, order=order, fields=fields, rows=[r for r, _ in rows], entry=entry)
