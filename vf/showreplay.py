import json, sys
for fn in sys.argv[1:]:
    b = json.load(open(fn))
    print(fn, '::', b['why'])
    d = b.get('detail') or {}
    print('   argv', d.get('argv'), '| status', d.get('status'), '| stderr', (d.get('stderr') or '')[-200:].strip())
    for fl in b['case'].get('files', []):
        if isinstance(fl, dict) and 'recs' in fl:
            print('    ', fl['name'], fl['offset'], [(r['kind'], hex(r.get('cpu', 0)), r.get('seg'), r.get('gran'), hex(r['addr']), len(r.get('data', '')) // 2, r.get('form')) for r in fl['recs']])
    for k in ('got', 'exp'):
        if k in d: print('    ', k, d[k])
