"""The golden corpus of /repo/tests as generator input: (name, source bytes, asflags list, .ori bytes)."""
import os, shlex

REPO = os.environ.get("VERIF_REPO", "/repo")
TESTS = os.path.join(REPO, "tests")
_cache = {}


def names():
    out = []
    for n in sorted(os.listdir(TESTS)):
        d = os.path.join(TESTS, n)
        if os.path.isfile(os.path.join(d, n + ".asm")) and os.path.isfile(os.path.join(d, n + ".ori")):
            out.append(n)
    return out


def load(name):
    if name in _cache:
        return _cache[name]
    d = os.path.join(TESTS, name)
    src = open(os.path.join(d, name + ".asm"), "rb").read()
    ori = open(os.path.join(d, name + ".ori"), "rb").read()
    flags = []
    fp = os.path.join(d, "asflags")
    if os.path.exists(fp):
        flags = shlex.split(open(fp).read())
    extra = {}
    for fn in os.listdir(d):
        if fn not in (name + ".asm", name + ".ori", "asflags") and os.path.isfile(os.path.join(d, fn)):
            extra[fn] = open(os.path.join(d, fn), "rb").read()
    _cache[name] = dict(name=name, src=src, ori=ori, flags=flags, extra=extra, dir=d)
    return _cache[name]
