"""Reference model of the assembler's address bookkeeping (property C10).

Written from doc/pseudo-instructions.md (ORG, RORG, CPU, SEGMENT, PHASE and DEPHASE, SAVE and RESTORE,
ALIGN, DS / DB ? / RES, Structures) - not from asl's sources.  The model interprets a list of
statement dicts ("ops"), renders each op as source text for the current target and predicts

  * the value the PC symbol / a label reads after the statement (load counter + phase offset of the
    active segment, or the offset inside an open STRUCT/UNION),
  * every byte the statement lays down: (header id, segment id, granularity, byte address, byte),
  * every symbol a STRUCT/UNION definition or a structure instance defines, with its value,
  * MOMCPU / LISTON.

State: per segment (load counter, phase offset, phase stack), active segment, current CPU, SAVE stack,
stack of open structure definitions, table of finished structure definitions.

An op that is not valid in the current state (or that belongs to an input class the check excludes by
construction) raises ModelError; the generator only produces ops the model accepts.
"""

# name -> cpu statement argument, MOMCPU value, code-file header id, PC symbol, pseudo-op family,
#         segments: name -> (granularity in bytes, documented initial value or None if the manual does not
#         give the value asl uses, highest address)
TARGETS = {
    "8051": dict(cpu="8051", momcpu=0x8051, hid=0x31, pcsym="$", fam="intel", segs={
        "code": (1, 0, 0xffff), "data": (1, None, 0xff), "idata": (1, 0x80, 0xff),
        "xdata": (1, 0, 0xffff), "bitdata": (1, 0, 0xff)}),
    "z80": dict(cpu="z80", momcpu=0x80, hid=0x51, pcsym="$", fam="intel", segs={
        "code": (1, 0, 0xffff), "io": (1, 0, 0xff)}),
    "16c84": dict(cpu="16c84", momcpu=0x16c84, hid=0x70, pcsym="*", fam="pic", segs={
        "code": (2, 0, 0x3ff), "data": (1, 0, 0x1ff)}),
    "320c30": dict(cpu="320c30", momcpu=0x320c30, hid=0x76, pcsym="$", fam="ti", segs={
        "code": (4, 0, 0xffffff)}),
    # byte addresses, objects of 16 bits and more are kept on even addresses by PADDING (default ON)
    "68000": dict(cpu="68000", momcpu=0x68000, hid=0x01, pcsym="*", fam="moto", segs={
        "code": (1, 0, 0xffffff)}),
}
SEGID = {"code": 1, "data": 2, "idata": 3, "xdata": 4, "bitdata": 6, "io": 7}
SEGLETTER = {"code": "C", "data": "D", "idata": "I", "xdata": "X", "bitdata": "B", "io": "P"}

# reservation forms of the Intel-style targets: name -> (source text for n, units reserved for n)
RES_INTEL = {
    "ds": (lambda n: "ds %d" % n, lambda n: n),
    "db?": (lambda n: "db ?", lambda n: 1),
    "dw?": (lambda n: "dw ?", lambda n: 2),
    "dd?": (lambda n: "dd ?", lambda n: 4),
    "dup": (lambda n: "db %d dup (?)" % n, lambda n: n),
    "dwdup": (lambda n: "dw %d dup (?)" % n, lambda n: 2 * n),
    "db??": (lambda n: "db " + ",".join("?" * n), lambda n: n),
}
RES_PIC = {"res": (lambda n: "res %d" % n, lambda n: n)}
RES_TI = {"bss": (lambda n: "bss %d" % n, lambda n: n)}
# DS.x: n objects of 1/2/4 bytes; "a count specification of 0" aligns the counter to the object size
RES_MOTO = {
    "ds.b": (lambda n: "ds.b %d" % n, lambda n: n),
    "ds.w": (lambda n: "ds.w %d" % n, lambda n: 2 * n),
    "ds.l": (lambda n: "ds.l %d" % n, lambda n: 4 * n),
    "ds.w0": (lambda n: "ds.w 0", None),
    "ds.l0": (lambda n: "ds.l 0", None),
}
RES_TABLES = {"intel": RES_INTEL, "pic": RES_PIC, "ti": RES_TI, "moto": RES_MOTO}

STRUCT_KW = {"struct": "endstruct", "struc": "endstruc"}


class ModelError(Exception):
    pass


def limits_for(cpus):
    """highest address per segment that is inside the documented range of every CPU of the profile"""
    lim = {}
    for c in cpus:
        for s, (_, _, hi) in TARGETS[c]["segs"].items():
            lim[s] = min(lim.get(s, hi), hi)
    return lim


def res_units(fam, form, n):
    tab = RES_TABLES[fam]
    if form not in tab or tab[form][1] is None:
        raise ModelError("reservation form %s not available" % form)
    return tab[form][1](n)


class Effect:
    def __init__(self):
        self.lines = []      # source lines of the statement
        self.emits = []      # ((hid, segid, gran), byte address, byte) in emission order
        self.syms = []       # (symbol name as written in the source, expected value)
        self.starts = []     # (hid, segid, gran, unit address): an emitting statement begins here
        self.labels = {}     # symbol -> segment letter, for symbols that are labels in a real segment
        self.pad = 0         # pad bytes the statement put in front of its object (PADDING)
        self.trace = []      # (kind, segid, gran, load address, phase offset, bytes | number of bytes reserved)


class Model:
    def __init__(self, cpus):
        self.limits = limits_for(cpus)
        self.cpu = None
        self.seg = "code"
        self.pc = {"code": 0}          # load counters; None = value not documented (needs ORG first)
        self.ph = {"code": 0}          # phase offsets
        self.phst = {"code": []}       # phase stacks
        self.save = []
        self.liston = 1
        self.frames = []               # open structure definitions, outermost first
        self.structs = {}              # finished definitions: name -> dict(tot, elems, ext)
        self.nstat = 0
        self.padding = None            # PADDING flag (None: not documented at this point), 680x0 only
        self.seen68k = False

    # ------------------------------------------------------------------ queries (used by the generator)
    @property
    def t(self):
        return TARGETS[self.cpu]

    def in_struct(self):
        return bool(self.frames)

    def gran(self):
        return self.t["segs"][self.seg][0]

    def limit(self):
        return self.limits[self.seg]

    def load(self):
        return self.pc[self.seg]

    def phase(self):
        return self.ph[self.seg]

    def depth(self):
        return len(self.phst[self.seg])

    def here(self):
        """what `$` / a label reads now"""
        if self.frames:
            f = self.frames[-1]
            return 0 if f["union"] else f["pc"]
        if self.pc[self.seg] is None:
            return None
        return self.pc[self.seg] + self.ph[self.seg]

    def room(self):
        """units that may still be laid down / reserved so that load and execution address stay in range"""
        if self.frames:
            return 1 << 20
        if self.pc[self.seg] is None:
            return 0
        return self.limit() - max(self.pc[self.seg], self.here())

    def low(self):
        if self.pc[self.seg] is None:
            return 0
        return min(self.pc[self.seg], self.here())

    def named_frame(self):
        for f in reversed(self.frames):
            if f["name"]:
                return f
        return None

    # ------------------------------------------------------------------ helpers
    def _need_real(self, what):
        if self.frames:
            raise ModelError("%s inside a structure definition is excluded" % what)

    def _need_pc(self):
        if self.pc[self.seg] is None:
            raise ModelError("counter of %s has no documented value yet" % self.seg)

    def _advance(self, n, e=None):
        """n address units are laid down or (e given) reserved by the current statement"""
        if n < 0:
            raise ModelError("negative advance")
        if self.frames:
            f = self.frames[-1]
            if f["union"]:
                f["tot"] = max(f["tot"], n)
            else:
                f["pc"] += n
            return
        self._need_pc()
        if n > self.room():
            raise ModelError("leaves the documented address range")
        if e is not None and n > 0:
            e.trace.append(("reserve", SEGID[self.seg], self.gran(), self.pc[self.seg], self.ph[self.seg],
                            n * self.gran()))
        self.pc[self.seg] += n

    def _emit(self, e, units):
        """units: list of unit values laid down at the load address"""
        self._need_real("code")
        self._need_pc()
        g = self.gran()
        key = (self.t["hid"], SEGID[self.seg], g)
        a = self.pc[self.seg]
        if units:
            e.starts.append(key + (a,))
        data = bytearray()
        for i, v in enumerate(units):
            for k in range(g):
                e.emits.append((key, (a + i) * g + k, (v >> (8 * k)) & 0xff))
                data.append((v >> (8 * k)) & 0xff)
        if units:
            e.trace.append(("code", SEGID[self.seg], g, a, self.ph[self.seg], bytes(data)))
        self._advance(len(units))

    def _pad(self, e, emit):
        """PADDING: 'If ... a data object of 16 bits or more ... would be stored on an odd address, a padding
        byte is automatically inserted before.'  The byte's value is not documented (None = any)."""
        if self.t["fam"] != "moto":
            return
        if self.frames:
            f = self.frames[-1]
            if f["absodd"]:
                # asl decides by the offset inside the inner structure, the manual speaks of "an odd address"
                if self.padding is not False:
                    raise ModelError("16-bit objects in an inner structure that starts at an odd offset are "
                                     "excluded while PADDING is on")
                return
            if self._cur(f) % 2 == 0:
                return
            if self.padding is None:
                raise ModelError("PADDING state not documented here")
            if not self.padding:
                return
            f["pc"] += 1
            e.pad = 1
            return
        self._need_pc()
        if self.here() % 2 == 0:
            return
        if self.padding is None:
            raise ModelError("PADDING state not documented here")
        if not self.padding:
            return
        if self.ph[self.seg] % 2:
            raise ModelError("padding with an odd phase offset is excluded (load and execution parity differ)")
        if self.room() < 1:
            raise ModelError("leaves the documented address range")
        key = (self.t["hid"], SEGID[self.seg], 1)
        a = self.pc[self.seg]
        if emit:
            e.starts.append(key + (a,))
            e.emits.append((key, a, None))
            e.trace.append(("code", SEGID[self.seg], 1, a, self.ph[self.seg], None))
        else:
            e.trace.append(("reserve", SEGID[self.seg], 1, a, self.ph[self.seg], 1))
        self.pc[self.seg] += 1
        e.pad = 1

    def op_padding(self, op, e):
        if self.cpu != "68000":
            raise ModelError("PADDING is only generated for the 68000")
        e.lines.append("\tpadding %s" % ("on" if op["on"] else "off"))
        self.padding = bool(op["on"])

    def _cpu_selected(self, old):
        """'PADDING is by default only enabled for the 680x0 family': ON when the 68000 is selected first; whether
        selecting it again re-applies the default is not documented"""
        if self.cpu == "68000":
            if self.padding is False or (self.padding is None and self.seen68k):
                self.padding = None
            else:
                self.padding = True
            self.seen68k = True

    def _stmt_label(self, op, e):
        """optional label on a data / reservation statement outside structures: reads the program counter
        in front of the statement and carries the active segment as attribute"""
        lab = op.get("label")
        if not lab:
            return "\t"
        if self.frames:
            raise ModelError("statement labels inside structures are fields")
        self._need_pc()
        e.syms.append((lab, self.here()))
        e.labels[lab] = SEGLETTER[self.seg]
        return lab + ("\t" if op.get("nocolon") else ":\t")

    def _pcrel(self, op, target):
        """render an address argument either as a decimal literal or relative to the PC symbol"""
        if op.get("rel") and self.here() is not None:
            k = target - self.here()
            return "%s%s%d" % (self.t["pcsym"], "+" if k >= 0 else "-", abs(k))
        return "%d" % target

    # ------------------------------------------------------------------ statements
    def apply(self, op):
        e = Effect()
        k = op["k"]
        getattr(self, "op_" + k)(op, e)
        self.nstat += 1
        return e

    def op_cpu(self, op, e):
        self._need_real("CPU")
        c = op["c"]
        if c not in TARGETS:
            raise ModelError("cpu")
        e.lines.append("\tcpu %s" % TARGETS[c]["cpu"])
        old = self.cpu
        self.cpu = c
        self._cpu_selected(old)
        # "The assembler implicitly switches back to the CODE segment when a CPU instruction is executed."
        self.seg = "code"

    def op_seg(self, op, e):
        self._need_real("SEGMENT")
        s = op["s"]
        if s not in self.t["segs"]:
            raise ModelError("segment %s not on %s" % (s, self.cpu))
        e.lines.append("\tsegment %s" % s)
        self.seg = s
        if s not in self.pc:
            self.pc[s] = self.t["segs"][s][1]
            self.ph[s] = 0
            self.phst[s] = []

    def op_org(self, op, e):
        self._need_real("ORG")
        if self.ph[self.seg] != 0:
            raise ModelError("ORG with a non-zero phase offset is excluded")
        a = op["a"]
        if not 0 <= a <= self.limit():
            raise ModelError("ORG outside the documented range")
        e.lines.append("\torg %s" % self._pcrel(op, a))
        self.pc[self.seg] = a

    def op_rorg(self, op, e):
        self._need_real("RORG")
        self._need_pc()
        d = op["d"]
        if d > self.room() or -d > self.low():
            raise ModelError("RORG leaves the range")
        e.lines.append("\trorg %d" % d)
        self.pc[self.seg] += d

    def op_align(self, op, e):
        n = op["n"]
        fill = op.get("fill")
        if not 1 <= n <= 32767:
            raise ModelError("ALIGN argument")
        if self.frames:
            if fill is not None:
                raise ModelError("no code in structures")
            here = self.here()
        else:
            self._need_pc()
            # under PHASE the program counter the program sees ($, labels) is the execution address: that is
            # what ALIGN brings to a multiple of n (manual: "aligns the program counter"; changelog 1.42 Bld 133:
            # "ALIGN uses execution instead of load address as base")
            here = self.here()
        gap = -here % n
        if fill is None:
            e.lines.append("\talign %d" % n)
            self._advance(gap, e)
        else:
            if not -128 <= fill <= 255:
                raise ModelError("fill")
            if gap * self.gran() > 16000:
                raise ModelError("fill area too long for one statement")
            e.lines.append("\talign %d,%d" % (n, fill))
            g = self.gran()
            b = fill & 0xff
            self._emit(e, [sum(b << (8 * i) for i in range(g))] * gap)

    def op_res(self, op, e):
        fam = self.t["fam"]
        n = op["n"]
        if n < 1:
            raise ModelError("n")
        tab = RES_TABLES[fam]
        if op["form"] not in tab:
            raise ModelError("reservation form %s not available" % op["form"])
        if fam == "moto" and op["form"] != "ds.b":
            self._pad(e, False)
        if op["form"] in ("ds.w0", "ds.l0"):
            size = 2 if op["form"] == "ds.w0" else 4
            here = self.here()
            if not self.frames and self.ph[self.seg] % size:
                raise ModelError("alignment with a phase offset that is no multiple of the size is excluded")
            units = -here % size
        else:
            units = res_units(fam, op["form"], n)
        text = tab[op["form"]][0](n)
        name = op.get("name")
        if name:
            if not self.frames:
                raise ModelError("labelled reservations are only used as structure fields")
            self._field_symbol(name, e)
            e.lines.append("%s%s\t%s" % (name, ":" if op.get("colon") else "", text))
        else:
            e.lines.append("%s%s" % (self._stmt_label(op, e), text))
        self._advance(units, e)

    def op_mark(self, op, e):
        """a line holding only a label inside a structure definition: a field of length 0"""
        if not self.frames:
            raise ModelError("mark outside structure")
        self._field_symbol(op["name"], e)
        e.lines.append("%s:" % op["name"])

    def op_emit(self, op, e):
        self._need_real("code")
        fam = self.t["fam"]
        g = self.gran()
        w = op["w"]
        n = op["n"]
        v0 = op["v"]
        if fam == "moto":
            if w not in (1, 2, 4):
                raise ModelError("w")
            if w > 1:
                self._pad(e, True)
            vals = [(v0 * 0x01010101 + 0x01020305 * i) & ((1 << (8 * w)) - 1) for i in range(n)]
            e.lines.append("%sdc.%s %s" % (self._stmt_label(op, e), {1: "b", 2: "w", 4: "l"}[w],
                                           ",".join(str(v) for v in vals)))
            # big endian
            self._emit(e, [(v >> (8 * (w - 1 - k))) & 0xff for v in vals for k in range(w)])
        elif fam == "ti":
            if w != 1:
                raise ModelError("w")
            vals = [(v0 * 0x01010101 + 0x10203 * i) & 0xffffffff for i in range(n)]
            e.lines.append("%sword %s" % (self._stmt_label(op, e), ",".join(str(v) for v in vals)))
            self._emit(e, vals)
        elif fam == "pic":
            if w != 1:
                raise ModelError("w")
            mask = 0x3fff if g == 2 else 0xff
            vals = [(v0 + 7 * i) & mask for i in range(n)]
            e.lines.append("%sdata %s" % (self._stmt_label(op, e), ",".join(str(v) for v in vals)))
            self._emit(e, vals)
        else:
            if w == 1:
                vals = [(v0 + 7 * i) & 0xff for i in range(n)]
                e.lines.append("%sdb %s" % (self._stmt_label(op, e), ",".join(str(v) for v in vals)))
                self._emit(e, vals)
            elif w == 2:
                vals = [(v0 * 257 + 259 * i) & 0xffff for i in range(n)]
                e.lines.append("%sdw %s" % (self._stmt_label(op, e), ",".join(str(v) for v in vals)))
                # "BIGENDIAN OFF (the default) puts the LSB first into memory"
                self._emit(e, [b for v in vals for b in (v & 0xff, v >> 8)])
            else:
                raise ModelError("w")

    def op_phase(self, op, e):
        self._need_real("PHASE")
        self._need_pc()
        a = op["a"]
        if not 0 <= a <= self.limit():
            raise ModelError("PHASE outside the range")
        e.lines.append("\tphase %s" % self._pcrel(op, a))
        self.phst[self.seg].append(self.ph[self.seg])
        self.ph[self.seg] = a - self.pc[self.seg]

    def op_dephase(self, op, e):
        self._need_real("DEPHASE")
        e.lines.append("\tdephase")
        st = self.phst[self.seg]
        # "this shifting is reverted to the value previous to the most recent PHASE instruction"; with no
        # PHASE outstanding the offset is the initial one, 0
        self.ph[self.seg] = st.pop() if st else 0
        if self.pc[self.seg] is not None and not 0 <= self.here() <= self.limit():
            raise ModelError("execution address leaves the range")

    def op_save(self, op, e):
        self._need_real("SAVE")
        e.lines.append("\tsave")
        self.save.append((self.cpu, self.seg, self.liston))

    def op_restore(self, op, e):
        self._need_real("RESTORE")
        if not self.save:
            raise ModelError("RESTORE on an empty stack is an error")
        e.lines.append("\trestore")
        old = self.cpu
        self.cpu, self.seg, self.liston = self.save.pop()
        if self.cpu != old:
            self._cpu_selected(old)

    def op_listing(self, op, e):
        e.lines.append("\tlisting %s" % ("on" if op["on"] else "off"))
        self.liston = 1 if op["on"] else 0

    # ------------------------------------------------------------------ structures
    def _cur(self, f):
        return 0 if f["union"] else f["pc"]

    def _field_symbol(self, name, e, extra=()):
        """a label inside a structure definition: symbol <named struct><ext><name> = offset from the start of
        the outermost structure; element of the innermost named structure at its offset in that structure"""
        f = self.frames[-1]
        nf = self.named_frame()
        e.syms.append((nf["path"] + nf["ext"] + name, f["abs"] + self._cur(f)))
        nf["elems"].append((name, f["rel"] + self._cur(f)))
        for rel, off in extra:
            e.syms.append((nf["path"] + nf["ext"] + name + nf["ext"] + rel, f["abs"] + self._cur(f) + off))
            nf["elems"].append((name + nf["ext"] + rel, f["rel"] + self._cur(f) + off))

    def op_struct(self, op, e):
        name = op.get("name")
        union = bool(op.get("union"))
        dots = bool(op.get("dots"))
        kw = "union" if union else op.get("kw", "struct")
        parent = self.frames[-1] if self.frames else None
        nf = self.named_frame()
        if name is None and nf is None:
            raise ModelError("a nameless structure must be inside a named one")
        if name and (name in self.structs or any(f["name"] == name for f in self.frames)):
            raise ModelError("structure name in use")
        if not parent:
            if self.pc[self.seg] is None:
                raise ModelError("segment counter undefined")
        if parent:
            dots = parent["ext"] == "."
        ext = "." if dots else "_"
        f = dict(name=name, union=union, pc=0, tot=0, ext=ext, elems=[], kw=kw,
                 abs=(parent["abs"] + self._cur(parent)) if parent else 0)
        f["absodd"] = bool(f["abs"] % 2)
        if name:
            f["rel"] = 0
            if nf:
                f["path"] = nf["path"] + nf["ext"] + name
                # the inner structure is an element of the enclosing named structure ...
                e.syms.append((f["path"], f["abs"]))
                f["off_in_named"] = parent["rel"] + self._cur(parent)
                nf["elems"].append((name, f["off_in_named"]))
            else:
                f["path"] = name
        else:
            f["rel"] = parent["rel"] + self._cur(parent)
        # DOTS is an argument of each STRUCT statement: inner named structures of a dotted one repeat it
        args = " dots" if (dots and name) else ""
        e.lines.append("%s\t%s%s" % (name or "", kw, args))
        self.frames.append(f)

    def op_ends(self, op, e):
        if not self.frames:
            raise ModelError("no open structure")
        f = self.frames.pop()
        if f["union"]:
            kw = op.get("kw", "endunion")
            if kw not in ("endunion", "endstruct", "ends", "endstruc"):
                raise ModelError("kw")
        else:
            kw = op.get("kw", "endstruct")
            if kw not in ("endstruct", "ends", "endstruc"):
                raise ModelError("kw")
        lab = f["name"] if (f["name"] and op.get("lab")) else ""
        e.lines.append("%s\t%s" % (lab, kw))
        tot = max(f["tot"], f["pc"])
        if f["name"]:
            # "AS also defines a further symbol with the structure's overall length ... LEN"
            e.syms.append((f["path"] + f["ext"] + "len", tot))
            nf = self.named_frame()
            if nf:
                for rel, off in f["elems"]:
                    nf["elems"].append((f["name"] + nf["ext"] + rel, f["off_in_named"] + off))
            else:
                self.structs[f["name"]] = dict(tot=tot, elems=list(f["elems"]), ext=f["ext"])
        if self.frames:
            self._advance(tot)

    def op_inst(self, op, e):
        s = self.structs.get(op["s"])
        if s is None:
            raise ModelError("unknown structure")
        lab = op["lab"]
        dims = op.get("dims") or []
        if len(dims) > 3 or any(d < 1 for d in dims):
            raise ModelError("dims")
        count = 1
        for d in dims:
            count *= d
        text = "%s\t%s%s" % (lab, op["s"], (" " + ",".join("[%d]" % d for d in dims)) if dims else "")
        if self.frames:
            if s["ext"] == "." or self.frames[-1]["ext"] == ".":
                raise ModelError("mixed separators are not generated")
            self._field_symbol(lab, e, extra=s["elems"] if not dims else ())
        else:
            self._need_pc()
            if s["tot"] * count > self.room():
                raise ModelError("instance leaves the range")
            base = self.here()
            e.syms.append((lab, base))
            e.labels[lab] = SEGLETTER[self.seg]
            if not dims:
                for rel, off in s["elems"]:
                    e.syms.append((lab + s["ext"] + rel, base + off))
                    e.labels[lab + s["ext"] + rel] = SEGLETTER[self.seg]
        e.lines.append(text)
        self._advance(s["tot"] * count, e)
