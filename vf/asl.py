"""Helpers to run the assembler on generated sources."""
import os, re
from . import run, pfile

INCLUDE_DIR = os.path.join(os.environ.get("VERIF_REPO", "/repo"), "include")


class AsmResult:
    def __init__(self, r, p, files):
        self.r = r                 # run.Result
        self.status = r.status
        self.signal = r.signal
        self.timed_out = r.timed_out
        self.out = r.out
        self.err = r.err
        self.p = p                 # bytes of the code file or None
        self.files = files         # {name: bytes|None} for the extra files requested

    def records(self, strict=True):
        return pfile.parse(self.p, strict=strict)

    def bytemap(self, seg=None):
        """{(seg, byte address): byte} of the code file (strictly parsed); raises pfile.FormatError"""
        m, dup = pfile.bytemap(self.records(), seg)
        return m

    def brief(self, n=600):
        return dict(status=self.status, signal=self.signal, stdout=self.out[-n:], stderr=self.err[-n:])


def assemble(files, main="t.asm", args=(), env=None, flavour="plain", want=(), timeout=30.0, cpu=20,
             workdir=None, out="t.p", quiet=True):
    """files: {name: str|bytes}.  Runs `asl [-q] <args> <main> -o t.p` (options that take an optional
    argument must not be last before the file name - they are placed by the caller in args).
    Diagnostics go to stderr by default; pass args like ('-E','!1') to redirect."""
    def go(d):
        run.write_files(d, files)
        argv = ["asl"] + (["-q"] if quiet else []) + list(args) + [main]
        if out:
            argv += ["-o", out]
        r = run.run(argv, d, flavour=flavour, env=env, timeout=timeout, cpu=cpu)
        p = run.read(d, out) if out else None
        extra = {w: run.read(d, w) for w in want}
        return AsmResult(r, p, extra)
    if workdir:
        return go(workdir)
    with run.Work("asl") as d:
        return go(d)


NATIVE_RE = re.compile(
    r"^> > > (?P<file>[^\s(]+)\((?P<line>\d+)\)(?P<ctx>(?: [^:(]+\(\d+\))*)(?::(?P<col>\d+))?: "
    r"(?P<kind>error|warning)(?: #(?P<num>\d+))?: (?P<msg>.*)$", re.M)
GNU_RE = re.compile(
    r"^(?P<file>[^\s:]+):(?P<line>\d+)(?::(?P<col>\d+))?(?P<ctx>)(?: #(?P<enum>\d+))?: "
    r"(?:(?P<kind>warning)(?: #(?P<wnum>\d+))?: )?(?P<msg>.*)$", re.M)


def diagnostics(text, gnu=False):
    """parse diagnostics: list of dict(file,line,kind,num,ctx,col,msg); ctx = [(construct, body line)]"""
    out = []
    if gnu:
        for m in GNU_RE.finditer(text):
            if m.group("file") == "In":
                continue
            num = m.group("enum") or m.group("wnum")
            out.append(dict(file=m.group("file"), line=int(m.group("line")), kind=m.group("kind") or "error",
                            num=int(num) if num else None, ctx=[], col=m.group("col"), msg=m.group("msg")))
        return out
    for m in NATIVE_RE.finditer(text):
        ctx = re.findall(r" ([^:(]+)\((\d+)\)", m.group("ctx") or "")
        out.append(dict(file=m.group("file"), line=int(m.group("line")), kind=m.group("kind"),
                        num=int(m.group("num")) if m.group("num") else None,
                        ctx=[(a, int(b)) for a, b in ctx], col=m.group("col"), msg=m.group("msg")))
    return out
