"""Meaning-preserving source rewrites (C16) based on a conservative line lexer.

The lexer only "understands" a line when it has exactly the shape
    [label[:]] [mnemonic[.attr] [arguments]] [; comment]
with a plain identifier as label in column 1 and a plain mnemonic; everything else is left untouched.
"""
import re

LABEL_RE = re.compile(r"^[A-Za-z_][A-Za-z0-9_]*:?$")
MNEMO_RE = re.compile(r"^[A-Za-z][A-Za-z0-9]*([:./][A-Za-z0-9]+)*$")
WS = " \t"
END_RE = re.compile(r"^[ \t]+END\b[^\n]*(\n|$)", re.I | re.M)
# mnemonics after which a colon may be added to / removed from a column-1 label without the label being
# the *name operand* of the statement (EQU, SET, MACRO, STRUCT, ... take their name from the label field)
COLON_OK = {"NOP", "DB", "DW", "DD", "DC.B", "DC.W", "DC.L", "DS.B", "DS.W", "DS.L", "BYT", "FCB", "FDB", "FCC",
            "RMB", "DS"}


class Line:
    __slots__ = ("raw", "ok", "label", "sep1", "mnemo", "sep2", "args", "comment", "quote", "lead", "cont")


# a statement whose apostrophes all follow a one- or two-letter register name and end the operand
PRIME_ONLY = re.compile(r"^(?:[^']|(?<![A-Za-z0-9_])[A-Za-z]{1,2}'(?=[ \t,]|$))*$")


def lex(raw, prev_cont=False):
    ln = Line()
    ln.raw = raw
    ln.ok = False
    ln.cont = raw.rstrip().endswith("\\")
    ln.quote = ("'" in raw) or ('"' in raw)
    if ln.quote and '"' not in raw:
        # the only apostrophes are primes of register names (AF', BC', HL' ...): no string or character constant
        code_part, _, cmt_part = raw.partition(";")
        if "'" not in cmt_part and PRIME_ONLY.match(code_part):
            ln.quote = False
    ln.label = ln.mnemo = ln.args = ln.comment = ""
    ln.sep1 = ln.sep2 = ln.lead = ""
    if prev_cont or ln.cont:
        return ln
    if any(ord(c) < 32 and c != "\t" for c in raw) or any(ord(c) > 126 for c in raw):
        return ln
    code = raw
    if ";" in raw:
        if ln.quote:
            i = raw.index(";")
            if "'" in raw[:i] or '"' in raw[:i]:
                return ln            # cannot tell whether the ';' is inside a string
            code, ln.comment = raw[:i], raw[i:]
        else:
            i = raw.index(";")
            code, ln.comment = raw[:i], raw[i:]
    m = re.match(r"^(\S*)([ \t]*)(\S*)([ \t]*)(.*?)([ \t]*)$", code)
    if not m:
        return ln
    label, sep1, mnemo, sep2, args, trail = m.groups()
    if label and not LABEL_RE.match(label):
        return ln
    if not label and not sep1 and (mnemo or args):
        return ln
    if mnemo and not MNEMO_RE.match(mnemo):
        return ln
    if mnemo.endswith(":"):
        return ln
    if args and not mnemo:
        return ln
    ln.label, ln.sep1, ln.mnemo, ln.sep2, ln.args = label, sep1, mnemo, sep2, args
    ln.lead = trail
    ln.ok = True
    return ln


def build(ln):
    if not ln.ok:
        return ln.raw
    s = ln.label + ln.sep1 + ln.mnemo
    if ln.args:
        s += ln.sep2 + ln.args
    if ln.comment:
        s += (ln.lead or " ") + ln.comment if (ln.label or ln.mnemo) else ln.sep1 + ln.comment
    return s


def recase(s, mode):
    if mode == 0:
        return s.upper()
    if mode == 1:
        return s.lower()
    if mode == 2:
        return s.swapcase()
    return "".join(c.upper() if i % 2 else c.lower() for i, c in enumerate(s))


SEPS = [" ", "\t", "  ", " \t", "\t\t", "   \t "]


def apply(src, edits, flags):
    """src: str (latin-1 decoded).  edits: list of [kind, stride, phase, param];
    flags: dict(crlf, include, macro).  returns (files dict relative to main, main text, stats)"""
    had_crlf = "\r\n" in src
    raw_lines = src.replace("\r\n", "\n").split("\n")
    if raw_lines and raw_lines[-1] == "":
        raw_lines.pop()
        trailing_nl = True
    else:
        trailing_nl = False
    lines = []
    prev = False
    for r in raw_lines:
        ln = lex(r, prev)
        prev = ln.cont
        lines.append(ln)
    stats = dict(total=len(lines), understood=sum(1 for l in lines if l.ok), changed=0, kinds=set())
    labels = sorted({l.label.rstrip(":") for l in lines if l.ok and l.label})
    inserts = {}
    changed = set()
    for kind, stride, phase, param in edits:
        stride = max(1, stride)
        if kind == "symcaseall":
            # every label name is re-spelled (upper / lower / swapped, chosen per name) on the selected lines only,
            # so that definitions, uses and closing statements of one name differ in letter case
            names = [n for n in labels if len(n) >= 2 and n.upper() != n.lower()]
            if not names:
                continue
            table = {}
            for n in names:
                new = recase(n, (param + sum(map(ord, n))) % 3)
                if new == n:
                    new = recase(n, 2)
                table[n] = new
            pat = re.compile(r"(?<![A-Za-z0-9_.$@?\\{])(" + "|".join(re.escape(n) for n in sorted(names, key=len, reverse=True))
                             + r")(?![A-Za-z0-9_.$@?}])")
            for i, l in enumerate(lines):
                if not l.ok or l.quote or i % stride != phase % stride:
                    continue
                nl, na = pat.sub(lambda m: table[m.group(1)], l.label), pat.sub(lambda m: table[m.group(1)], l.args)
                if (nl, na) != (l.label, l.args):
                    l.label, l.args = nl, na
                    changed.add(i)
                    stats["kinds"].add(kind)
            continue
        if kind == "symcase":
            if not labels:
                continue
            name = labels[param % len(labels)]
            if len(name) < 2 or name.upper() == name.lower():
                continue
            new = recase(name, 2 if (param // 7) % 2 else 3)
            if new == name:
                continue
            pat = re.compile(r"(?<![A-Za-z0-9_.$@?\\{])" + re.escape(name) + r"(?![A-Za-z0-9_.$@?}])")
            for i, l in enumerate(lines):
                if not l.ok or l.quote or i % stride != phase % stride:
                    continue
                nl, na = pat.sub(new, l.label), pat.sub(new, l.args)
                if (nl, na) != (l.label, l.args):
                    l.label, l.args = nl, na
                    changed.add(i)
                    stats["kinds"].add(kind)
            continue
        for i, l in enumerate(lines):
            if i % stride != phase % stride:
                continue
            if kind == "blank":
                if i > 0 and lines[i - 1].cont:
                    continue
                inserts[i] = inserts.get(i, 0) + 1
                changed.add(i)
                stats["kinds"].add(kind)
                continue
            if not l.ok:
                continue
            if kind == "opcase" and l.mnemo:
                new = recase(l.mnemo, param % 4)
                if new != l.mnemo:
                    l.mnemo = new
                    changed.add(i)
                    stats["kinds"].add(kind)
            elif kind == "ws" and (l.label or l.mnemo):
                if l.mnemo:
                    l.sep1 = SEPS[(param + i) % len(SEPS)]
                if l.args:
                    l.sep2 = SEPS[(param + 3 * i + 1) % len(SEPS)]
                changed.add(i)
                stats["kinds"].add(kind)
            elif kind == "wsarg" and l.args and not l.quote and re.search(r"[ \t]", l.args.strip()):
                # white space inside the operand field (blank-separated sub-statements such as `rptz r6 rrcx r7`,
                # `op mov @a,non`, `[a1] add .l1 ...`): every run is replaced by another run of blanks and tabs
                k = [0]

                def other(m, k=k, i=i):
                    k[0] += 1
                    new = SEPS[(param + i + 2 * k[0]) % len(SEPS)]
                    return new if new != m.group(0) else SEPS[(param + i + 2 * k[0] + 1) % len(SEPS)]
                body = l.args.strip()
                l.args = l.args[:len(l.args) - len(l.args.lstrip())] + re.sub(r"[ \t]+", other, body) + \
                    l.args[len(l.args.rstrip()):]
                changed.add(i)
                stats["kinds"].add(kind)
            elif kind == "cmtadd" and not l.comment and not l.quote and (l.label or l.mnemo):
                l.comment = "; added %d" % i
                l.lead = SEPS[(param + i) % len(SEPS)]
                changed.add(i)
                stats["kinds"].add(kind)
            elif kind == "cmtdel" and l.comment and (l.label or l.mnemo):
                l.comment = ""
                changed.add(i)
                stats["kinds"].add(kind)
            elif kind == "colon" and l.label:
                if not l.mnemo or l.mnemo.upper() in COLON_OK:
                    if l.label.endswith(":"):
                        l.label = l.label[:-1]
                        if not l.mnemo and not l.comment:
                            pass
                    else:
                        l.label += ":"
                    if l.mnemo and not l.sep1:
                        l.sep1 = " "
                    changed.add(i)
                    stats["kinds"].add(kind)
    out = []
    for i, l in enumerate(lines):
        out += [""] * inserts.get(i, 0)
        out.append(build(l))
    stats["changed"] = len(changed)
    body = "\n".join(out) + ("\n" if trailing_nl or True else "")
    files = {}
    main = body
    tail = ""
    if flags.get("macro") or flags.get("include"):
        # an END statement and whatever follows it stay behind the wrapper (END inside the wrapper would end the
        # assembly before the ENDM / the rest of the including file is read, which is a different program text)
        m = END_RE.search(body)
        if m:
            body, tail = body[:m.start()], body[m.start():]
            main = body
    if flags.get("macro"):
        main = "wrapzz0\tmacro\n" + body + "\tendm\n\twrapzz0\n"
        stats["kinds"].add("macro")
    if flags.get("include"):
        files["wrapbody.inc"] = main
        main = "\tinclude \"wrapbody.inc\"\n"
        stats["kinds"].add("include")
    main += tail
    if flags.get("crlf"):
        main = main.replace("\n", "\r\n")
        files = {k: v.replace("\n", "\r\n") for k, v in files.items()}
        stats["kinds"].add("crlf")
    elif had_crlf:
        main = main.replace("\n", "\r\n")
    stats["kinds"] = sorted(stats["kinds"])
    return files, main, stats
