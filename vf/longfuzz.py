"""development aid: python3-vt -m vf.longfuzz <seconds> [seed]  - a long libFuzzer campaign over all targets; every
artifact is judged stand-alone by the C03 judge; findings are grouped by signature and saved under /tmp/longfuzz"""
import collections, os, sys, hashlib
from . import fuzzrun
sys.path.insert(0, os.path.dirname(os.path.dirname(os.path.abspath(__file__))))
from checks import c03_robust as c

secs = int(sys.argv[1])
seed = int(sys.argv[2]) if len(sys.argv) > 2 else 1
arts, stats = fuzzrun.campaign(seed, secs, workers_per_target=2, asl_workers=4, keep="/tmp/longfuzz/corpus")
print(stats, len(arts), "artifacts", flush=True)
os.makedirs("/tmp/longfuzz", exist_ok=True)
g = collections.defaultdict(list)
for tool, kind, data in arts:
    out = c.execute(dict(kind="fuzz", tool=tool, data=data.hex(), origin="x"))
    why = getattr(out, "why", None)
    if why and getattr(out, "status", "") != "inconclusive":
        sig = (out.detail or {}).get("sig") or why
        g[(tool, sig)].append(data)
for (tool, sig), ds in sorted(g.items(), key=lambda kv: -len(kv[1])):
    d = min(ds, key=len)
    name = "/tmp/longfuzz/%s-%s" % (tool, hashlib.sha1(d).hexdigest()[:10])
    open(name, "wb").write(d)
    print(len(ds), tool, sig, name, len(d), flush=True)
print("done")
