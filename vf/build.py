"""Rebuild /repo into /verif/build/<flavour> (cmake + ninja), picking up the current working tree.

flavours:
  plain : cc -DASL_VERIF (hooks on), optimised; used by all semantic checks
  asan  : clang -O1 -g -fsanitize=address,bounds -DASL_VERIF; used by C03 (judge) and as second witness
"""
import fcntl, os, subprocess, sys, time

REPO = os.environ.get("VERIF_REPO", "/repo")
ROOT = os.path.dirname(os.path.dirname(os.path.abspath(__file__)))
BUILD = os.environ.get("VERIF_BUILD") or os.path.join(ROOT, "build")

FLAVOURS = {
    "plain": dict(cc="gcc", cflags="-DASL_VERIF -w", ldflags=""),
    "asan": dict(cc="clang",
                 cflags="-DASL_VERIF -w -O1 -g -fno-omit-frame-pointer -fsanitize=address,bounds "
                        "-fno-sanitize-recover=bounds",
                 ldflags="-fsanitize=address,bounds"),
}
TOOLS = ["asl", "p2bin", "p2hex", "pbind", "plist", "alink", "dasl"]


def bdir(flavour):
    return os.path.join(BUILD, flavour)


def exe(flavour, tool):
    return os.path.join(bdir(flavour), tool)


def build(flavour, quiet=True):
    f = FLAVOURS[flavour]
    d = bdir(flavour)
    os.makedirs(d, exist_ok=True)
    lock = open(os.path.join(BUILD, ".lock-" + flavour), "w")
    fcntl.flock(lock, fcntl.LOCK_EX)
    try:
        t0 = time.time()
        env = dict(os.environ)
        env.pop("ASCMD", None)
        if not os.path.exists(os.path.join(d, "build.ninja")):
            cmd = ["cmake", "-G", "Ninja", "-S", REPO, "-B", d,
                   "-DCMAKE_C_COMPILER=" + f["cc"],
                   "-DCMAKE_BUILD_TYPE=Release",
                   "-DFORCE_COLORED_OUTPUT=FALSE",
                   "-DCMAKE_C_FLAGS=" + f["cflags"],
                   "-DCMAKE_EXE_LINKER_FLAGS=" + f["ldflags"]]
            r = subprocess.run(cmd, stdout=subprocess.PIPE, stderr=subprocess.STDOUT, env=env,
                               stdin=subprocess.DEVNULL)
            if r.returncode != 0:
                sys.stderr.write(r.stdout.decode(errors="replace"))
                raise SystemExit("BUILD-ERROR: cmake configure failed for %s" % flavour)
        # rescomp (a build-time generator run by ninja) must not be killed by leak reports
        env["ASAN_OPTIONS"] = "detect_leaks=0"
        r = subprocess.run(["cmake", "--build", d, "-j", "16"], stdout=subprocess.PIPE,
                           stderr=subprocess.STDOUT, env=env, stdin=subprocess.DEVNULL)
        if r.returncode != 0:
            sys.stderr.write(r.stdout.decode(errors="replace")[-6000:])
            raise SystemExit("BUILD-ERROR: build failed for %s" % flavour)
        for t in TOOLS:
            if not os.path.exists(exe(flavour, t)):
                raise SystemExit("BUILD-ERROR: %s missing in %s" % (t, d))
        if not quiet:
            print("built %s in %.1fs" % (flavour, time.time() - t0))
    finally:
        fcntl.flock(lock, fcntl.LOCK_UN)
        lock.close()
    return d


if __name__ == "__main__":
    which = [a for a in sys.argv[1:] if not a.startswith("-")]
    if "--all" in sys.argv or not which:
        which = list(FLAVOURS)
    os.makedirs(BUILD, exist_ok=True)
    for w in which:
        build(w, quiet=False)
