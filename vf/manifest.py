"""Regenerate /verif/MANIFEST.json from the check modules present (python3-vt -m vf.manifest)."""
import json, os, subprocess, sys
from . import engine

ROOT = engine.ROOT
ALL = ["C%02d" % i for i in range(1, 21)]


TECH = {
    "C01": "property-based testing (Hypothesis): generated multi-pass programs, marker-byte + mini-decoder oracle, pass-cycle hook, extra-pass differential",
    "C02": "property-based testing (Hypothesis): generated good/error/warning/fatal line mixes x options against a diagnostic-count model",
    "C03": "fuzzing: Hypothesis grammar/mutation generators on the ASan build + libFuzzer targets (in-process for the tools, fork-per-input with shared coverage counters for asl); sanitizer/signal/status/CPU-time judge",
    "C04": "property-based testing (Hypothesis): model-directed data programs, independent code-file reader + address model",
    "C05": "property-based testing (Hypothesis): synthetic code files x p2bin options against a reference image",
    "C06": "property-based testing (Hypothesis): synthetic code files x p2hex formats/options, independent hex decoders verifying checksums, round trip to the byte map",
    "C07": "property-based testing (Hypothesis): record-sequence conservation for pbind, table-grammar oracle for plist",
    "C08": "property-based testing (Hypothesis): typed expression trees in every notation against a reference evaluator (batched)",
    "C09": "property-based testing (Hypothesis): data statements x targets against reference encoders (int.to_bytes, struct, Fraction)",
    "C10": "property-based testing (Hypothesis): model-directed ORG/PHASE/SEGMENT/SAVE/STRUCT sequences against an address state machine",
    "C11": "property-based testing (Hypothesis): construct program vs generator-made hand expansion (differential on code files)",
    "C12": "property-based testing: exhaustive enumeration of small conditional skeletons + Hypothesis-sampled larger ones against a skeleton interpreter",
    "C13": "property-based testing (Hypothesis): section trees and reference forms against a scope resolver written from the manual",
    "C13": "property-based testing (Hypothesis): generated section trees / local scopes / temporaries / symbol stacks against an independent scope resolver (value run + one error run per fault class)",
    "C14": "property-based testing (Hypothesis) over complete instruction-form tables (91 ISA entries, ~22 700 forms) against independent reference encoders",
    "C15": "property-based testing (Hypothesis): round trip asl -> dasl -> asl on generated instruction streams",
    "C16": "property-based testing (Hypothesis): metamorphic spelling rewrites of the golden corpus anchored on the recorded .ori images",
    "C17": "property-based testing (Hypothesis): differential over report-option subsets / placement / language / cwd; idempotence of reports",
    "C18": "property-based testing (Hypothesis): multi-file runs vs single-file runs (differential), covering design over the corpus",
    "C19": "property-based testing (Hypothesis): independent listing/MAP/share parsers joined with the code file and the emission-trace hook",
    "C20": "property-based testing (Hypothesis): faults planted at known positions vs parsed diagnostic positions",
}


def main():
    props = {json.loads(l)["id"]: json.loads(l) for l in open(os.path.join(ROOT, "properties.jsonl"))}
    checks, na = [], []
    ready = set(open(os.path.join(ROOT, "checks", "READY.txt")).read().split())
    for cid in ALL:
        try:
            mod = engine.load_check(cid) if cid in ready else None
        except SystemExit:
            mod = None
        if mod is None or getattr(mod, "NOT_READY", False):
            na.append(dict(property_id=cid, reason="check not built yet in this round; planned with "
                           "property-based testing as described in DESIGN.md section 4 (%s)" % cid))
            continue
        checks.append(dict(
            property_id=cid,
            quick_cmd="./check %s --tier quick" % cid,
            thorough_cmd="./check %s --tier thorough" % cid,
            evidence_file="evidence/%s.json" % cid,
            replay_cmd_template="./check %s --replay {path}" % cid,
            engine=getattr(mod, "ENGINE", "hypothesis"),
            level_claimed=dict(category="exploration",
                               text=getattr(mod, "LEVEL_TEXT", "bounded generated search (Hypothesis, 16 shards) "
                                            "against an explicit independent oracle; no proof of absence"),
                               design_ref="DESIGN.md section 4, " + cid),
            level_note=getattr(mod, "LEVEL_NOTE", "trusted: the reference model in the check module, the "
                               "independent code-file reader vf/pfile.py, Python arithmetic; "
                               "binaries rebuilt from /repo's working tree with -DASL_VERIF"),
            technique=getattr(mod, "TECHNIQUE", TECH.get(cid, "property-based testing (Hypothesis) with a reference-model oracle")),
        ))
    hooks_commits = []
    hp = os.path.join(ROOT, "HOOK_COMMITS.txt")
    if os.path.exists(hp):
        hooks_commits = [l.split()[0] for l in open(hp) if l.strip() and not l.startswith("#")]
    man = dict(
        version=1,
        setup_cmd="python3-vt -m vf.build --all && python3-vt -m vf.fuzzbuild",
        hooks=dict(guard="ASL_VERIF",
                   enable="cmake -DCMAKE_C_FLAGS=-DASL_VERIF (done by vf/build.py for every flavour under /verif/build)",
                   baseline_off_cmd="cmake -G Ninja -S /repo -B /repo/_build && cmake --build /repo/_build && "
                                    "ctest --test-dir /repo/_build -j8 --timeout 900",
                   source_commits=hooks_commits, add_only=True),
        engines=[dict(name="hypothesis", path="vf/engine.py", serves_properties=[c["property_id"] for c in checks],
                      kind_free_text="Hypothesis 6.168 strategies (model-directed program generators), 16 seeded "
                                     "shards, shrinking, 3x replay outside the library before a VIOLATION is printed"),
                 dict(name="libfuzzer", path="fuzz/", serves_properties=["C03"],
                      kind_free_text="coverage-guided in-process fuzz targets for the tools; candidates are "
                                     "re-judged by the deterministic replay path")],
        checks=checks,
        notes="All checks: exit 0 = held on everything explored (KNOWN-FINDING lines for recorded findings), "
              "exit 1 + 'VIOLATION property=<id> replay=<path>', exit 2 = harness error. VERIF_SEED seeds every shard "
              "(absent/0 -> 20261001). Known findings: KNOWN_FINDINGS.txt.",
        not_applicable=na,
    )
    with open(os.path.join(ROOT, "MANIFEST.json"), "w") as f:
        json.dump(man, f, indent=1)
    import jsonschema
    jsonschema.validate(man, json.load(open("/root/.vp/MANIFEST.schema.json")))
    print("MANIFEST.json: %d checks, %d not_applicable" % (len(checks), len(na)))


if __name__ == "__main__":
    main()
