"""C12 reference model: conditional-assembly skeletons, their source rendering and an independent
interpreter written from doc/pseudo-instructions.md ("Conditional Assembly"), doc/assembler-usage.md
(operators, DEFINED, -D) and the MACRO/EXITM/INCLUDE sections.

A *program* is a list of items; every item owns one ORG slot (macro items: one slot per call).
An item body is a list of elements:

  leaf       {"t":"L","id":k, "df":"lab"|"equ"|"none", "use":j|None, "x":0|1 (EXITM after it),
              "po":p|None (poison statement, rendered only where the model proves the leaf skipped)}
  IF         {"t":"I","c":cond,"b":body,"ei":[{"e":expr,"b":body}..],"el":body|None}
  SWITCH     {"t":"S","sel":value,"pre":body|None,"cs":[{"v":[value..],"b":body}..],"el":body|None}
  INCLUDE    {"t":"N","b":body}            body lives in its own include file
  REPT 1     {"t":"R","b":body}            body repeated exactly once

  cond  = {"k":"if","e":expr} | {"k":"def","s":name,"n":0|1} | {"k":"used","s":name,"n":0|1}
        | {"k":"ex","f":form,"n":0|1} | {"k":"b","a":[arg..],"n":0|1}       arg = int (macro parameter) | str
  expr  = ["n",int] | ["s",const] | ["cmp",op,expr,expr] | ["and"|"or"|"xor",expr,expr] | ["not",expr]
        | ["add"|"sub",expr,expr] | ["def",name] | ["scmp",op,value,value]
  value = ["n",int] | ["s",const] | ["add"|"sub",value,value] | ["f","1.5"] | ["fadd","0.5","1.0"]
        | ["str","abc"] | ["cat","ab","c"]

Semantics implemented (each with the manual sentence it rests on):
  * IF ladder: "only one of the blocks will be assembled: the first one whose IF/ELSEIF had a true
    expression"; default branch "only gets assembled if all previous expressions evaluated to false".
  * SWITCH: "only one branch is executed, which is the first one in case of ambiguities"; ELSECASE "trap
    for the case that none of the CASE conditions was met"; "AS will issue a warning in case it is missing
    and all comparisons fail".
  * IFDEF "true if the given symbol has been defined. The definition has to appear before IFDEF";
    IFUSED "referenced at least once up to now"; IFEXIST "true if the given file exists" (INCLUDE's rules);
    IFB "true if all arguments of the parameter list are empty strings"; IFN.. counterparts.
  * statements of a branch that is not selected have no effect (no code, no symbol, no reference, no
    nested evaluation, no diagnostics); nested constructs in it are only paired.
  * EXITM: "the stack of open IF and SWITCH constructs is reset to the state it had just before the macro
    expansion started".
  * labels defined in a macro body are local to the expansion.
"""
from fractions import Fraction

# ------------------------------------------------------------------ targets

CPUS = {
    "z80": dict(db="db", pre=[], sw="switch", limit=0xff00),
    "8051": dict(db="db", pre=[], sw="switch", limit=0xff00),
    "6502": dict(db="byt", pre=[], sw="switch", limit=0xff00),
    "6809": dict(db="fcb", pre=[], sw="switch", limit=0xff00),
    "68000": dict(db="dc.b", pre=["padding off"], sw="switch", limit=0xffff00),
    "8086": dict(db="db", pre=[], sw="switch", limit=0xff00),
    "msp430": dict(db=".byte", pre=["padding off"], sw="switch", limit=0xff00),
    "msm5054": dict(db="data", pre=[], sw="select", limit=1000, unit=2),     # SWITCH is a machine instruction here
}
CPU_NAMES = list(CPUS)

CONSTS = {"K0": 0, "K1": 1, "K5": 5, "KM1": -1, "KBIG": 4294967296, "CLIA": 1, "CLIB": 5}
SCONSTS = {"STRA": "abc"}
FCONSTS = {"FLH": Fraction(3, 2)}
CLI_DEFS = "CLIA,CLIB=5"                 # passed as -D
USYMS = ["U0", "U1", "U2", "U3"]         # defined in the preamble, value 240+j, referenced only by "use" leaves
UNDEF = ["NIX", "NIXB"]                  # never defined
FILES_PRESENT = {"here.inc": " \n", "incd/deep.inc": " \n",   # incd is given with -i
                 "sub/sib.inc": " \n"}                          # next to the include files that live in sub/
# IFEXIST operand forms: (text, exists)
EXIST_FORMS = [("here.inc", True), ("\"here.inc\"", True), ("here", True), ("\"here\"", True),
               ("deep", True), ("\"deep.inc\"", True), ("incd/deep.inc", True),
               ("gone.inc", False), ("\"gone\"", False), ("gone", False), ("incd/gone.inc", False),
               ("here.xyz", False),
               # "primarily tries to open the file in the directory containing the source file with the statement":
               # a neighbour of the include files in sub/ exists only for statements standing in such a file
               ("sib.inc", "in-sub"), ("\"sib\"", "in-sub"), ("sib", "in-sub")]
POISON = [
    "\terror \"poison\"", "\tfatal \"poison\"", "\twarning \"poison\"", "\txyzzy 1,2", "\torg 3",
    "\tcpu nosuchcpu", "\tend", "\tinclude \"gone.inc\"", "K1\tequ 99", "\t{db} 1,2,3",
    "\tnosuchmacro a,b", "\tbinclude \"gone.bin\"", "\tsave", "\tendsection", "\t{db} nowhere+1", "\tphase 77",
    "\tPM", "\t{db} \"unterminated", "\tinclude \"poison.inc\"",
    # blocks: consumed as a whole in skipped text, conditional statements inside them stay invisible
    ["\trept 2", "\t{db} 249", "\tendm"],
    ["\trept 2", "\tif 1", "\t{db} 249", "\tendif", "\tendm"],
    ["\tirp PX,1,2", "\t{db} PX", "\tendm"],
    ["\twhile 1", "\t{db} 249", "\tendm"],
    ["PM\tmacro", "\t{db} 248", "\tendm"],
    ["PN\tmacro", "\tif 1", "\t{db} 248", "\tendif", "\tendm", "\tPN"],
]
# erroneous single-argument expressions; rendered only as conditions of constructs in skipped text
PCOND = ["nowhere+1", "1/0", "\"text\"", "3.5", "(5", "K1 K1", "undefd(3)", "NIX", "K1+"]
SENTINEL = 0xfe
PARAMS = ["QA", "QB", "QC", "QD"]
MAXLEAF = 119


class ModelError(Exception):
    pass


class ExitM(Exception):
    pass


# ------------------------------------------------------------------ expressions

def _cmp(op, a, b):
    return int({"==": a == b, "=": a == b, "<>": a != b, "!=": a != b, "<": a < b, ">": a > b,
                "<=": a <= b, ">=": a >= b}[op])


def ev_value(v, st=None):
    k = v[0]
    if k == "n":
        return int(v[1])
    if k == "p":
        if st is None or st.args is None:
            raise ModelError("loop parameter outside a loop")
        return int(st.args[0])
    if k == "s":
        n = v[1]
        if n in CONSTS:
            return CONSTS[n]
        if n in SCONSTS:
            return SCONSTS[n]
        if n in FCONSTS:
            return FCONSTS[n]
        raise ModelError("unknown constant " + n)
    if k in ("add", "sub"):
        a, b = ev_value(v[1], st), ev_value(v[2], st)
        if not (isinstance(a, int) and isinstance(b, int)):
            raise ModelError("add/sub of non-integers")
        return a + b if k == "add" else a - b
    if k == "f":
        return Fraction(v[1])
    if k == "fadd":
        return Fraction(v[1]) + Fraction(v[2])
    if k == "str":
        return v[1]
    if k == "cat":
        return v[1] + v[2]
    raise ModelError("bad value " + repr(v))


def ev_expr(e, st):
    k = e[0]
    if k in ("n", "s", "p", "add", "sub"):
        if k in ("add", "sub"):
            a, b = ev_expr(e[1], st), ev_expr(e[2], st)
            return a + b if k == "add" else a - b
        r = ev_value(e, st)
        if not isinstance(r, int):
            raise ModelError("non-integer atom in IF expression")
        return r
    if k == "cmp":
        return _cmp(e[1], ev_expr(e[2], st), ev_expr(e[3], st))
    if k == "and":
        return int(ev_expr(e[1], st) != 0 and ev_expr(e[2], st) != 0)
    if k == "or":
        return int(ev_expr(e[1], st) != 0 or ev_expr(e[2], st) != 0)
    if k == "xor":
        return int((ev_expr(e[1], st) != 0) != (ev_expr(e[2], st) != 0))
    if k == "not":
        return int(ev_expr(e[1], st) == 0)
    if k == "def":
        return int(st.is_defined(e[1]))
    if k == "scmp":
        a, b = ev_value(e[2]), ev_value(e[3])
        if type(a) is not type(b):
            raise ModelError("scmp of different types")
        return _cmp(e[1], a, b)
    raise ModelError("bad expr " + repr(e))


def _num(n):
    return str(n) if n >= 0 else "(%d)" % n


def tx_value(v):
    k = v[0]
    if k == "n":
        return _num(int(v[1]))
    if k == "p":
        return "QA"
    if k == "s":
        return v[1]
    if k in ("add", "sub"):
        return "(%s%s%s)" % (tx_value(v[1]), "+" if k == "add" else "-", tx_value(v[2]))
    if k == "f":
        return v[1] if not v[1].startswith("-") else "(%s)" % v[1]
    if k == "fadd":
        return "(%s+%s)" % (v[1], v[2])
    if k == "str":
        return '"%s"' % v[1]
    if k == "cat":
        return '("%s"+"%s")' % (v[1], v[2])
    raise ModelError("bad value " + repr(v))


def tx_expr(e):
    k = e[0]
    if k in ("n", "s", "p"):
        return tx_value(e)
    if k in ("add", "sub"):
        return "(%s%s%s)" % (tx_expr(e[1]), "+" if k == "add" else "-", tx_expr(e[2]))
    if k == "cmp":
        return "(%s%s%s)" % (tx_expr(e[2]), e[1], tx_expr(e[3]))
    if k in ("and", "or", "xor"):
        return "(%s%s%s)" % (tx_expr(e[1]), {"and": "&&", "or": "||", "xor": "!!"}[k], tx_expr(e[2]))
    if k == "not":
        return "(~~%s)" % tx_expr(e[1])
    if k == "def":
        return "defined(%s)" % e[1]
    if k == "scmp":
        return "(%s%s%s)" % (tx_value(e[2]), e[1], tx_value(e[3]))
    raise ModelError("bad expr " + repr(e))


# ------------------------------------------------------------------ walker (renderer + interpreter)

class Walker:
    """One walk renders source lines and/or interprets them (the same code path is used for both so
    that line numbers, activity and expectations cannot drift apart).  State = defined / used sets."""

    def __init__(self, cpu, style=0):
        self.cpu = cpu
        self.t = CPUS[cpu]
        self.style = style
        self.defined = set(CONSTS) | set(SCONSTS) | set(FCONSTS) | set(USYMS)
        self.local = None             # set of labels local to the running macro expansion
        self.used = set()
        self.files = {}               # include files produced
        self.main = []                # [dict(text, stack, act, role, node)]
        self.cur = self.main          # line sink
        self.cur_name = "t.asm"
        self.out = None               # current expected byte list
        self.warn = []                # [(file, line)] of ENDCASE statements that must warn
        self.wcount = 0
        self.stack = []               # open constructs: ["I", else_seen] / ["S", elsecase_seen]
        self.render = True
        self.interp = True
        self.cur_active = True
        self.args = None              # macro arguments of the running expansion
        self.live = set()             # leaf ids that were assembled at least once
        self.in_rept = 0
        self.in_sub = 0
        self.mdef = None              # marker of the LM<item> macro definition that took effect
        self.lc = 0
        self.ninc = 0
        self.item = 0
        self.stats = dict(nested_nonfirst=0, ifb_mixed=0, overlap=0, depth=0, taken=[], evals=0,
                          kinds=set(), poison=0, exitm=0, warn=0)

    # ---- state
    def is_defined(self, name):
        n = name.upper()
        return n in self.defined or (self.local is not None and n in self.local)

    # ---- text helpers
    def kw(self, w):
        s = (self.style + self.lc * 7) % 5
        self.lc += 1
        if s == 1:
            return w.upper()
        if s == 2:
            return w.capitalize()
        return w

    def emit(self, text, role=None, node=None):
        if not self.render:
            return
        self.cur.append(dict(text=text, stack=tuple(tuple(x) for x in self.stack), act=self.cur_active,
                             role=role, node=node, file=self.cur_name))

    def stmt(self, w, arg="", role=None, node=None):
        ind = "\t" if (self.style >> 3) % 3 else "  "
        com = ""
        if (self.style >> 7) % 2:
            # comments that look like conditional statements must stay comments
            c = (self.lc + self.style) % 7
            if c == 0:
                self.emit(";\tendif", None, None)
            elif c == 1:
                com = "\t; else"
            elif c == 2:
                com = " ;endcase"
        self.emit(ind + self.kw(w) + ((" " if (self.style >> 5) % 2 else "\t") + arg if arg != "" else "") + com,
                  role, node)

    def db(self, val):
        self.emit("\t%s\t%s" % (self.t["db"], val))

    # ---- conditions
    def cond_text(self, c):
        k = c["k"]
        neg = c.get("n", 0)
        if k == "if":
            return "if", tx_expr(c["e"])
        if k == "def":
            return ("ifndef" if neg else "ifdef"), c["s"]
        if k == "used":
            return ("ifnused" if neg else "ifused"), c["s"]
        if k == "ex":
            return ("ifnexist" if neg else "ifexist"), EXIST_FORMS[c["f"]][0]
        if k == "b":
            return ("ifnb" if neg else "ifb"), ",".join(PARAMS[a] if isinstance(a, int) else a for a in c["a"])
        raise ModelError("bad cond")

    def cond_truth(self, c):
        k = c["k"]
        neg = bool(c.get("n", 0))
        self.stats["evals"] += 1
        self.stats["kinds"].add(k + ("-neg" if neg else ""))
        if k == "if":
            return ev_expr(c["e"], self) != 0
        if k == "def":
            return self.is_defined(c["s"]) != neg
        if k == "used":
            return (c["s"].upper() in self.used) != neg
        if k == "ex":
            ex = EXIST_FORMS[c["f"]][1]
            if ex == "in-sub":
                ex = bool(self.in_sub)
                self.stats["kinds"].add("exist-relative-to-include-dir" if ex else "exist-not-from-main-dir")
            return ex != neg
        if k == "b":
            vals = []
            for a in c["a"]:
                if isinstance(a, int):
                    if self.args is None:
                        raise ModelError("macro parameter outside a macro")
                    vals.append(self.args[a] if a < len(self.args) else "")
                else:
                    vals.append(a)
            blank = all(v == "" for v in vals)
            if any(v == "" for v in vals) and not blank:
                self.stats["ifb_mixed"] += 1
                self.stats["kinds"].add("ifb-mixed")
            return blank != neg
        raise ModelError("bad cond")

    # ---- bodies
    def walk(self, body, active, depth=1):
        self.cur_active = active
        for el in body:
            t = el["t"]
            if t == "L":
                self.leaf(el, active)
            elif t == "I":
                self.do_if(el, active, depth)
            elif t == "S":
                self.do_switch(el, active, depth)
            elif t == "N":
                self.do_include(el, active, depth)
            elif t == "R":
                self.do_rept(el, active, depth)
            else:
                raise ModelError("bad element")
            self.cur_active = active

    def leaf(self, el, active):
        k = el["id"]
        sym = "S%d_%d" % (self.item, k)
        if self.render:
            self.db(str(k))
            if el.get("df", "lab") == "lab":
                self.emit(sym + ":")
            elif el["df"] == "equ":
                self.emit("%s\tequ\t%d" % (sym, k))
            if el.get("use") is not None:
                self.db(USYMS[el["use"]])
            if el.get("po") is not None:
                # poison only where the model proves that the leaf is never assembled: in a combined walk the
                # leaf is visited exactly once; a macro body is rendered after all its calls were interpreted
                dead = (not active) if self.interp else (k not in self.live)
                if dead:
                    po = POISON[el["po"] % len(POISON)]
                    for line in ([po] if isinstance(po, str) else po):
                        self.emit(line.replace("{db}", self.t["db"]))
                    self.stats["poison"] += 1
            if el.get("md") and self.interp and (not active or self.mdef is None):
                # every such leaf of an item defines the same macro LM<item> with its own marker; only a
                # definition in assembled text may take effect (and at most one is rendered there)
                self.emit("LM%d\tmacro" % self.item)
                self.stmt("if", "K1")
                self.db(str(k))
                self.stmt("endif")
                self.emit("\tendm")
                if active:
                    self.mdef = k
                self.stats["kinds"].add("macro-def-live" if active else "macro-def-skipped")
            if el.get("x"):
                self.stmt("exitm")
        if self.interp and active:
            self.live.add(k)
            self.out.append(k)
            self.stats["taken"].append(k)
            if el.get("df", "lab") != "none":
                (self.local if self.local is not None else self.defined).add(sym.upper())
            if el.get("use") is not None:
                self.out.append(240 + el["use"])
                self.used.add(USYMS[el["use"]])
            if el.get("x"):
                self.stats["exitm"] += 1
                raise ExitM()

    def do_if(self, n, active, depth):
        self.stats["depth"] = max(self.stats["depth"], depth)
        w, arg = self.cond_text(n["c"])
        dead = self.render and self.interp and not active      # combined walk: this text is never assembled
        if dead and n.get("pc") is not None:
            w, arg = "if", PCOND[n["pc"] % len(PCOND)]
            self.stats["kinds"].add("poison-cond")
        self.stmt(w, arg, "open", n)
        self.stack.append(["I", 0, bool(self.interp and active)])
        found = False
        take = bool(self.interp and active and self.cond_truth(n["c"]))
        found = take
        bi = 0
        self._branch(n["b"], take, depth, bi)
        for ei in n["ei"]:
            bi += 1
            # a condition that is never evaluated may be anything: in a skipped region, and behind a branch of this
            # construct that was already taken
            late = bool(self.render and self.interp and active and found)
            if late and ei.get("pc") is not None:
                self.stats["kinds"].add("poison-elseif-after-taken-branch")
            self.stmt("elseif", PCOND[ei["pc"] % len(PCOND)] if (dead or late) and ei.get("pc") is not None
                      else tx_expr(ei["e"]), "mid", n)
            take = False
            if self.interp and active and not found:
                self.stats["evals"] += 1
                self.stats["kinds"].add("elseif")
                take = ev_expr(ei["e"], self) != 0
            found = found or take
            self._branch(ei["b"], take, depth, bi)
        if n.get("el") is not None:
            bi += 1
            self.stmt("else" if (self.style >> 6) % 2 else "elseif", "", "mid", n)
            self.stack[-1][1] = 1
            self._branch(n["el"], bool(self.interp and active and not found), depth, bi)
        self.stmt("endif", "", "close", n)
        self.stack.pop()

    def _branch(self, body, take, depth, bi):
        if take and bi > 0 and depth >= 2:
            self.stats["nested_nonfirst"] += 1
        self.walk(body, take, depth + 1)

    def do_switch(self, n, active, depth):
        self.stats["depth"] = max(self.stats["depth"], depth)
        dead = self.render and self.interp and not active
        if dead and n.get("pc") is not None:
            self.stats["kinds"].add("poison-cond")
        self.stmt(self.t["sw"], PCOND[n["pc"] % len(PCOND)] if dead and n.get("pc") is not None
                  else tx_value(n["sel"]), "open", n)
        self.stack.append(["S", 0, bool(self.interp and active)])
        sel = None
        if self.interp and active:
            sel = ev_value(n["sel"], self)
            self.stats["evals"] += 1
            self.stats["kinds"].add("switch-" + type(sel).__name__)
        if n.get("pre") is not None:
            self.walk(n["pre"], bool(self.interp and active), depth + 1)
            self.stats["kinds"].add("pre-case")
        found = False
        bi = 0
        nmatch = 0
        for cs in n["cs"]:
            self.stmt("case", "nowhere,1/0,K1+" if dead and cs.get("pc") is not None
                      else ",".join(tx_value(v) for v in cs["v"]), "mid", n)
            take = False
            if self.interp and active:
                hit = False
                for v in cs["v"]:
                    x = ev_value(v, self)
                    if type(x) is type(sel) or (isinstance(x, Fraction) and isinstance(sel, Fraction)):
                        if x == sel:
                            hit = True
                    else:
                        raise ModelError("CASE value of another type than the selector")
                nmatch += hit
                take = hit and not found
                if len(cs["v"]) > 1:
                    self.stats["kinds"].add("case-list")
            found = found or take
            self._branch(cs["b"], take, depth, bi)
            bi += 1
        if nmatch > 1:
            self.stats["overlap"] += 1
            self.stats["kinds"].add("case-overlap")
        if n.get("el") is not None:
            self.stmt("elsecase", "", "mid", n)
            self.stack[-1][1] = 1
            self._branch(n["el"], bool(self.interp and active and not found), depth, bi)
        self.stmt("endcase", "", "close", n)
        if self.interp and active and not found and n.get("el") is None:
            self.wcount += 1
            self.stats["warn"] += 1
            if self.render and not self.in_rept:
                self.warn.append((self.cur_name, len(self.cur)))
        self.stack.pop()

    def do_include(self, n, active, depth):
        self.ninc += 1
        name = "i%d.inc" % self.ninc
        form = (self.style + self.ninc) % 3
        # every other include file lives in the directory sub/; an include file that is included from there lives
        # there too and is named relative to it
        save_sub = self.in_sub
        ref = name
        if self.in_sub:
            name = "sub/" + name
        elif (self.style + self.ninc) % 2:
            name = ref = "sub/" + name
            self.in_sub = 1
        self.stmt("include", [ref, '"%s"' % ref, ref[:-4]][form])
        save = (self.cur, self.cur_name, self.stack)
        save_rept = self.in_rept
        if self.render:
            self.cur, self.cur_name, self.stack = [], name, []
            # asl names positions in an included file from that file on (`i1.inc(7)`), also when the INCLUDE
            # statement itself stands in a REPT body: such a warning has a plain position again
            self.in_rept = 0
        try:
            self.walk(n["b"], active, depth)
        finally:
            self.in_rept = save_rept
            self.in_sub = save_sub
            if self.render:
                self.files[name] = "\n".join(l["text"] for l in self.cur) + "\n"
                self.cur, self.cur_name, self.stack = save

    def do_rept(self, n, active, depth):
        self.stmt("rept", "1")
        save = self.stack
        self.stack = []
        self.in_rept += 1
        try:
            self.walk(n["b"], active, depth)
        finally:
            self.in_rept -= 1
            self.stack = save
            self.stmt("endm")


def leaves_of(body, acc=None):
    acc = [] if acc is None else acc
    for el in body:
        t = el["t"]
        if t == "L":
            acc.append(el)
        elif t == "I":
            leaves_of(el["b"], acc)
            for ei in el["ei"]:
                leaves_of(ei["b"], acc)
            if el.get("el") is not None:
                leaves_of(el["el"], acc)
        elif t == "S":
            if el.get("pre") is not None:
                leaves_of(el["pre"], acc)
            for cs in el["cs"]:
                leaves_of(cs["b"], acc)
            if el.get("el") is not None:
                leaves_of(el["el"], acc)
        else:
            leaves_of(el["b"], acc)
    return acc


def shape_of(body):
    """structure string without the concrete conditions (for the distinctness key)"""
    s = []
    for el in body:
        t = el["t"]
        if t == "L":
            s.append("l")
        elif t == "I":
            s.append("I(" + shape_of(el["b"]) + "".join("|" + shape_of(e["b"]) for e in el["ei"])
                     + ("/" + shape_of(el["el"]) if el.get("el") is not None else "") + ")")
        elif t == "S":
            s.append("S(" + (shape_of(el["pre"]) + ":" if el.get("pre") is not None else "")
                     + "|".join(shape_of(c["b"]) for c in el["cs"])
                     + ("/" + shape_of(el["el"]) if el.get("el") is not None else "") + ")")
        else:
            s.append(t + "(" + shape_of(el["b"]) + ")")
    return "".join(s)


def item_size(item):
    """upper bound of the bytes one slot of this item can hold"""
    n = len(leaves_of(item["body"]))
    if item.get("loop"):
        lp = item["loop"]
        return 2 * n * (len(lp["vals"]) if lp["k"] == "irp" else lp["n"]) + 5
    return 3 * n + 8


def slot_size(item):
    return (item_size(item) + 15) // 16 * 16


HOP_CPUS = ["msm5054", "kenbak", "sx20", "ns32016", "87c00", "st6210", "atmega8", "96c141", "msm6051"]


class Program:
    """renders a whole program and computes the expectation"""

    def __init__(self, cpu, items, twopass=False, style=0, slot=None, nofiles=False):
        self.cpu = cpu
        self.items = items
        w = self.w = Walker(cpu, style)
        t = w.t
        self.expect = {}              # byte address -> byte (CODE segment)
        self.slots = []               # (item index, call index, base, expected bytes)
        if style % 4 == 1:
            # another target first: what it claims as machine instructions (SWITCH, PAGE, SET, SHIFT, SAVE ...) is
            # given back when the program's own target is selected
            w.emit("\tcpu\t" + HOP_CPUS[(style >> 2) % len(HOP_CPUS)])
        w.emit("\tcpu\t" + cpu)
        for p in t["pre"]:
            w.emit("\t" + p)
        for k, v in CONSTS.items():
            if not k.startswith("CLI"):
                w.emit("%s\tequ\t%d" % (k, v))
        w.emit("STRA\tequ\t\"abc\"")
        w.emit("FLH\tequ\t1.5")
        for j, u in enumerate(USYMS):
            w.emit("%s\tequ\t%d" % (u, 240 + j))
        w.emit("PM\tmacro")           # a macro that emits a byte: calling it in a skipped branch is poison
        w.emit("\t%s\t250" % t["db"])
        w.emit("\tendm")
        self.first_item_line = len(w.main)
        base = 0
        self.item_stats = []
        for idx, it in enumerate(items):
            w.item = idx
            w.style = style + 37 * idx + it.get("sty", 0)
            w.stats = dict(nested_nonfirst=0, ifb_mixed=0, overlap=0, depth=0, taken=[], evals=0,
                           kinds=set(), poison=0, exitm=0, warn=0)
            w.live = set()
            size = slot if slot else slot_size(it)
            if it.get("mac"):
                base = self._macro_item(idx, it, base, size)
            elif it.get("loop"):
                base = self._loop_item(idx, it, base, size)
            else:
                w.emit("\torg\t%d" % base)
                w.out = []
                w.render, w.interp = True, True
                w.mdef = None
                w.walk(it["body"], True)
                self._probes(idx, it, it.get("pf", 0))
                if w.mdef is not None:
                    w.emit("\tLM%d" % idx)
                    w.out.append(w.mdef)
                w.db(str(SENTINEL))
                w.out.append(SENTINEL)
                self._place(idx, 0, base, w.out)
                base += size
            self.item_stats.append(w.stats)
        if twopass:
            # a forward reference to a constant defined at the very end forces a second pass
            w.emit("\torg\t%d" % base)
            w.emit("\t%s\tFWDK" % t["db"])
            w.emit("FWDK\tequ\t7")
            self.expect[base] = 7
            base += 16
        self.top = base
        self.files = dict(w.files)
        if not nofiles:
            self.files.update(FILES_PRESENT)
        self.files["poison.inc"] = "\t%s\t251\n" % t["db"]
        self.lines = w.main
        self.files["t.asm"] = "\n".join(l["text"] for l in w.main) + "\n"
        self.warn_lines = list(w.warn)
        self.warn_count = w.wcount

    def _place(self, idx, call, base, out):
        self.slots.append((idx, call, base, list(out)))
        for i, b in enumerate(out):
            self.expect[base + i] = b

    def _probes(self, idx, it, pf):
        """after the construct: one IFDEF-style probe per symbol-defining leaf"""
        w = self.w
        for lf in leaves_of(it["body"]):
            if lf.get("df", "lab") == "none":
                continue
            k = lf["id"]
            sym = "S%d_%d" % (idx, k)
            form = (pf + k) % 4 if pf else 0
            defined = bool(w.interp and w.is_defined(sym))
            w.cur_active = True
            if form in (0, 3):
                w.stmt("ifdef", sym if form == 0 else sym.lower(), "open")
                w.stack.append(["I", 0, True])
                w.cur_active = defined
                w.db(str(128 + k))
            elif form == 1:
                w.stmt("ifndef", sym, "open")
                w.stack.append(["I", 0, True])
                w.cur_active = not defined
                w.stmt("else", "", "mid")
                w.stack[-1][1] = 1
                w.cur_active = defined
                w.db(str(128 + k))
            else:
                w.stmt("if", "defined(%s)" % sym, "open")
                w.stack.append(["I", 0, True])
                w.cur_active = defined
                w.db(str(128 + k))
            w.stmt("endif", "", "close")
            w.stack.pop()
            w.cur_active = True
            if defined:
                w.out.append(128 + k)

    # -- wrappers around a macro call / loop: [["I", truth], ["S", truth]...] (outermost first)
    def _wrap_open(self, wr, tag=""):
        """wrappers around a macro call / loop, outermost first: ["I", truth] = IF, ["S", truth] = SWITCH/CASE,
        ["M", 1] = an outer macro whose body is 'IF 1 / <call> / sentinel / ENDIF / sentinel' (innermost only)"""
        w = self.w
        act = True
        for ty, t in wr:
            w.cur_active = act
            if ty == "I":
                w.stmt("if", ["0", "1"][t] if (w.lc % 2) else ["K0", "(K5>1)"][t], "open")
                w.stack.append(["I", 0, act])
            elif ty == "S":
                w.stmt(w.t["sw"], "1", "open")
                w.stack.append(["S", 0, act])
                w.stmt("case", "1" if t else "2", "mid")
            else:
                w.emit("OW%s\tmacro" % tag)
                w.stmt("if", "K1")
            act = act and bool(t)
        w.cur_active = act
        return act

    def _wrap_close(self, wr, tag=""):
        w = self.w
        acts = [True]
        for ty, t in wr:
            acts.append(acts[-1] and bool(t))
        for i in range(len(wr) - 1, -1, -1):
            ty, t = wr[i]
            if ty == "I":
                w.stmt("endif", "", "close")
                w.stack.pop()
            elif ty == "S":
                w.stmt("elsecase", "", "mid")
                w.stack[-1][1] = 1
                w.cur_active = acts[i] and not t
                w.stmt("endcase", "", "close")
                w.stack.pop()
            else:
                w.stmt("endif")
                w.db(str(SENTINEL - 2))
                w.emit("\tendm")
                w.emit("\tOW%s" % tag)
            w.cur_active = acts[i]

    @staticmethod
    def _wrap_tail(wr):
        """sentinels assembled behind an executed call, inside the wrappers"""
        return [SENTINEL, SENTINEL - 2] if any(ty == "M" for ty, _ in wr) else [SENTINEL]

    def _macro_item(self, idx, it, base, size):
        w = self.w
        m = it["mac"]
        name = "MC%d" % idx
        wrs = m.get("wr") or [[] for _ in m["calls"]]
        # 1. interpret the calls (in program order) to learn which leaves are ever assembled
        outs = []
        w.render, w.interp = False, True
        for ci, args in enumerate(m["calls"]):
            w.out = []
            if all(t for _, t in wrs[ci]):
                w.args = list(args)
                w.local = set()
                try:
                    try:
                        w.walk(it["body"], True)
                        self._probes(idx, it, it.get("pf", 0))
                    except ExitM:
                        pass
                finally:
                    w.args = None
                    w.local = None
                    w.stack = []
                w.out += self._wrap_tail(wrs[ci])
                w.stats["kinds"].add("call-depth%d" % len(wrs[ci]))
                if any(ty == "M" for ty, _ in wrs[ci]):
                    w.stats["kinds"].add("call-in-macro")
            elif wrs[ci]:
                w.stats["kinds"].add("call-skipped")
            outs.append(w.out)
        # 2. render the definition once (poison only in leaves no call assembles)
        w.render, w.interp = True, False
        w.emit("%s\tmacro\t%s" % (name, ",".join(PARAMS[:m["np"]])))
        mark = len(w.main)
        w.walk(it["body"], False)
        self._probes(idx, it, it.get("pf", 0))
        for l in w.main[mark:]:
            l["inmacro"] = True
        w.emit("\tendm")
        w.stack = []
        # 3. the calls, each in its own slot, each followed by a sentinel inside and one outside its wrappers
        w.interp = True
        for ci, args in enumerate(m["calls"]):
            w.cur_active = True
            w.emit("\torg\t%d" % base)
            self._wrap_open(wrs[ci], "%d_%d" % (idx, ci))
            a = list(args)
            if it.get("kw"):
                a = ["%s=%s" % (PARAMS[i], v) for i, v in enumerate(a) if v != ""]
                if it.get("kw") == 2:
                    a.reverse()
                w.stats["kinds"].add("keyword-args")
            elif it.get("trim", 0):
                while a and a[-1] == "":
                    a.pop()
            w.emit("\t%s\t%s" % (name, ",".join(a)) if a else "\t" + name)
            w.db(str(SENTINEL))
            self._wrap_close(wrs[ci], "%d_%d" % (idx, ci))
            w.db(str(SENTINEL - 1))
            self._place(idx, ci, base, outs[ci] + [SENTINEL - 1])
            base += size
        w.render, w.interp = True, True
        return base

    def _loop_item(self, idx, it, base, size):
        """IRP (one parameter, integer arguments) or REPT n around the body; leaves define no symbols"""
        w = self.w
        lp = it["loop"]
        wr = lp.get("wr") or []
        vals = lp["vals"] if lp["k"] == "irp" else [None] * lp["n"]
        w.out = []
        w.render, w.interp = False, True
        if all(t for _, t in wr):
            try:
                for v in vals:
                    w.args = [str(v)] if v is not None else None
                    w.walk(it["body"], True)
                    w.stack = []
            except ExitM:
                pass
            w.args = None
            w.stack = []
            w.out += self._wrap_tail(wr)
            w.stats["kinds"].add(lp["k"])
        out = w.out
        w.render, w.interp = True, False
        w.cur_active = True
        w.emit("\torg\t%d" % base)
        w.interp = True
        self._wrap_open(wr, "%d_0" % idx)
        w.interp = False
        if lp["k"] == "irp":
            w.stmt("irp", "QA," + ",".join(_num(v) for v in vals))
        else:
            w.stmt("rept", str(lp["n"]))
        save = w.stack
        w.stack = []
        w.walk(it["body"], False)
        w.stack = save
        w.stmt("endm")
        w.interp = True
        w.db(str(SENTINEL))
        self._wrap_close(wr, "%d_0" % idx)
        w.db(str(SENTINEL - 1))
        self._place(idx, 0, base, out + [SENTINEL - 1])
        w.render, w.interp = True, True
        return base + size


# ------------------------------------------------------------------ exhaustive enumeration (small space)

SHAPES = [(1, 0), (1, 1), (2, 0), (2, 1), (3, 0)]          # (conditional branches, default branch)


def _level2_options():
    opts = []
    for t in "IS":
        for b, d in SHAPES:
            for a in range(1 << b):
                opts.append((t, b, d, a))
    return opts


L2 = _level2_options()                                      # 40


def _mk(t, b, d, a, bodies):
    """construct of type t with b conditional branches (truth bits a), default d; bodies: b+d lists"""
    if t == "I":
        n = {"t": "I", "c": {"k": "if", "e": ["n", a & 1]}, "b": bodies[0], "ei": [], "el": None}
        for i in range(1, b):
            n["ei"].append({"e": ["n", (a >> i) & 1], "b": bodies[i]})
        if d:
            n["el"] = bodies[b]
        return n
    n = {"t": "S", "sel": ["n", 1], "pre": None, "cs": [], "el": None}
    for i in range(b):
        n["cs"].append({"v": [["n", 1 if (a >> i) & 1 else 2]], "b": bodies[i]})
    if d:
        n["el"] = bodies[b]
    return n


class Enum:
    """All skeletons with <= 2 nesting levels and <= 3 branches per construct (conditional branches plus
    default), every condition true/false.  Level-1 construct: type x shape x truth bits; every level-1
    branch holds either nothing or one of the 40 level-2 constructs (type x shape x truth bits) between
    two leaves.  `single`: sub-space where at most one level-1 branch holds a nested construct."""

    def __init__(self, single):
        self.single = single
        self.tops = []                # (t, b, d, a, count, offset)
        off = 0
        for t in "IS":
            for b, d in SHAPES:
                for a in range(1 << b):
                    s = b + d
                    cnt = 1 + s * len(L2) if single else (len(L2) + 1) ** s
                    self.tops.append((t, b, d, a, cnt, off))
                    off += cnt
        self.total = off

    def decode(self, i):
        import bisect
        j = bisect.bisect_right([x[5] for x in self.tops], i) - 1
        t, b, d, a, cnt, off = self.tops[j]
        r = i - off
        s = b + d
        nest = [None] * s
        if self.single:
            if r > 0:
                r -= 1
                nest[r // len(L2)] = L2[r % len(L2)]
        else:
            for p in range(s):
                q = r % (len(L2) + 1)
                r //= len(L2) + 1
                nest[p] = L2[q - 1] if q else None
        return t, b, d, a, nest

    def item(self, i):
        t, b, d, a, nest = self.decode(i)
        ctr = [0]

        def leaf():
            ctr[0] += 1
            return {"t": "L", "id": ctr[0]}
        bodies = []
        for p in range(b + d):
            body = [leaf()]
            if nest[p] is not None:
                t2, b2, d2, a2 = nest[p]
                body.append(_mk(t2, b2, d2, a2, [[leaf()] for _ in range(b2 + d2)]))
                body.append(leaf())
            bodies.append(body)
        return {"body": [_mk(t, b, d, a, bodies)], "mac": None}


# ------------------------------------------------------------------ malformed family

STRAYS = ["else", "elseif 1", "endif", "case 1", "elsecase", "endcase"]


def classify_stray(stmt, stack, active):
    """'must' = no reading of the manual pairs this statement at this place; 'noclaim' otherwise.
    stack entries: (type, default branch seen, construct itself assembled)"""
    inner = stack[-1] if stack else None
    has_if = any(s[0] == "I" for s in stack)
    has_sw = any(s[0] == "S" for s in stack)
    w = stmt.split()[0]
    if w in ("endif", "endcase"):
        return "must"                 # one closer more than openers can never be paired
    if w in ("else", "elseif"):
        if not has_if:
            return "must" if active else "noclaim"      # no IF construct is open at all
        if inner[0] == "I" and inner[1] and inner[2]:
            return "must"             # "An ELSEIF without parameters must be the last branch"
        return "noclaim"
    if w in ("case", "elsecase"):
        if not has_sw:
            return "must" if active else "noclaim"
        if inner[0] == "S" and inner[1] and inner[2]:
            return "must"             # after ELSECASE only ENDCASE may follow
        return "noclaim"
    return "noclaim"
