"""Reference interpreter for the macro / repetition / inclusion constructs of AS (property C11).

Written from doc/pseudo-instructions.md ("Macro Instructions", INCLUDE, BINCLUDE); it never runs asl.
`expand(files, main, cfg)` carries out MACRO (positional / keyword / default / excess arguments, ALLARGS,
ARGCOUNT, ATTRIBUTE, SHIFT, EXITM, nested and recursive calls, macro-defining macros), REPT, IRP, IRPN,
IRPC, WHILE, INCLUDE and BINCLUDE *by hand* and returns a flat program that contains none of these
statements any more:

  * a parameter name is replaced where it is delimited on both sides by a character that is neither
    letter nor digit, or where it is written as \\name\\ (then the backslashes disappear as well);
    case-insensitively unless -U; string constants are not protected; an inserted argument is never
    scanned again;
  * the lines of a body are produced one at a time (a SHIFT therefore changes the lines that follow it,
    and a construct nested in a macro body records lines in which the macro's parameters have already
    been replaced);
  * labels defined while an expansion (one macro call, one iteration of REPT/IRP/IRPN/IRPC/WHILE) is
    running are private to it unless {GLOBALSYMBOLS} is given: the flat program uses a fresh unique
    name per expansion, references are resolved innermost expansion first, then outwards, then global;
  * IF/ELSEIF/ELSE/ENDIF are decided by the model (restricted expression language, see `Eval`) and do
    not appear in the flat program; EXITM ends the innermost construct and restores the IF nesting.

Anything outside the modelled subset raises `Unsupported` (the check discards such a case); a program
that the manual's rules make erroneous raises `ProgramError`.
"""
import re


class Unsupported(Exception):
    pass


class ProgramError(Exception):
    pass


STARTS = ("MACRO", "IRP", "IRPN", "IRPC", "REPT", "WHILE")
ENDS = ("ENDM", "ENDR")
NO_LABEL_OPS = ("MACRO", "SET", "EQU", "EVAL", ":=", "=", "LABEL", "FUNCTION", "STRUCT", "STRUC", "UNION",
                "ENDSTRUCT", "ENDS", "ENDSTRUC", "ENDUNION")
IF_FAMILY = ("IFDEF", "IFNDEF", "IFUSED", "IFNUSED", "IFEXIST", "IFNEXIST", "IFB", "IFNB", "SWITCH", "CASE",
             "ELSECASE", "ENDCASE", "SELECT")


def alnum(c):
    return ("0" <= c <= "9") or ("A" <= c <= "Z") or ("a" <= c <= "z")


# ---------------------------------------------------------------------------------- line syntax

def _scan_protected(text, want, start=0):
    """index of the first char in `want` at or after start that is outside quotes, parentheses and
    brackets; -1 if none"""
    sq = dq = False
    par = brk = 0
    esc = False
    i = start
    n = len(text)
    while i < n:
        c = text[i]
        this_esc, esc = esc, False
        if c in want and not sq and not dq and not par and not brk:
            return i
        if c == '"':
            if not sq and not this_esc:
                dq = not dq
        elif c == "'":
            if not dq and not this_esc:
                sq = not sq
        elif c == "\\":
            if (sq or dq) and not this_esc:
                esc = True
        elif c == "(":
            if not brk and not sq and not dq:
                par += 1
        elif c == ")":
            if not brk and not sq and not dq:
                par -= 1
        elif c == "[":
            if not par and not sq and not dq:
                brk += 1
        elif c == "]":
            if not par and not sq and not dq:
                brk -= 1
        i += 1
    return -1


def split_args(argtext):
    argtext = argtext.rstrip()
    if not argtext:
        return []
    out = []
    i = 0
    while True:
        j = _scan_protected(argtext, ",", i)
        if j < 0:
            out.append(argtext[i:].strip())
            break
        out.append(argtext[i:j].strip())
        i = j + 1
    return out


class Line:
    __slots__ = ("label", "op", "OP", "attr", "args", "argtext")


def split_line(text, hasattrs):
    """label / opcode / attribute / arguments as the manual's line format defines them"""
    c = _scan_protected(text, ";")
    if c >= 0:
        text = text[:c]
    n = len(text)
    L = Line()
    L.label = ""
    i = 0
    if n and not text[0].isspace():
        j = 0
        while j < n and not text[j].isspace() and text[j] != ":":
            j += 1
        L.label = text[:j]
        i = j + 1 if j < n else n
    while True:
        while i < n and text[i].isspace():
            i += 1
        j = i
        while j < n and not text[j].isspace():
            j += 1
        op = text[i:j]
        i = j + 1 if j < n else n
        if not L.label and op.endswith(":") and len(op) > 1:
            L.label = op[:-1]
            continue
        break
    L.argtext = text[i:].strip()
    L.attr = ""
    if hasattrs and "." in op and not op.startswith("."):
        op, L.attr = op.split(".", 1)
    L.op = op
    L.OP = op.upper()
    L.args = split_args(L.argtext)
    return L


def upstring(s):
    """upper case outside of string / character constants"""
    out = []
    quot = 0
    lastbk = False
    for ch in s:
        thisbk = False
        if ch == "\\":
            thisbk = True
        elif ch == "'":
            if not (quot & 2) and not lastbk:
                quot ^= 1
        elif ch == '"':
            if not (quot & 1) and not lastbk:
                quot ^= 2
        elif not quot:
            ch = ch.upper()
        out.append(ch)
        lastbk = thisbk
    return "".join(out)


# ---------------------------------------------------------------------------------- substitution

def quoted_mask(text):
    """True for every position that lies inside a string / character constant"""
    mask = []
    q = None
    esc = False
    for c in text:
        if q:
            mask.append(True)
            if esc:
                esc = False
            elif c == "\\":
                esc = True
            elif c == q:
                q = None
        else:
            if c in "\"'":
                q = c
                mask.append(True)
            else:
                mask.append(False)
    return mask


def find_matches(text, names, stats=None, strict_strings=False):
    """names: [(name, case_sensitive)] -> sorted [(start, end, index, backslash form)] of the places
    where a whole parameter name stands (plain: delimited by non-alphanumerics; or \\name\\).
    Overlapping candidates (two backslash forms sharing a backslash) are not defined by the manual ->
    Unsupported.  strict_strings: inside string constants a case-insensitive name only matches when
    it is written in upper case (the manual's advice for string constants)."""
    cands = []
    n = len(text)
    up = text.upper()
    mask = None
    for idx, (name, cs) in enumerate(names):
        ln = len(name)
        if not ln:
            continue
        hay, needle = (text, name) if cs else (up, name.upper())
        pos = hay.find(needle)
        while pos >= 0:
            end = pos + ln
            ok = True
            if strict_strings and not cs and text[pos:end] != needle:
                if mask is None:
                    mask = quoted_mask(text)
                ok = not mask[pos]
            if not ok:
                pass
            elif pos > 0 and text[pos - 1] == "\\" and end < n and text[end] == "\\":
                cands.append((pos - 1, end + 1, idx, True))
            elif (pos == 0 or not alnum(text[pos - 1])) and (end >= n or not alnum(text[end])):
                cands.append((pos, end, idx, False))
            elif stats is not None:
                stats["nearmiss"] += 1
            pos = hay.find(needle, pos + 1)
    cands.sort()
    for a, b in zip(cands, cands[1:]):
        if a[1] > b[0]:
            raise Unsupported("overlapping parameter forms")
        if stats is not None and a[1] == b[0]:
            stats["adjacent"] += 1
            stats["adjacent_hi"] = max(stats["adjacent_hi"], min(a[2], b[2]) + 1)
    return cands


def substitute(text, names, values, used=None, stats=None, strict_strings=False):
    """replace all whole parameter names at once (an inserted argument is never scanned again)"""
    m = find_matches(text, names, stats, strict_strings)
    if not m:
        return text
    out = []
    last = 0
    for s, e, idx, bs in m:
        out.append(text[last:s])
        v = values[idx]
        if callable(v):
            v = v()
        out.append(v)
        if used is not None:
            used.add(idx)
        if bs and stats is not None:
            stats["bsl_subst"] += 1
        last = e
    out.append(text[last:])
    return "".join(out)


# ---------------------------------------------------------------------------------- expressions

class Eval:
    """integer / string expressions of the restricted language used in IF, WHILE, REPT, IRPN, SET and
    BINCLUDE operands of generated programs: decimal, $hex and 0x integers, "strings", variables defined
    with SET, parentheses, unary -, and the operators * + - && || = == <> != < <= > >= with the ranks of
    the manual's operator table (comparisons bind weakest, then ||, &&, + -, *)."""
    TOK = re.compile(r'\s*(?:(\d+)(?![0-9A-Fa-fxXhH])|\$([0-9A-Fa-f]+)|0[xX]([0-9A-Fa-f]+)|(\d[0-9A-Fa-f]*)[hH]|"([^"\\]*)"|([A-Za-z_][A-Za-z0-9_]*)|'
                     r'(<>|!=|<=|>=|==|&&|\|\||[-+*()<>=]))')

    def __init__(self, text, lookup):
        self.toks = []
        pos = 0
        text = text.strip()
        while pos < len(text):
            m = self.TOK.match(text, pos)
            if not m:
                raise Unsupported("expression not in the modelled language: %r" % text)
            pos = m.end()
            if m.group(1) is not None:
                self.toks.append(("i", int(m.group(1))))
            elif m.group(2) is not None:
                self.toks.append(("i", int(m.group(2), 16)))
            elif m.group(3) is not None:
                self.toks.append(("i", int(m.group(3), 16)))
            elif m.group(4) is not None:
                self.toks.append(("i", int(m.group(4), 16)))
            elif m.group(5) is not None:
                self.toks.append(("s", m.group(5)))
            elif m.group(6) is not None:
                self.toks.append(("v", m.group(6)))
            else:
                self.toks.append(("o", m.group(7)))
        if not self.toks:
            raise Unsupported("empty expression")
        self.i = 0
        self.lookup = lookup
        self.text = text

    def peek(self):
        return self.toks[self.i] if self.i < len(self.toks) else (None, None)

    def op(self, *ops):
        k, v = self.peek()
        if k == "o" and v in ops:
            self.i += 1
            return v
        return None

    def value(self):
        v = self.cmp()
        if self.i != len(self.toks):
            raise Unsupported("trailing tokens in expression %r" % self.text)
        return v

    def cmp(self):
        a = self.lor()
        while True:
            o = self.op("<>", "!=", "<=", ">=", "==", "=", "<", ">")
            if not o:
                return a
            b = self.lor()
            if type(a) is not type(b):
                raise Unsupported("mixed comparison")
            a = int({"<>": a != b, "!=": a != b, "<=": a <= b, ">=": a >= b, "==": a == b, "=": a == b,
                     "<": a < b, ">": a > b}[o])

    def lor(self):
        a = self.land()
        while self.op("||"):
            b = self.land()
            a = int(self.num(a) != 0 or self.num(b) != 0)
        return a

    def land(self):
        a = self.add()
        while self.op("&&"):
            b = self.add()
            a = int(self.num(a) != 0 and self.num(b) != 0)
        return a

    def num(self, a):
        if not isinstance(a, int):
            raise Unsupported("string in arithmetic")
        return a

    def add(self):
        a = self.mul()
        while True:
            o = self.op("+", "-")
            if not o:
                return a
            b = self.mul()
            a = self.num(a) + self.num(b) if o == "+" else self.num(a) - self.num(b)

    def mul(self):
        a = self.prim()
        while self.op("*"):
            a = self.num(a) * self.num(self.prim())
        return a

    def prim(self):
        k, v = self.peek()
        if k is None:
            raise Unsupported("truncated expression %r" % self.text)
        self.i += 1
        if k == "i" or k == "s":
            return v
        if k == "v":
            return self.lookup(v)
        if v == "(":
            a = self.cmp()
            if not self.op(")"):
                raise Unsupported("unbalanced expression %r" % self.text)
            return a
        if v == "-":
            return -self.num(self.prim())
        raise Unsupported("unexpected %r in %r" % (v, self.text))


# ---------------------------------------------------------------------------------- interpreter

class Src:
    def __init__(self, kind, lines):
        self.kind = kind            # file macro rept irp irpc while
        self.lines = lines
        self.pos = 0
        self.done = False
        self.has_scope = False
        self.globalsyms = False
        self.if_depth = 0
        self.it = 0                 # iteration number
        self.name = ""


class Macro:
    intlabel = False

    def __init__(self, name, params, defaults, globalsyms):
        self.name = name
        self.params = params
        self.defaults = defaults
        self.globalsyms = globalsyms
        self.lines = []


class Rec:
    def __init__(self, kind, discard):
        self.kind = kind
        self.discard = discard
        self.nest = 0
        self.lines = []
        self.info = None


class Expander:
    def __init__(self, files, cfg):
        """cfg: hasattrs, U (case sensitive), bytedir (data statement for BINCLUDE bytes),
        upcase_args (arguments are converted to upper case outside string constants when not U),
        max_lines"""
        self.files = files
        self.cfg = cfg
        self.U = cfg.get("U", False)
        self.hasattrs = cfg.get("hasattrs", False)
        self.upcase = cfg.get("upcase_args", True) and not self.U
        self.strict = cfg.get("strict_strings", False) and not self.U
        self.max_lines = cfg.get("max_lines", 2500)
        self.stack = []
        self.rec = None
        self.ifs = []               # [cur_active, taken, parent_active]
        self.macros = {}
        self.vars = {}
        self.out = []               # (text, scope chain tuple)
        self.scopes = []
        self.scope_labels = {}
        self.nscope = 0
        self.steps = 0
        self.stats = dict(maxdepth=0, calls=0, iters=0, zero_iter=0, shifts=0, exitm=0, includes=0, bincludes=0,
                          local_labels=0, kw=0, defaulted=0, empty_args=0, excess=0, recursion=0, macrodefs=0,
                          subst=0, bsl_subst=0, maxparam=0, nested_defs=0, nearmiss=0, adjacent=0, adjacent_hi=0)
        self.features = set()
        # a label on a line of its own is moved by alignment padding of the statement that follows
        # "immediately" (manual, PADDING).  Statements that vanish in the flat program (IF, EXITM, SHIFT,
        # INCLUDE, MACRO, skipped lines) may stand in between: such programs are flagged.
        self.pending_label = False
        self.flags = set()

    def vanishing(self, L):
        if self.pending_label and L.op:
            self.flags.add("label-then-vanishing-statement")

    # ----- helpers
    def norm(self, s):
        return s if self.U else s.upper()

    def ifasm(self):
        return all(f[0] for f in self.ifs)

    def lookup(self, name):
        k = self.norm(name)
        if k not in self.vars or self.vars[k] is None:
            raise Unsupported("value of %s not known to the model" % name)
        return self.vars[k]

    def evaluate(self, text):
        return Eval(text, self.lookup).value()

    def eval_int(self, text):
        v = self.evaluate(text)
        if not isinstance(v, int):
            raise Unsupported("integer expected: %r" % text)
        return v

    def emit(self, text, label_only=False):
        if label_only:
            self.pending_label = True
        else:
            L = split_line(text, self.hasattrs)
            if L.op:
                self.pending_label = False
            elif L.label:
                self.pending_label = True
        if len(self.out) >= self.max_lines:
            raise Unsupported("expansion too large")
        if text.endswith("\\"):
            raise Unsupported("line ends in a continuation character")
        self.out.append((text, tuple(self.scopes)))

    def push_scope(self, src):
        self.nscope += 1
        self.scopes.append(self.nscope)
        self.scope_labels[self.nscope] = {}
        src.has_scope = True

    def pop_scope(self, src):
        if src.has_scope:
            self.scopes.pop()
            src.has_scope = False

    def depth(self):
        return sum(1 for s in self.stack if s.kind != "file")

    def push(self, src):
        src.if_depth = len(self.ifs)
        self.stack.append(src)
        d = self.depth()
        if d > self.stats["maxdepth"]:
            self.stats["maxdepth"] = d
        if len(self.stack) > 60:
            raise Unsupported("nesting too deep")

    # ----- line delivery
    def fetch(self):
        src = self.stack[-1]
        if src.done:
            self.pop_scope(src)
            self.stack.pop()
            return None
        k = src.kind
        if k == "file":
            if src.pos >= len(src.lines):
                src.done = True
                return None
            line = src.lines[src.pos]
            src.pos += 1
            if line.endswith("\\"):
                raise Unsupported("line ends in a continuation character")
            return line
        if k == "macro":
            if src.pos >= len(src.lines):
                src.done = True
                return None
            if src.pos == 0 and not src.globalsyms:
                self.push_scope(src)
            line = self.macro_line(src, src.lines[src.pos])
            src.pos += 1
            return line
        # iterating constructs
        if not src.lines:
            src.done = True
            return None
        if src.pos == 0:
            if not self.iter_start(src):
                src.done = True
                return None
        line = src.lines[src.pos]
        if src.kind in ("irp", "irpc"):
            before = line
            line = substitute(line, src.names, src.cur, None, self.stats, self.strict)
            if line != before:
                self.stats["subst"] += 1
        src.pos += 1
        if src.pos >= len(src.lines):
            src.pos = 0
        return line

    def iter_start(self, src):
        """begin the next iteration; False when the construct is finished"""
        k = src.kind
        if k == "rept":
            more = src.it < src.count
        elif k == "irp":
            more = src.it < len(src.groups)
        elif k == "irpc":
            more = src.it < len(src.chars)
        else:
            more = True
        if not more:
            return False
        if not src.globalsyms:
            self.pop_scope(src)
            self.push_scope(src)
        if k == "while":
            if self.eval_int(src.cond) == 0:
                return False
            if src.it > 200:
                raise Unsupported("WHILE does not terminate within the bound")
        if k == "irp":
            src.cur = src.groups[src.it]
        elif k == "irpc":
            src.cur = [src.chars[src.it]]
        src.it += 1
        self.stats["iters"] += 1
        return True

    def macro_line(self, src, raw):
        names = src.names
        n = len(src.formals)
        vals = []
        for i in range(n):
            vals.append(src.values[i] if i < len(src.values) else "")

        def argcount():
            if src.argcount is None:
                raise Unsupported("ARGCOUNT with fewer arguments than parameters (manual and behaviour disagree)")
            self.features.add("ARGCOUNT")
            return str(src.argcount)

        def allargs():
            if src.allargs is None:
                raise Unsupported("ALLARGS after SHIFT with defaulted / keyword arguments is not defined")
            self.features.add("ALLARGS")
            return src.allargs

        def attribute():
            self.features.add("ATTRIBUTE")
            return src.attr
        if self.hasattrs:
            vals.append(attribute)
        vals.append(argcount)
        vals.append(allargs)
        if src.intlabel:
            vals.append(src.label)
        used = set()
        line = substitute(raw, names, vals, used, self.stats, self.strict)
        if used:
            self.stats["subst"] += 1
            mx = max((u for u in used if u < n), default=-1) + 1
            if mx > self.stats["maxparam"]:
                self.stats["maxparam"] = mx
        return line

    # ----- main loop
    def run(self, main):
        if main not in self.files:
            raise ProgramError("no main file")
        f = Src("file", self.files[main].split("\n"))
        f.name = main
        self.push(f)
        while self.stack:
            self.steps += 1
            if self.steps > 40000:
                raise Unsupported("too many steps")
            line = self.fetch()
            if line is None:
                continue
            self.process(line)
        if self.rec is not None:
            raise ProgramError("construct not closed")
        if self.ifs:
            raise ProgramError("IF not closed")
        return self.finish()

    def process(self, text):
        L = split_line(text, self.hasattrs)
        OP = L.OP
        if self.rec is not None:
            r = self.rec
            if OP in STARTS:
                r.nest += 1
            elif OP in ENDS:
                r.nest -= 1
            if r.nest >= 0:
                r.lines.append(text)
            else:
                self.rec = None
                self.finish_recording(r)
            return
        active = self.ifasm()
        if OP in IF_FAMILY:
            raise Unsupported("conditional statement %s is not modelled" % OP)
        if OP in ("IF", "ELSEIF", "ELSE", "ENDIF", "EXITM", "SHIFT", "INCLUDE", "MACRO") or not active:
            self.vanishing(L)
        if OP == "IF":
            if active:
                c = self.eval_int(self.one_arg(L)) != 0
                self.ifs.append([c, c, True])
            else:
                self.ifs.append([False, True, False])
            self.no_label(L)
            return
        if OP == "ELSEIF" or OP == "ELSE":
            if not self.ifs:
                raise ProgramError("ELSE without IF")
            f = self.ifs[-1]
            if not f[2] or f[1]:
                f[0] = False
            elif OP == "ELSE" or not L.args:
                f[0] = f[1] = True
            else:
                c = self.eval_int(self.one_arg(L)) != 0
                f[0] = c
                f[1] = c
            return
        if OP == "ENDIF":
            if not self.ifs:
                raise ProgramError("ENDIF without IF")
            self.ifs.pop()
            return
        if not active:
            if OP in STARTS:
                self.rec = Rec(OP, True)
            return
        if OP in ENDS:
            raise ProgramError("ENDM without construct")
        if OP == "MACRO":
            self.start_macro(L)
            return
        if OP in ("REPT", "IRP", "IRPN", "IRPC", "WHILE"):
            self.label_only(L)
            self.start_loop(L)
            return
        if OP == "EXITM":
            self.no_label(L)
            src = self.stack[-1]
            if src.kind == "file":
                raise ProgramError("EXITM outside of a macro construct")
            del self.ifs[src.if_depth:]
            src.done = True
            self.stats["exitm"] += 1
            return
        if OP == "SHIFT":
            self.no_label(L)
            self.do_shift()
            return
        if OP == "INCLUDE":
            self.label_only(L)
            self.do_include(L)
            return
        if OP == "BINCLUDE":
            self.label_only(L)
            self.do_binclude(L)
            return
        if OP == "END":
            raise Unsupported("END is not modelled")
        if L.op and not L.op.startswith("!"):
            m = self.macros.get(self.norm(L.op))
            if m is not None:
                if not m.intlabel:
                    self.label_only(L)
                self.call_macro(m, L)
                return
        elif L.op.startswith("!"):
            # macro search suppressed: the statement is the plain instruction
            pass
        if OP in ("SET", "EVAL", ":=") and L.label:
            self.track_set(L)
        elif OP in ("EQU", "=") and L.label:
            if self.scopes:
                raise Unsupported("EQU inside an expansion (manual does not say whether it is local)")
            self.track_set(L)
        elif L.label and OP not in NO_LABEL_OPS and self.scopes:
            self.private_label(L.label)
        self.emit(text)

    # ----- pieces
    def one_arg(self, L):
        if len(L.args) != 1:
            raise ProgramError("%s needs one argument" % L.OP)
        return L.args[0]

    def no_label(self, L):
        if L.label:
            raise Unsupported("label on a %s line" % L.OP)

    LABEL = re.compile(r"[A-Za-z_][A-Za-z0-9_.$@]*$")

    def private_label(self, label):
        """a label defined while an expansion is running belongs to the innermost expansion"""
        if not self.LABEL.match(label):
            return                  # not a symbol name: the line is erroneous, nothing to rename
        self.scope_labels[self.scopes[-1]][self.norm(label)] = label
        self.stats["local_labels"] += 1

    def label_only(self, L):
        if L.label:
            if self.scopes:
                self.private_label(L.label)
            self.emit(L.label + ":", True)

    def track_set(self, L):
        k = self.norm(L.label)
        try:
            self.vars[k] = self.evaluate(L.argtext)
        except Unsupported:
            self.vars[k] = None

    def ctrl_args(self, args):
        """separate {CONTROL} parameters; returns (plain args, globalsymbols flag)"""
        plain = []
        glob = False
        self.last_intlabel = False
        for a in args:
            if len(a) >= 2 and a[0] == "{" and a[-1] == "}":
                c = a[1:-1].upper()
                if c == "GLOBALSYMBOLS":
                    glob = True
                elif c == "NOGLOBALSYMBOLS":
                    glob = False
                elif c == "INTLABEL":
                    self.last_intlabel = True
                elif c == "NOINTLABEL":
                    self.last_intlabel = False
                elif c in ("EXPAND", "NOEXPAND", "EXPIF", "NOEXPIF", "EXPMACRO", "NOEXPMACRO", "EXPREST",
                           "NOEXPREST"):
                    pass
                else:
                    raise Unsupported("control parameter %s is not modelled" % c)
            else:
                plain.append(a)
        return plain, glob

    def param_name(self, s):
        if not s or not all(alnum(c) for c in s) or s[0].isdigit():
            raise ProgramError("invalid parameter name %r" % s)
        if s.upper() in ("ATTRIBUTE", "ALLARGS", "ARGCOUNT", "__LABEL__"):
            raise ProgramError("implicit parameter redeclared")
        return s

    def start_macro(self, L):
        if not L.label:
            raise ProgramError("MACRO without name")
        plain, glob = self.ctrl_args(L.args)
        params, defaults = [], []
        for a in plain:
            e = _scan_protected(a, "=")
            if e >= 0:
                name, dflt = a[:e].strip(), a[e + 1:]
            else:
                name, dflt = a, ""
            params.append(self.param_name(name))
            defaults.append(dflt)
        if len(set(self.norm(p) for p in params)) != len(params):
            raise ProgramError("duplicate parameter")
        r = Rec("MACRO", False)
        r.info = Macro(L.label, params, defaults, glob)
        r.info.intlabel = self.last_intlabel
        self.rec = r

    def start_loop(self, L):
        OP = L.OP
        plain, glob = self.ctrl_args(L.args)
        r = Rec(OP, False)
        src = Src({"REPT": "rept", "IRP": "irp", "IRPN": "irp", "IRPC": "irpc", "WHILE": "while"}[OP], None)
        src.globalsyms = glob
        src.name = OP
        if OP == "REPT":
            if len(plain) != 1:
                raise ProgramError("REPT needs a count")
            src.count = self.eval_int(plain[0])
        elif OP == "WHILE":
            if len(plain) != 1:
                raise ProgramError("WHILE needs a condition")
            src.cond = plain[0]
        elif OP == "IRP":
            if len(plain) < 2:
                raise ProgramError("IRP needs a parameter and at least one argument")
            src.names = [(self.param_name(plain[0]), self.U)]
            src.groups = [[self.arg_case(a)] for a in plain[1:]]
        elif OP == "IRPN":
            if not plain:
                raise ProgramError("IRPN needs a count")
            k = self.eval_int(plain[0])
            if k <= 0:
                raise Unsupported("IRPN count <= 0 (belongs to C03)")
            if len(plain) < 1 + 2 * k:
                raise ProgramError("IRPN needs count parameters and at least count arguments")
            src.names = [(self.param_name(p), self.U) for p in plain[1:1 + k]]
            if len(set(self.norm(n) for n, _ in src.names)) != k:
                raise ProgramError("duplicate parameter")
            vals = [self.arg_case(a) for a in plain[1 + k:]]
            while len(vals) % k:
                vals.append("")
            src.groups = [vals[i:i + k] for i in range(0, len(vals), k)]
            self.features.add("IRPN%d" % k)
        else:
            if len(plain) != 2:
                raise ProgramError("IRPC needs a parameter and a string")
            src.names = [(self.param_name(plain[0]), self.U)]
            s = plain[1]
            if len(s) < 2 or s[0] != '"' or s[-1] != '"' or '"' in s[1:-1] or "\\" in s:
                raise Unsupported("IRPC operand is not a plain string constant")
            src.chars = list(s[1:-1])
        r.info = src
        self.rec = r

    def arg_case(self, a):
        return upstring(a) if self.upcase else a

    def finish_recording(self, r):
        if r.discard:
            return
        if r.kind == "MACRO":
            m = r.info
            m.lines = r.lines
            k = self.norm(m.name)
            if k in self.macros:
                raise ProgramError("macro defined twice")
            self.macros[k] = m
            self.stats["macrodefs"] += 1
            if self.depth():
                self.stats["nested_defs"] += 1
            return
        src = r.info
        src.lines = r.lines
        zero = False
        if src.kind == "rept":
            zero = src.count <= 0
        elif src.kind == "irpc":
            zero = not src.chars
        elif src.kind == "while":
            zero = self.eval_int(src.cond) == 0
        if zero:
            self.stats["zero_iter"] += 1
            return
        if src.kind == "rept" and src.count * max(1, len(src.lines)) > 6000:
            raise Unsupported("repetition too large")
        self.features.add(src.name)
        self.push(src)

    def do_shift(self):
        top = self.stack[-1]
        if top.kind == "file":
            raise ProgramError("SHIFT outside of a macro construct")
        for src in reversed(self.stack):
            if src.kind == "macro":
                break
        else:
            return
        self.stats["shifts"] += 1
        if not src.values:
            return
        src.values.pop(0)
        src.shifted += 1
        if src.argcount is not None:
            src.argcount = len(src.values)
        src.allargs = ",".join(src.values) if src.plain_args else None

    def call_macro(self, m, L):
        if any(s.kind == "macro" and s.macro is m for s in self.stack):
            self.stats["recursion"] += 1
        n = len(m.params)
        vals = [None] * n
        named = False
        excess = []
        plain_args = True
        for i, raw in enumerate(L.args):
            a = self.arg_case(raw)
            e = _scan_protected(a, "=")
            if e >= 0:
                name, v = a[:e].rstrip(), a[e + 1:].lstrip()
                for j, p in enumerate(m.params):
                    if self.norm(p) == self.norm(name):
                        if vals[j] is not None:
                            raise ProgramError("parameter assigned twice")
                        vals[j] = v
                        break
                else:
                    raise ProgramError("unknown keyword argument")
                named = True
                plain_args = False
                self.stats["kw"] += 1
            elif named:
                raise ProgramError("positional argument after keyword argument")
            elif i < n:
                if a != "":
                    vals[i] = a
                else:
                    self.stats["empty_args"] += 1
                    if m.defaults[i] != "":
                        plain_args = False
            else:
                excess.append(a)
                if a == "":
                    self.stats["empty_args"] += 1
        for j in range(n):
            if vals[j] is None:
                vals[j] = m.defaults[j]
                if m.defaults[j] != "":
                    self.stats["defaulted"] += 1
                    if j >= len(L.args):
                        plain_args = False
        if excess:
            self.stats["excess"] += 1
        src = Src("macro", m.lines)
        src.macro = m
        src.name = m.name
        src.globalsyms = m.globalsyms
        src.formals = m.params
        src.values = vals + excess
        src.shifted = 0
        src.attr = L.attr
        src.allargs = ",".join(L.args)
        src.argcount = len(L.args) if len(L.args) >= n else None
        src.plain_args = plain_args and len(L.args) >= n
        src.names = [(p, self.U) for p in m.params]
        if self.hasattrs:
            src.names.append(("ATTRIBUTE", False))
        src.names.append(("ARGCOUNT", False))
        src.names.append(("ALLARGS", False))
        src.intlabel = m.intlabel
        if m.intlabel:
            # the label of the calling line is not defined there; it replaces __LABEL__ in the body
            src.names.append(("__LABEL__", False))
            src.label = L.label
            self.features.add("INTLABEL")
        self.stats["calls"] += 1
        self.features.add("MACRO")
        if m.globalsyms:
            self.features.add("GLOBALSYMBOLS")
        if not m.lines:
            self.features.add("empty-body")
            return
        self.push(src)

    def file_name(self, arg, ext):
        a = arg
        if len(a) >= 2 and a[0] == '"' and a[-1] == '"':
            a = a[1:-1]
        if not a or any(c in a for c in '"\\/ '):
            raise Unsupported("file name %r" % arg)
        if ext and "." not in a:
            a += ext
        return a

    def do_include(self, L):
        name = self.file_name(self.one_arg(L), ".inc")
        if name not in self.files:
            if name.upper() in self.files:
                name = name.upper()
            else:
                raise ProgramError("include file missing")
        if sum(1 for s in self.stack if s.kind == "file") > 8:
            raise Unsupported("include nesting")
        lines = self.files[name].split("\n")
        src = Src("file", lines)
        src.name = name
        self.stats["includes"] += 1
        self.features.add("INCLUDE")
        self.push(src)

    def do_binclude(self, L):
        if not 1 <= len(L.args) <= 3:
            raise ProgramError("BINCLUDE needs 1..3 arguments")
        name = self.file_name(L.args[0], "")
        data = self.cfg.get("bins", {}).get(name)
        if data is None:
            raise ProgramError("binary file missing")
        off = self.eval_int(L.args[1]) if len(L.args) > 1 else 0
        ln = self.eval_int(L.args[2]) if len(L.args) > 2 else None
        if off < 0 or off > len(data):
            raise Unsupported("BINCLUDE offset outside of the file")
        if ln is None:
            ln = len(data) - off
        if ln < 0 or off + ln > len(data):
            raise Unsupported("BINCLUDE length outside of the file")
        piece = data[off:off + ln]
        self.stats["bincludes"] += 1
        self.features.add("BINCLUDE%d" % len(L.args))
        per = self.cfg.get("bin_per_line", 16)
        for i in range(0, len(piece), per):
            self.emit("\t%s\t%s" % (self.cfg["bytedir"], ",".join(str(b) for b in piece[i:i + per])))

    # ----- second phase: private labels get their unique names
    IDENT = re.compile(r"[A-Za-z0-9_.$@]+")

    def finish(self):
        lines = []
        for text, chain in self.out:
            if chain:
                text = self.rename(text, chain)
            lines.append(text)
        return lines

    def rename(self, text, chain):
        tabs = [self.scope_labels[s] for s in reversed(chain) if self.scope_labels[s]]
        if not tabs:
            return text
        ids = [s for s in reversed(chain) if self.scope_labels[s]]
        out = []
        i = 0
        n = len(text)
        quote = None
        esc = False
        while i < n:
            c = text[i]
            if quote:
                out.append(c)
                if esc:
                    esc = False
                elif c == "\\":
                    esc = True
                elif c == quote:
                    quote = None
                i += 1
                continue
            if c in "\"'":
                quote = c
                out.append(c)
                i += 1
                continue
            if c == ";":
                out.append(text[i:])
                break
            m = self.IDENT.match(text, i)
            if m:
                tok = m.group(0)
                key = self.norm(tok)
                for tab, sid in zip(tabs, ids):
                    if key in tab:
                        tok = "%s__%d" % (tab[key], sid)
                        break
                out.append(tok)
                i = m.end()
                continue
            out.append(c)
            i += 1
        return "".join(out)


def expand(files, main, cfg):
    """-> (flat program lines, Expander) ; raises Unsupported / ProgramError"""
    e = Expander(files, cfg)
    lines = e.run(main)
    return lines, e
