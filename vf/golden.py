"""Run one golden-corpus program the way the repository's test driver does (asl, then p2bin -l 0
-r 0x-0x) but with a (possibly rewritten) source, and compare the image with the recorded .ori."""
import os
from . import corpus, run, asl


def assemble_golden(name, src=None, extra_files=None, args=(), env=None, workdir=None, flavour="plain",
                    want=(), main=None):
    """returns dict(ok, status, image (bytes|None), p (bytes|None), r (run.Result), files)"""
    t = corpus.load(name)
    files = dict(t["extra"])
    if extra_files:
        files.update(extra_files)
    main = main or (name + ".asm")
    files[main] = t["src"] if src is None else src

    def go(d):
        run.write_files(d, files)
        argv = ["asl"] + list(t["flags"]) + ["-q", "-i", asl.INCLUDE_DIR] + list(args) + \
               [main, "-o", name + ".p", "-shareout", name + ".h"]
        r = run.run(argv, d, flavour=flavour, env=env, timeout=60, cpu=40)
        p = run.read(d, name + ".p")
        img = None
        r2 = None
        if r.status == 0 and p is not None:
            r2 = run.run(["p2bin", "-q", "-l", "0", "-r", "0x-0x", name], d, flavour=flavour, timeout=30)
            img = run.read(d, name + ".bin")
        extra = {w: run.read(d, w) for w in want}
        return dict(status=r.status, signal=r.signal, timed_out=r.timed_out, image=img, p=p, r=r, r2=r2,
                    files=extra, ok=(img is not None and img == t["ori"]))
    if workdir:
        return go(workdir)
    with run.Work("gold") as d:
        return go(d)
