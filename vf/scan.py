"""development aid: run a check's generator without stopping at failures and group all failures
(python3-vt -m vf.scan C03 [examples] [seed])"""
import sys, json, multiprocessing, collections
from . import engine, build


def _shard(args):
    cid, tier, seed, idx, n = args
    mod = engine.load_check(cid)
    from hypothesis import given, settings, seed as hseed, HealthCheck, Phase
    found = {}
    count = [0]

    @settings(max_examples=n, database=None, deadline=None, suppress_health_check=list(HealthCheck),
              phases=[Phase.generate])
    @hseed(engine.derive(seed, cid, idx))
    @given(mod.strategy(tier))
    def prop(case):
        out = mod.execute(case)
        count[0] += 1
        if not out.ok and not out.inconclusive:
            k = out.detail.get("sig") or out.why[:80]
            if k not in found or len(json.dumps(case)) < len(json.dumps(found[k][0])):
                found[k] = (case, out.why, out.detail)
    prop()
    return found, count[0]


def main():
    cid = sys.argv[1]
    n = int(sys.argv[2]) if len(sys.argv) > 2 else 2000
    seed = int(sys.argv[3]) if len(sys.argv) > 3 else 1
    mod = engine.load_check(cid)
    for fl in getattr(mod, "FLAVOURS", ("plain",)):
        build.build(fl)
    with multiprocessing.get_context("fork").Pool(16) as pool:
        res = pool.map(_shard, [(cid, "quick", seed, i, n // 16) for i in range(16)])
    allf = {}
    tot = 0
    for found, c in res:
        tot += c
        for k, v in found.items():
            if k not in allf or len(json.dumps(v[0])) < len(json.dumps(allf[k][0])):
                allf[k] = v
    print("%d cases, %d distinct failure keys" % (tot, len(allf)))
    for k, (case, why, detail) in sorted(allf.items()):
        print("==", k)
        print("   why :", why[:300])
        print("   case:", json.dumps(engine.show(mod, case), default=str)[:700])
        if detail.get("argv"):
            print("   argv:", detail["argv"])
    json.dump({k: dict(case=v[0], why=v[1]) for k, v in allf.items()}, open("/tmp/scan_%s.json" % cid, "w"), indent=1, default=str)


if __name__ == "__main__":
    main()
