"""Statements that change assembler state without emitting code ("state statements"), for the checks that probe
whether such state leaks across a pass (C01) or across files of one run (C18).

The ASSUME registers are read from the code generators' own tables (`ASSUMERec` arrays in code*.c of the tree
under test: name, lowest and highest value), mapped to the CPU names the same file registers with AddCPU."""
import glob, os, re
from . import build, corpus

_reg = None

GENERIC = [
    "radix 16", "radix 8", "radix 2", "outradix 8", "relaxed on", "compmode on", "padding on", "padding off",
    "supmode on", "fpu on", "pmmu on", "fullpmmu on", "maxmode on", "extmode on", "lwordmode on", "srcmode on",
    "bigendian on", "wrapmode on", "packing on", "dottedstructs on", "z80syntax on", "z80syntax exclusive",
    "intsyntax +0hex,-$hex", "intsyntax -0xhex", "charset 'a','z','b'", "charset 0,255,1", "codepage x",
    "macexp off", "macexp_dft noif,nomacro", "listing off", "enumconf 4,data", "phase 4660", "segment data",
    "save", "message \"m\"", "mypage set 3", "title \"t\"", "prtinit \"a\"", "newpage", "branchext on",
    "custom on", "planar on", "forwardbra on", "accmode 8", "idxmode 8", "cpu 6502", "cpu z80", "cpu 68000",
]


def _parse_int(s):
    s = s.strip().rstrip("uUlL")
    try:
        return int(s, 0)
    except ValueError:
        return None


def registry():
    """{CPU NAME (upper): [(register, lo, hi)]}"""
    global _reg
    if _reg is None:
        _reg = {}
        for path in sorted(glob.glob(os.path.join(build.REPO, "code*.c"))):
            try:
                txt = open(path, encoding="latin-1").read()
            except OSError:
                continue
            regs = []
            for m in re.finditer(r"ASSUMERec[^;{]*\{(.*?)\};", txt, re.S):
                for r in re.finditer(r"\{\s*\"([A-Za-z0-9_]+)\"\s*,\s*&[^,]+,\s*([^,]+),\s*([^,]+),", m.group(1)):
                    lo, hi = _parse_int(r.group(2)), _parse_int(r.group(3))
                    if lo is not None and hi is not None and hi >= lo:
                        regs.append((r.group(1), lo, hi))
            if not regs:
                continue
            for c in re.finditer(r"AddCPU\w*\(\s*\"([^\"]+)\"", txt):
                _reg.setdefault(c.group(1).upper(), [])
                for x in regs:
                    if x not in _reg[c.group(1).upper()]:
                        _reg[c.group(1).upper()].append(x)
    return _reg


_cpu_of = {}


def cpu_of_test(name):
    """CPU in effect at the end of a golden test's main source (upper case) or None"""
    if name not in _cpu_of:
        src = corpus.load(name)["src"]
        found = re.findall(rb"^[^;\n]*?\bcpu[ \t]+([^\s;]+)", src, re.I | re.M)
        _cpu_of[name] = found[-1].decode("latin-1").upper() if found else None
    return _cpu_of[name]


def assumes_for(cpu):
    return registry().get((cpu or "").upper(), [])


def draw(d, test, n=None):
    """1-3 state statements for the end of golden test `test` (source lines without label)"""
    out = []
    regs = assumes_for(cpu_of_test(test))
    for _ in range(n or d.weighted([(5, 1), (3, 2), (1, 3)])):
        if regs and d.bool(0.6):
            r, lo, hi = d.choice(regs)
            v = d.weighted([(3, hi), (2, (lo + hi) // 2), (2, lo + 1 if lo + 1 <= hi else hi), (2, d.int(lo, hi)),
                            (1, min(hi, 0x20)), (1, min(hi, 0x9e))])
            out.append("\tassume\t%s:%d" % (r.lower(), v))
        else:
            out.append("\t" + d.choice(GENERIC))
    return out


def append_before_end(src, lines):
    """put the lines in front of a final END statement (or at the end of the text)"""
    nl = b"\r\n" if b"\r\n" in src else b"\n"
    add = nl.join(l.encode("latin-1") for l in lines) + nl
    m = None
    for m in re.finditer(rb"^[ \t]+END\b[^\n]*(\n|$)", src, re.I | re.M):
        pass
    if m:
        return src[:m.start()] + add + src[m.start():]
    if not src.endswith(b"\n"):
        src += nl
    return src + add


_fam = None


def family_of(cpu):
    """name of the code generator source that registers this CPU (upper-case CPU name) or None"""
    global _fam
    if _fam is None:
        _fam = {}
        for path in sorted(glob.glob(os.path.join(build.REPO, "code*.c"))):
            try:
                txt = open(path, encoding="latin-1").read()
            except OSError:
                continue
            for c in re.finditer(r"AddCPU\w*\(\s*\"([^\"]+)\"", txt):
                _fam.setdefault(c.group(1).upper(), os.path.basename(path))
    return _fam.get((cpu or "").upper())


_byfam = None


def tests_by_family(names):
    global _byfam
    if _byfam is None:
        _byfam = {}
        for n in names:
            f = family_of(cpu_of_test(n))
            if f:
                _byfam.setdefault(f, []).append(n)
    return _byfam
