"""development aid: validate MANIFEST.json and every evidence file against the given schemas"""
import json, glob, os, sys
import jsonschema
ROOT = os.path.dirname(os.path.dirname(os.path.abspath(__file__)))
m = json.load(open(os.path.join(ROOT, "MANIFEST.json")))
jsonschema.validate(m, json.load(open("/root/.vp/MANIFEST.schema.json")))
es = json.load(open("/root/.vp/EVIDENCE.schema.json"))
d = sys.argv[1] if len(sys.argv) > 1 else os.path.join(ROOT, "evidence")
bad = 0
for f in sorted(glob.glob(os.path.join(d, "C*.json"))):
    try:
        jsonschema.validate(json.load(open(f)), es)
    except jsonschema.ValidationError as ex:
        bad += 1
        print("INVALID", f, str(ex)[:300])
print("manifest ok; %d evidence files invalid" % bad)
sys.exit(1 if bad else 0)
