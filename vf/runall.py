"""development aid: run the quick tier of every claimed check with a seed and summarise
(python3-vt -m vf.runall <seed> [ids...]); writes evidence only to /tmp unless --real"""
import json, os, subprocess, sys, time
ROOT = os.path.dirname(os.path.dirname(os.path.abspath(__file__)))
seed = sys.argv[1]
ids = [a for a in sys.argv[2:] if not a.startswith("--")] or open(os.path.join(ROOT, "checks", "READY.txt")).read().split()
env = dict(os.environ, VERIF_SEED=seed)
if "--real" not in sys.argv:
    env["VERIF_OUT"] = "/tmp/runall-out-%s" % seed
for cid in sorted(set(ids)):
    t0 = time.time()
    tier = "thorough" if "--thorough" in sys.argv else "quick"
    r = subprocess.run(["./check", cid, "--tier", tier], cwd=ROOT, env=env, stdout=subprocess.PIPE, stderr=subprocess.STDOUT)
    out = r.stdout.decode(errors="replace")
    tail = [l for l in out.split("\n") if l.startswith(cid + " " + tier) or l.startswith("VIOLATION") or "why:" in l or "HARNESS" in l]
    print("%s seed=%s exit=%d %.0fs %s" % (cid, seed, r.returncode, time.time() - t0, " | ".join(x.strip()[:160] for x in tail[:4])), flush=True)
