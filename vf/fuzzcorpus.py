"""The saved libFuzzer corpus of the asl target (fuzz/corpus_asl.bin.z): coverage-distinct inputs found by long
campaigns (minimised with -merge=1).  Format: zlib( repeat( u32 little-endian length, bytes ) ).
python3-vt -m vf.fuzzcorpus pack <dir>   rebuilds the file from a directory of inputs."""
import os, struct, sys, zlib
from . import build

PATH = os.path.join(build.ROOT, "fuzz", "corpus_asl.bin.z")
_cache = None


def load():
    global _cache
    if _cache is None:
        out = []
        if os.path.exists(PATH):
            blob = zlib.decompress(open(PATH, "rb").read())
            i = 0
            while i + 4 <= len(blob):
                n = struct.unpack_from("<I", blob, i)[0]
                out.append(blob[i + 4:i + 4 + n])
                i += 4 + n
        _cache = out
    return _cache


def unpack_to(d, limit=None):
    os.makedirs(d, exist_ok=True)
    items = load()
    for k, b in enumerate(items[:limit] if limit else items):
        with open(os.path.join(d, "c%05d" % k), "wb") as f:
            f.write(b)
    return len(items)


def pack(d):
    names = sorted(os.listdir(d))
    raw = bytearray()
    for n in names:
        b = open(os.path.join(d, n), "rb").read()
        if 0 < len(b) <= 4096:
            raw += struct.pack("<I", len(b)) + b
    open(PATH, "wb").write(zlib.compress(bytes(raw), 9))
    print("packed %d inputs, %d bytes -> %d" % (len(names), len(raw), os.path.getsize(PATH)))


if __name__ == "__main__":
    if len(sys.argv) == 3 and sys.argv[1] == "pack":
        pack(sys.argv[2])
    else:
        print(len(load()), "inputs")
