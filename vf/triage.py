"""development aid: run all fixed cases of a check and list every failure (python3-vt -m vf.triage C16)"""
import sys, json, multiprocessing, collections
from . import engine, build


def _one(args):
    cid, case = args
    mod = engine.load_check(cid)
    out = mod.execute(case)
    return (case, out.ok, out.why, out.detail, out.inconclusive)


def main():
    cid = sys.argv[1]
    tier = sys.argv[2] if len(sys.argv) > 2 else "quick"
    mod = engine.load_check(cid)
    for fl in getattr(mod, "FLAVOURS", ("plain",)):
        build.build(fl)
    cases = list(mod.fixed_cases(tier))
    with multiprocessing.get_context("fork").Pool(16) as pool:
        res = pool.map(_one, [(cid, c) for c in cases], chunksize=4)
    bad = [r for r in res if not r[1]]
    print("%d fixed cases, %d failing" % (len(cases), len(bad)))
    for case, ok, why, detail, inc in bad:
        print("--", why[:200])
        print("   case:", json.dumps(engine.show(mod, case), default=str)[:300])
        for k in ("stderr", "argv"):
            if detail.get(k):
                print("   %s: %s" % (k, str(detail[k])[-400:].replace("\n", "\n      ")))


if __name__ == "__main__":
    main()
