"""Evaluate seeded defects: python3-vt -m vf.seedeval <seed dir name> [check ids...]

For /verif/seeded/<name>/{patch.diff,demo.sh,meta.json}: apply the patch to a scratch worktree of /repo (never to
/repo itself), build it, confirm the demonstration (exit 1 with the change, 0 without), confirm the repository's
own test suite still passes, run the quick tier of the property's check against the changed tree and record
whether it raises VIOLATION."""
import json, os, subprocess, sys, time, shutil

ROOT = os.path.dirname(os.path.dirname(os.path.abspath(__file__)))
SLOT = os.environ.get("SEEDEVAL_SLOT", "")            # a second evaluation may run in its own scratch worktree
WT = "/tmp/evalwt" + SLOT
BUILD = "/tmp/evalwt" + SLOT + "-build"
CT = "/tmp/evalwt" + SLOT + "-ctest"


def sh(cmd, **kw):
    return subprocess.run(cmd, shell=True, stdout=subprocess.PIPE, stderr=subprocess.STDOUT, **kw)


def ensure_wt():
    if not os.path.isdir(WT):
        r = sh("git -C /repo worktree add -q --detach %s main" % WT)
        assert r.returncode == 0, r.stdout
    sh("git -C %s checkout -q --detach main && git -C %s reset -q --hard main" % (WT, WT))


def build_plain(env):
    r = sh("cd %s && python3-vt -m vf.build plain" % ROOT, env=env)
    return r.returncode == 0, r.stdout.decode()[-800:]


def main():
    name = sys.argv[1]
    d = os.path.join(ROOT, "seeded", name)
    meta = json.load(open(os.path.join(d, "meta.json")))
    checks = [a for a in sys.argv[2:] if not a.startswith("--")] or [meta["property"]]
    env = dict(os.environ, VERIF_REPO=WT, VERIF_BUILD=BUILD, VERIF_OUT="/tmp/evalwt" + SLOT + "-out")
    res = dict(seed=name, property=meta["property"], at=time.strftime("%Y-%m-%d %H:%M"))
    # clean tree: demo must pass
    ensure_wt()
    ok, log = build_plain(env)
    assert ok, log
    demo = os.path.join(d, "demo.sh")
    if os.path.exists(demo):
        r = sh("cd %s && sh ./demo.sh %s/plain" % (d, BUILD))
        res["demo_clean_exit"] = r.returncode
    # changed tree
    r = sh("git -C %s apply %s" % (WT, os.path.join(d, "patch.diff")))
    if r.returncode:
        res["apply_error"] = r.stdout.decode()[-500:]
        print(json.dumps(res, indent=1))
        return
    ok, log = build_plain(env)
    res["builds"] = ok
    if not ok:
        res["build_log"] = log
    else:
        if os.path.exists(demo):
            r = sh("cd %s && sh ./demo.sh %s/plain" % (d, BUILD))
            res["demo_changed_exit"] = r.returncode
        if "--noctest" not in sys.argv:
            r = sh("cmake -G Ninja -S %s -B %s >/dev/null && cmake --build %s >/dev/null 2>&1 && ctest --test-dir %s -j16 2>&1 | grep 'tests passed'"
                   % (WT, CT, CT, CT))
            res["ctest"] = r.stdout.decode().strip()
        res["checks"] = {}
        for c in checks:
            if c.startswith("--"):
                continue
            t0 = time.time()
            r = sh("cd %s && ./check %s --tier quick" % (ROOT, c), env=env)
            out = r.stdout.decode()
            viol = [l for l in out.split("\n") if l.startswith("VIOLATION")]
            why = [l.strip() for l in out.split("\n") if l.strip().startswith("why:")]
            res["checks"][c] = dict(exit=r.returncode, caught=bool(viol) and r.returncode == 1, seconds=round(time.time() - t0, 1),
                                    why=why[:2])
    sh("git -C %s checkout -q -- . && git -C %s clean -fdq" % (WT, WT))
    json.dump(res, open(os.path.join(d, "result.json"), "w"), indent=1)
    print(json.dumps(res, indent=1))


if __name__ == "__main__":
    main()
