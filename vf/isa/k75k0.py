"""NEC 75X series (AS: 75K0; uPD751xx) reference encoder (uPD75X series / uPD75308 User's Manual,
chapter "Instruction set": "Operand representation formats and description methods", "Operation
list" and "Instruction codes"; uPD75104/106/108 data sheet for the interrupt enable flags).
Written from NEC's definition, not from code75k0.c.

NEC notation recap
  reg   A X L H E D C B  (R2R1R0 = 0..7)        reg1  = reg without A
  rp'   XA XA' HL HL' DE DE' BC BC' (P2P1P0 = 0..7; the primed pairs are the pairs of the alternate
        register bank);  rp'1 = rp' without XA;  rp = XA HL DE BC (P2P1 = 0..3, P0 = 0);  rp1 = HL DE BC
  rpa   @HL 1  @HL+ 2  @HL- 3  @DE 4  @DL 5  (Q2Q1Q0)
  n4    4-bit immediate, n8 8-bit immediate
  mem   8-bit data memory address: with MBE = 0 (reset, AS default) 000H..07FH and F80H..FFFH; the
        low 8 bits of the address are encoded;  XA,mem / mem,XA: even addresses
  bit   0..3
  fmem  FB0H..FBFH, FF0H..FFFH    second byte 1 f B1B0 a3a2a1a0 (f = 0: FBxH, f = 1: FFxH)
  pmem  FC0H..FFFH, low two bits 0  second byte 0100 a5a4a3a2        (pmem.@L)
  @H+mem.bit                        second byte 00 B1B0 a3a2a1a0      (mem = 4-bit low address)
  first byte of the fmem/pmem/@H group: SET1 9D, CLR1 9C, SKT BF, SKF BE, SKTCLR 9F, AND1 AC, OR1 AE,
        XOR1 BC, MOV1 CY,x BD, MOV1 x,CY 9B
  addr  14-bit program address (BR / CALL: AB, 0c a13..a8, a7..a0; c = 1 CALL)
  caddr 12-bit address inside the 4K block of the program counter: 0101 a11..a8 | a7..a0
  faddr 0000H..07FFH: 0100 0 a10..a8 | a7..a0
  $addr (PC)-15..(PC)-1: 1111 S3..S0, (PC)+2..(PC)+16: 0000 A3..A0; the byte is the distance from the
        following address.  (PC) and (PC)+1 are outside NEC's operand range.
  EI / DI IExxx = SET1 / CLR1 of the flag in FB8H..FBFH: 9D / 9C, 10 N5 1 1 N2N1N0
  IN / OUT PORTn = MOV with mem = FFnH

AS specifics used: data addresses are written as 12-bit numbers; the primed register pairs are written
XA' (or XA` - needed where a comma follows, since ' starts a character constant); EI / DI know the
interrupt enable flags by name; the program counter symbol is PC.

Not generated (and why)
  - KNOWN: GETI.  NEC: operand taddr = 20H..7FH (even), code 00 T5..T0 with taddr = 0 T5..T0 0.  AS
    takes the operand as the 6-bit field itself (GETI 20H -> 20H; the golden test t_75k0 has GETI 15
    -> 0FH, which is NEC's BR $+16).  See proposed/C14/75k0-geti-operand.md.
  - KNOWN: BR !addr with a target within (PC)-15..(PC)+16 (AS emits the one-byte relative form in spite
    of the prefix; fixed by the golden test).  See proposed/C14/75k0-br-long-prefix-ignored.md.
  - SET1/CLR1/SKT/SKF with an address inside FB0H..FBFH / FF0H..FFFH: the mem.bit and the fmem.bit
    encoding both exist for it (the fmem encoding is covered by SKTCLR/AND1/OR1/XOR1/MOV1)
  - BR / CALL / CALLF without prefix (AS chooses among several encodings), BR BCDE / BCXA and
    MOVT @BCDE / @BCXA (75XL only)
  - data addresses 080H..F7FH (need MBE = 1 and a bank selected through ASSUME; AS only warns),
    odd addresses with XA (AS only warns)
  - MOV A,#n4 through the reg1 line, XCH reg1,A and the other swapped operand orders AS accepts
"""
from .common import Form, Int, Enum, Rel, Isa, sx

REG = ["A", "X", "L", "H", "E", "D", "C", "B"]
REG1 = REG[1:]
RPQ = ["XA", "XA'", "HL", "HL'", "DE", "DE'", "BC", "BC'"]      # rp'  (last operand)
RPQ1_FIRST = ["XA`", "HL", "HL`", "DE", "DE`", "BC", "BC`"]       # rp'1 as first operand (codes 1..7)
RP = ["XA", "HL", "DE", "BC"]
RP1 = ["HL", "DE", "BC"]
RPA = {"@HL": 1, "@HL+": 2, "@HL-": 3, "@DE": 4, "@DL": 5}


class Ranges(Int):
    """integer operand whose valid values are several intervals (extension local to this module);
    values between the intervals are not generated, values >= rej_from must be rejected"""

    def __init__(self, ranges, step=1, rej_from=None, rej_below=None):
        Int.__init__(self, ranges[0][0], ranges[-1][1], rej_lo=rej_below is not None, rej_hi=False, step=step,
                     rej_from=rej_from)
        self.ranges = ranges
        self.rej_below = rej_below

    def classify(self, v, pc=0, vals=None):
        if v % self.step:
            return "excl"
        for a, b in self.ranges:
            if a <= v <= b:
                return "ok"
        if self.rej_from is not None and v >= self.rej_from:
            return "rej"
        if self.rej_below is not None and 0 <= v <= self.rej_below:
            return "rej"
        return "excl"

    def boundary_ok(self):
        out = []
        for a, b in self.ranges:
            for v in (a, a + self.step, b - self.step, b):
                if a <= v <= b and v not in out:
                    out.append(v)
        return out

    def boundary_rej(self):
        out = []
        if self.rej_from is not None:
            out += [self.rej_from, self.rej_from + self.step, self.ranges[0][0] + (1 << 32), self.hi + (1 << 16)]
        if self.rej_below is not None:
            out += [self.rej_below, self.rej_below - self.step]
        return [v for v in out if self.classify(v) == "rej"]

    def opclass(self, v):
        for k, (a, b) in enumerate(self.ranges):
            for nm, ref in (("lo", a), ("hi", b)):
                if abs(v - ref) <= self.step and a <= v <= b:
                    return "r%d%s%+d" % (k, nm, (v - ref) // self.step)
        if self.rej_from is not None and 0 <= v - self.rej_from <= self.step:
            return "field+%d" % ((v - self.rej_from) // self.step + 1)
        if self.rej_below is not None and 0 <= self.rej_below - v <= self.step:
            return "below-%d" % ((self.rej_below - v) // self.step + 1)
        return None

    def draw_ok(self, d):
        if d.int(0, 9) < 5:
            return d.choice(self.boundary_ok())
        a, b = d.choice(self.ranges)
        return d.int(a // self.step, b // self.step) * self.step

    def draw_rej(self, d):
        return d.choice(self.boundary_rej())


class FarAddr(Int):
    """!addr of BR.  KNOWN: a target within (PC)-15..(PC)+16 is assembled as the one-byte relative
    branch although the ! prefix asks for the three-byte form (the golden test t_75k0 fixes
    `br !pc+5` -> 04H, so it cannot be repaired without changing the test); exactly this
    distance band is not generated.  See proposed/C14/75k0-br-long-prefix-ignored.md."""

    def classify(self, v, pc=0, vals=None):
        if -15 <= v - pc <= 16:
            return "excl"
        return Int.classify(self, v, pc, vals)


class RelGap(Rel):
    """$addr: distance from the following address -16..-2 and +1..+15; -1 and 0 (= (PC) and (PC)+1)
    lie between the two halves of NEC's operand range and have no code"""

    GAP = (-1, 0)

    def classify(self, v, pc=0, vals=None):
        if v in self.GAP:
            return "rej"
        return Rel.classify(self, v, pc, vals)

    def boundary_ok(self):
        return [-16, -15, -14, -3, -2, 1, 2, 3, 13, 14, 15]

    def boundary_rej(self):
        return Rel.boundary_rej(self) + list(self.GAP)

    def opclass(self, v):
        if -3 <= v <= 2:
            return "rel@gap%+d" % v
        return Rel.opclass(self, v)

    def draw_ok(self, d):
        v = Rel.draw_ok(self, d)
        return v if v not in self.GAP else d.choice([-2, 1])

    def draw_rej(self, d):
        if d.int(0, 2) == 0:
            return d.choice(list(self.GAP))
        return Rel.draw_rej(self, d)


def n4():
    return Int(-8, 15)


def n8():
    return Int(-128, 255)


def bit():
    return Int(0, 3)


def mem(step=1):
    top = 0x1000 - step
    return Ranges([(0, 0x80 - step), (0xF80, top)], step=step, rej_from=0x1000)


def membit():
    # without the fmem areas (two encodings there)
    return Ranges([(0, 0x7F), (0xF80, 0xFAF), (0xFC0, 0xFEF)])


def lo(v):
    return v & 0xff


def build():
    F = []

    def add(name, fmt, ops, enc, rel=None):
        F.append(Form(name, fmt, ops, enc, rel))

    def fixed(text, *bs):
        b = bytes(bs)
        add(text, text, [], lambda pc, v: b)

    # ------------------------------------------------------------ no operand / fixed operands
    fixed("NOP", 0x60)
    fixed("RET", 0xEE)
    fixed("RETS", 0xE0)
    fixed("RETI", 0xEF)
    fixed("HALT", 0x9D, 0xA3)
    fixed("STOP", 0x9D, 0xB3)
    fixed("EI", 0x9D, 0xB2)
    fixed("DI", 0x9C, 0xB2)
    fixed("RORC A", 0x98)
    fixed("NOT A", 0x99, 0x5F)
    fixed("SET1 CY", 0xE7)
    fixed("CLR1 CY", 0xE6)
    fixed("SKT CY", 0xD7)
    fixed("NOT1 CY", 0xD6)
    fixed("BR PCDE", 0x99, 0x04)
    fixed("BR PCXA", 0x99, 0x00)
    fixed("MOVT XA,@PCDE", 0xD4)
    fixed("MOVT XA,@PCXA", 0xD0)
    fixed("PUSH BS", 0x99, 0x07)
    fixed("POP BS", 0x99, 0x06)

    # ------------------------------------------------------------ transfer
    add("MOV A,#n4", "MOV A,#{0}", [n4()], lambda pc, v: bytes([0x70 | v[0] & 15]))
    add("MOV reg1,#n4", "MOV {0},#{1}", [Enum(REG1), n4()], lambda pc, v: bytes([0x9A, (v[1] & 15) << 4 | 8 | v[0] + 1]))
    add("MOV rp,#n8", "MOV {0},#{1}", [Enum(RP), n8()], lambda pc, v: bytes([0x89 | v[0] << 1, lo(v[1])]))
    for n, q in RPA.items():
        fixed("MOV A," + n, 0xE0 | q)
        fixed("XCH A," + n, 0xE8 | q)
    fixed("MOV XA,@HL", 0xAA, 0x18)
    fixed("MOV @HL,A", 0xE8)
    fixed("MOV @HL,XA", 0xAA, 0x10)
    fixed("XCH XA,@HL", 0xAA, 0x11)
    add("MOV A,mem", "MOV A,{0}", [mem()], lambda pc, v: bytes([0xA3, lo(v[0])]))
    add("MOV XA,mem", "MOV XA,{0}", [mem(2)], lambda pc, v: bytes([0xA2, lo(v[0])]))
    add("MOV mem,A", "MOV {0},A", [mem()], lambda pc, v: bytes([0x93, lo(v[0])]))
    add("MOV mem,XA", "MOV {0},XA", [mem(2)], lambda pc, v: bytes([0x92, lo(v[0])]))
    add("XCH A,mem", "XCH A,{0}", [mem()], lambda pc, v: bytes([0xB3, lo(v[0])]))
    add("XCH XA,mem", "XCH XA,{0}", [mem(2)], lambda pc, v: bytes([0xB2, lo(v[0])]))
    add("MOV A,reg", "MOV A,{0}", [Enum(REG)], lambda pc, v: bytes([0x99, 0x78 | v[0]]))
    add("MOV reg1,A", "MOV {0},A", [Enum(REG1)], lambda pc, v: bytes([0x99, 0x70 | v[0] + 1]))
    add("MOV XA,rp'", "MOV XA,{0}", [Enum(RPQ)], lambda pc, v: bytes([0xAA, 0x58 | v[0]]))
    add("MOV rp'1,XA", "MOV {0},XA", [Enum(RPQ1_FIRST)], lambda pc, v: bytes([0xAA, 0x50 | v[0] + 1]))
    add("XCH A,reg1", "XCH A,{0}", [Enum(REG1)], lambda pc, v: bytes([0xD8 | v[0] + 1]))
    add("XCH XA,rp'", "XCH XA,{0}", [Enum(RPQ)], lambda pc, v: bytes([0xAA, 0x40 | v[0]]))
    for k in range(16):
        fixed("IN A,PORT%d" % k, 0xA3, 0xF0 | k)
        fixed("OUT PORT%d,A" % k, 0x93, 0xF0 | k)
        if k % 2 == 0:
            # 8-bit port access: even port number (pair PORTn / PORTn+1)
            fixed("IN XA,PORT%d" % k, 0xA2, 0xF0 | k)
            fixed("OUT PORT%d,XA" % k, 0x92, 0xF0 | k)

    # ------------------------------------------------------------ arithmetic / logic
    add("ADDS A,#n4", "ADDS A,#{0}", [n4()], lambda pc, v: bytes([0x60 | v[0] & 15]))
    add("ADDS XA,#n8", "ADDS XA,#{0}", [n8()], lambda pc, v: bytes([0xB9, lo(v[0])]))
    for m, one, two in (("ADDS", 0xD2, 0xC0), ("ADDC", 0xA9, 0xD0), ("SUBS", 0xA8, 0xE0), ("SUBC", 0xB8, 0xF0),
                        ("AND", 0x90, 0x90), ("OR", 0xA0, 0xA0), ("XOR", 0xB0, 0xB0)):
        fixed(m + " A,@HL", one)
        add(m + " XA,rp'", m + " XA,{0}", [Enum(RPQ)], (lambda o: lambda pc, v: bytes([0xAA, o | 8 | v[0]]))(two))
        add(m + " rp'1,XA", m + " {0},XA", [Enum(RPQ1_FIRST)], (lambda o: lambda pc, v: bytes([0xAA, o | v[0] + 1]))(two))
    for m, o in (("AND", 0x30), ("OR", 0x40), ("XOR", 0x50)):
        add(m + " A,#n4", m + " A,#{0}", [n4()], (lambda o: lambda pc, v: bytes([0x99, o | v[0] & 15]))(o))
    add("INCS reg", "INCS {0}", [Enum(REG)], lambda pc, v: bytes([0xC0 | v[0]]))
    add("INCS rp1", "INCS {0}", [Enum(RP1)], lambda pc, v: bytes([0x88 | (v[0] + 1) << 1]))
    fixed("INCS @HL", 0x99, 0x02)
    add("INCS mem", "INCS {0}", [mem()], lambda pc, v: bytes([0x82, lo(v[0])]))
    add("DECS reg", "DECS {0}", [Enum(REG)], lambda pc, v: bytes([0xC8 | v[0]]))
    add("DECS rp'", "DECS {0}", [Enum(RPQ)], lambda pc, v: bytes([0xAA, 0x68 | v[0]]))

    # ------------------------------------------------------------ compare
    add("SKE reg,#n4", "SKE {0},#{1}", [Enum(REG), n4()], lambda pc, v: bytes([0x9A, (v[1] & 15) << 4 | v[0]]))
    add("SKE @HL,#n4", "SKE @HL,#{0}", [n4()], lambda pc, v: bytes([0x99, 0x60 | v[0] & 15]))
    fixed("SKE A,@HL", 0x80)
    fixed("SKE XA,@HL", 0xAA, 0x19)
    add("SKE A,reg", "SKE A,{0}", [Enum(REG)], lambda pc, v: bytes([0x99, 0x08 | v[0]]))
    add("SKE XA,rp'", "SKE XA,{0}", [Enum(RPQ)], lambda pc, v: bytes([0xAA, 0x48 | v[0]]))

    # ------------------------------------------------------------ memory bit manipulation
    for m, o in (("SET1", 0x85), ("CLR1", 0x84), ("SKT", 0x87), ("SKF", 0x86)):
        add(m + " mem.bit", m + " {0}.{1}", [membit(), bit()],
            (lambda o: lambda pc, v: bytes([o | v[1] << 4, lo(v[0])]))(o))

    def special(name, fmt, first, fmem=True):
        """the three special bit addressing modes; fmt has the placeholder %s for the bit operand"""
        if fmem:
            for hi_area, base in ((0, 0xFB0), (1, 0xFF0)):
                add("%s fmem.bit %XH" % (name, base), fmt % "{0}.{1}", [Int(base, base + 15), bit()],
                    (lambda f, h: lambda pc, v: bytes([f, 0x80 | h << 6 | v[1] << 4 | v[0] & 15]))(first, hi_area))
        add(name + " pmem.@L", fmt % "{0}.@L", [Int(0xFC0, 0xFFC, step=4)],
            (lambda f: lambda pc, v: bytes([f, 0x40 | (v[0] >> 2) & 15]))(first))
        add(name + " @H+mem.bit", fmt % "@H+{0}.{1}", [Int(0, 15, rej_lo=False), bit()],
            (lambda f: lambda pc, v: bytes([f, v[1] << 4 | v[0]]))(first))

    special("SET1", "SET1 %s", 0x9D, fmem=False)
    special("CLR1", "CLR1 %s", 0x9C, fmem=False)
    special("SKT", "SKT %s", 0xBF, fmem=False)
    special("SKF", "SKF %s", 0xBE, fmem=False)
    special("SKTCLR", "SKTCLR %s", 0x9F)
    special("AND1", "AND1 CY,%s", 0xAC)
    special("OR1", "OR1 CY,%s", 0xAE)
    special("XOR1", "XOR1 CY,%s", 0xBC)
    special("MOV1 CY,", "MOV1 CY,%s", 0xBD)
    special("MOV1 ,CY", "MOV1 %s,CY", 0x9B)

    # interrupt enable flags of the uPD751xx (interrupt enable flags are bits 1 and 3 of FB8H..FBFH)
    for n, (a, b) in IE.items():
        fixed("EI " + n, 0x9D, 0x80 | b << 4 | a & 15)
        fixed("DI " + n, 0x9C, 0x80 | b << 4 | a & 15)

    # ------------------------------------------------------------ branch / call / stack
    dec = lambda b: sx(b[0], 8)
    add("BR !addr", "BR !{0}", [FarAddr(0, 0x3FFF, rej_lo=False)], lambda pc, v: bytes([0xAB, v[0] >> 8, lo(v[0])]))
    add("BR $addr", "BR ${0}", [RelGap(-16, 15, 1)], lambda pc, v: bytes([v[0] & 0xFF]), (0, dec))
    # all slots of a batch lie in 1000H..1FFFH (base 1000H, at most 250 slots of 8)
    add("BRCB !caddr", "BRCB !{0}", [Int(0x1000, 0x1FFF)], lambda pc, v: bytes([0x50 | (v[0] >> 8) & 15, lo(v[0])]))
    add("CALL !addr", "CALL !{0}", [Int(0, 0x3FFF, rej_lo=False)], lambda pc, v: bytes([0xAB, 0x40 | v[0] >> 8, lo(v[0])]))
    add("CALLF !faddr", "CALLF !{0}", [Int(0, 0x7FF, rej_lo=False)], lambda pc, v: bytes([0x40 | v[0] >> 8, lo(v[0])]))
    for i, n in enumerate(RP):
        fixed("PUSH " + n, 0x49 | i << 1)
        fixed("POP " + n, 0x48 | i << 1)
    for k in range(4):
        fixed("SEL RB%d" % k, 0x99, 0x20 | k)
    for k in range(16):
        fixed("SEL MB%d" % k, 0x99, 0x10 | k)
    return F


# uPD75104/106/108 data sheet: IEBT FB8H.1, IE4 FB8H.3, IET0 FBCH.1, IET1 FBCH.3, IESIO FBDH.1,
# IE0 FBEH.1, IE1 FBEH.3, IE2 FBFH.1, IE3 FBFH.3
IE = {"IEBT": (0xFB8, 1), "IE4": (0xFB8, 3), "IET0": (0xFBC, 1), "IET1": (0xFBC, 3), "IESIO": (0xFBD, 1),
      "IE0": (0xFBE, 1), "IE1": (0xFBE, 3), "IE2": (0xFBF, 1), "IE3": (0xFBF, 3)}

# uPD75116: the member of the uPD751xx group with 16K program memory (the whole 14-bit address field)
ISAS = [
    Isa("75116", "75116", build(), "intel", pcsym="PC", slot=8, base=0x1000, offsets=[0, 1, 3],
        maxaddr=0x3FFF, golden=[("t_75k0", {"75104": True})]),
]
