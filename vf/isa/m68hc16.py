"""Motorola M68HC16 (CPU16) reference encoder.

Source of truth: the opcode maps (page 0 and the prebyte pages $17, $27, $37) and the instruction
glossary / instruction set summary of the CPU16 Reference Manual (CPU16RM/AD).  Written from
Motorola's definition, not from code6816.c.  All multi-byte quantities are stored high byte first.

Page 0 (no prebyte)                      column = addressing mode, low nibble = operation
  0x/1x/2x  IND8,X/Y/Z  byte read-modify-write: 0 COM 1 DEC 2 NEG 3 INC 4 ASL 5 CLR 6 TST C ROL D ASR E ROR F LSR
            x8 BCLR IND16  x9 BSET IND16  xA BRCLR IND16,rel16  xB BRSET IND16,rel16      (3x: EXT)
  3x        30 MOVB IXP,EXT 31 MOVW IXP,EXT 32 MOVB EXT,IXP 33 MOVW EXT,IXP 34 PSHM 35 PULM 36 BSR 37 prebyte
            38 BCLR EXT 39 BSET EXT 3A BRCLR EXT 3B BRSET EXT 3C AIX 3D AIY 3E AIZ 3F AIS (IMM8)
  4x/5x/6x  IND8,X/Y/Z  0 SUBA 1 ADDA 2 SBCA 3 ADCA 4 EORA 5 LDAA 6 ANDA 7 ORAA 8 CMPA 9 BITA A STAA
            B JMP IND20   C CPX D CPY E CPZ F CPS
  7x        IMM8 (same rows 0-9)   7A JMP EXT20   7B MAC   7C ADDE IMM8
  8x/9x/Ax  IND8,X/Y/Z  0 SUBD 1 ADDD 2 SBCD 3 ADCD 4 EORD 5 LDD 6 ANDD 7 ORD 8 CPD 9 JSR IND20 A STD
            B BRSET IND8,rel8   C STX D STY E STZ F STS
  Bx        REL8: 0 BRA 1 BRN 2 BHI 3 BLS 4 BCC 5 BCS 6 BNE 7 BEQ 8 BVC 9 BVS A BPL B BMI C BGE D BLT E BGT F BLE
  Cx/Dx/Ex  IND8,X/Y/Z  0 SUBB .. 9 BITB A STAB   B BRCLR IND8,rel8   C LDX D LDY E LDZ F LDS
  Fx        IMM8 (rows 0-9 for B)  FA JSR EXT20   FB RMAC   FC ADDD IMM8
Page 1 ($17)
  0x/1x/2x  IND16,X/Y/Z byte read-modify-write (rows as above), x8 BCLR IND8, x9 BSET IND8;  3x the same, EXT
  4x/5x/6x  IND16 A operations + CPX..CPS;  7x EXT            8x/9x/Ax xC-xF STX..STS IND16;  BC-BF STX..STS EXT
  Cx/Dx/Ex  IND16 B operations + LDX..LDS;  Fx EXT
Page 2 ($27)
  0x/1x/2x  IND16 word read-modify-write (COMW ..), x8 BCLRW, x9 BSETW;   3x EXT
  4x/5x/6x  E,X / E,Y / E,Z A operations (4C NOP 4D TYX 4E TZX 4F TSX 5C TXY 5E TZY 5F TSY 6C TXZ 6D TYZ 6F TSZ)
  7x        E register inherent (71 LDED EXT, 73 STED EXT, 77 RTI ..)
  8x/9x/Ax  E,X/Y/Z D operations    Bx  B0 LDHI EXT, B1 TEDM .. BB TEKB    Cx/Dx/Ex  E,X/Y/Z B operations
  Fx        D register inherent (F1 LPSTOP F3 WAI F7 RTS F8 SXT F9 LBSR FA TBEK FB TED)
Page 3 ($37)
  0x A inherent, 1x B inherent, 2x SWI .. TDMSK, 3x IMM16 E operations (3A ANDP 3B ORP 3C-3F AIX..AIS IMM16)
  4x/5x/6x IND16 E operations (xC XGEx xD AEx xE TxS xF ABx), 7x EXT E operations (7C-7F CPX..CPS IMM16)
  8x LBcc REL16, 90 LBMV 91 LBEV 9C-9F TBXK..TBSK, A6 BGND AC-AF TXKB..TSKB
  Bx IMM16 D operations (BC-BF LDX..LDS IMM16), Cx/Dx/Ex IND16 D operations (xC XGDx xD ADx), Fx EXT D operations
  (FC TPA FD TAP FE MOVB EXT,EXT FF MOVW EXT,EXT)

Relative branches: the program counter the offset is added to is the address of the instruction + 6
(CPU16RM: instruction pipeline); offsets are even.  8-bit offsets reach -128..+126, 16-bit offsets
-32768..+32766 from there.

Operand-size selection (Motorola assembler convention, CPU16RM: the assembler selects the shortest
form): an index offset 0..255 selects IND8 where the instruction has such a form, every other offset
IND16 (signed 16 bits); AIX/AIY/AIZ/AIS, ADDD and ADDE take the IMM8 form for immediates -128..127
(the byte is sign extended), IMM16 otherwise; BRSET/BRCLR with an IND8 operand and a target within the
8-bit reach take the short form.

The M68HC11 mnemonics CPU16RM lists as replaced by other instructions (CLC CLI CLV SEC SEI SEV = ANDP/ORP,
DES DEX DEY INS INX INY = AIS/AIX/AIY #-1/#1, PSHX PSHY PULX PULY = PSHM/PULM) are modelled with the
replacement the manual gives; BHS/BLO = BCC/BCS; LSL = ASL.

Excluded by construction:
  * explicit size selection characters (not documented in AS's manual)
  * IND16 offsets 32768..65535 and immediates of AIx / ADDD / ADDE in 32768..65535 (valid as unsigned,
    out of the signed field): not generated, from 65536 on they must be rejected
  * BRSET/BRCLR with an IND8 offset and a target beyond the 8-bit reach (the IND16 encoding must be taken
    with an offset the short form could hold - assemblers differ)
  * extended addresses above $FFFF (bank register EK, AS only warns): not generated, from $100000 on they
    must be rejected;  IND20 offsets above $7FFFF (the offset is a signed 20-bit number)
  * KNOWN: MOVB/MOVW EXT to IXP and BCLRW/BSETW - the golden image of tests/t_6816 asserts another operand
    order than CPU16RM (see the flags MOV_EXT_IXP / WORD_BITOPS below); not generated
  * MAC/RMAC offsets 8..15 (valid as unsigned nibble): not generated
  * odd branch targets, odd instruction addresses
"""
from .common import Form, Int, Rel, Isa, Op, sx


def be16(v):
    v &= 0xffff
    return bytes([v >> 8, v & 0xff])


def opc(code):
    """opcode bytes: 8-bit page-0 opcode or prebyte + opcode"""
    return bytes([code]) if code < 0x100 else bytes([code >> 8, code & 0xff])


class RelX(Rel):
    """relative operand of a form that has a longer alternative: distances beyond the limits are excluded"""

    def classify(self, v, pc=0, vals=None):
        return "ok" if self.lo <= v <= self.hi else "excl"

    def boundary_rej(self):
        return []

    def draw_rej(self, d):
        return None


class RegMask(Op):
    """register list of PSHM / PULM: value = set of registers as bits in the order of `names`"""
    kind = "mask"

    def __init__(self, names):
        self.names = list(names)
        self.name = None

    def classify(self, v, pc=0, vals=None):
        return "ok" if 0 < v < (1 << len(self.names)) else "excl"

    def boundary_ok(self):
        n = len(self.names)
        return [1 << i for i in range(n)] + [(1 << n) - 1, 0x55 & ((1 << n) - 1), 0x2A & ((1 << n) - 1)]

    def boundary_rej(self):
        return []

    def opclass(self, v):
        return None

    def draw_ok(self, d):
        return d.int(1, (1 << len(self.names)) - 1)

    def draw_rej(self, d):
        return None

    def render(self, v, syntax, hexa):
        regs = [nm for i, nm in enumerate(self.names) if v >> i & 1]
        if hexa:
            regs.reverse()
        return ",".join(regs)


IDX = (("X", 0x00), ("Y", 0x10), ("Z", 0x20))

IMM8 = lambda: Int(-128, 255)
IMM16 = lambda: Int(-32768, 65535)
MASK8 = lambda: Int(0, 255, rej_lo=False)
MASK16 = lambda: Int(0, 65535, rej_lo=False)
OFF8 = lambda: Int(0, 255, rej_lo=False, rej_hi=False)
OFF16 = lambda: Int(-32768, 32767, holes=range(256), rej_from=65536)        # instruction has an IND8 form
OFF16ALL = lambda: Int(-32768, 32767, rej_from=65536)                       # instruction has no IND8 form
EXT = lambda: Int(0, 0xffff, rej_lo=False, rej_from=0x100000)
REL8 = lambda: Rel(-64, 63, 6, scale=2)
REL16 = lambda: Rel(-16384, 16383, 6, scale=2)

ACC8 = ["SUB", "ADD", "SBC", "ADC", "EOR", "LDA", "AND", "ORA", "CMP", "BIT", "STA"]       # + A / B
ACCD = {"SUBD": 0, "ADDD": 1, "SBCD": 2, "ADCD": 3, "EORD": 4, "LDD": 5, "ANDD": 6, "ORD": 7, "CPD": 8, "STD": 10}
ACCE = {"SUBE": 0, "ADDE": 1, "SBCE": 2, "ADCE": 3, "EORE": 4, "LDE": 5, "ANDE": 6, "ORE": 7, "CPE": 8, "STE": 10}
RMW = {"COM": 0x0, "DEC": 0x1, "NEG": 0x2, "INC": 0x3, "ASL": 0x4, "LSL": 0x4, "CLR": 0x5, "TST": 0x6,
       "ROL": 0xC, "ASR": 0xD, "ROR": 0xE, "LSR": 0xF}
BRANCH = {"BRA": 0, "BRN": 1, "BHI": 2, "BLS": 3, "BCC": 4, "BHS": 4, "BCS": 5, "BLO": 5, "BNE": 6, "BEQ": 7,
          "BVC": 8, "BVS": 9, "BPL": 10, "BMI": 11, "BGE": 12, "BLT": 13, "BGT": 14, "BLE": 15}

INH = {
    # page 3
    "COMA": 0x3700, "DECA": 0x3701, "NEGA": 0x3702, "INCA": 0x3703, "ASLA": 0x3704, "LSLA": 0x3704, "CLRA": 0x3705,
    "TSTA": 0x3706, "TBA": 0x3707, "PSHA": 0x3708, "PULA": 0x3709, "SBA": 0x370A, "ABA": 0x370B, "ROLA": 0x370C,
    "ASRA": 0x370D, "RORA": 0x370E, "LSRA": 0x370F,
    "COMB": 0x3710, "DECB": 0x3711, "NEGB": 0x3712, "INCB": 0x3713, "ASLB": 0x3714, "LSLB": 0x3714, "CLRB": 0x3715,
    "TSTB": 0x3716, "TAB": 0x3717, "PSHB": 0x3718, "PULB": 0x3719, "XGAB": 0x371A, "CBA": 0x371B, "ROLB": 0x371C,
    "ASRB": 0x371D, "RORB": 0x371E, "LSRB": 0x371F,
    "SWI": 0x3720, "DAA": 0x3721, "ACE": 0x3722, "ACED": 0x3723, "MUL": 0x3724, "EMUL": 0x3725, "EMULS": 0x3726,
    "FMULS": 0x3727, "EDIV": 0x3728, "EDIVS": 0x3729, "IDIV": 0x372A, "FDIV": 0x372B, "TPD": 0x372C, "TDP": 0x372D,
    "TDMSK": 0x372F,
    "XGEX": 0x374C, "AEX": 0x374D, "TXS": 0x374E, "ABX": 0x374F,
    "XGEY": 0x375C, "AEY": 0x375D, "TYS": 0x375E, "ABY": 0x375F,
    "XGEZ": 0x376C, "AEZ": 0x376D, "TZS": 0x376E, "ABZ": 0x376F,
    "TBXK": 0x379C, "TBYK": 0x379D, "TBZK": 0x379E, "TBSK": 0x379F, "BGND": 0x37A6,
    "TXKB": 0x37AC, "TYKB": 0x37AD, "TZKB": 0x37AE, "TSKB": 0x37AF,
    "XGDX": 0x37CC, "ADX": 0x37CD, "XGDY": 0x37DC, "ADY": 0x37DD, "XGDZ": 0x37EC, "ADZ": 0x37ED,
    "TPA": 0x37FC, "TAP": 0x37FD,
    # page 2
    "NOP": 0x274C, "TYX": 0x274D, "TZX": 0x274E, "TSX": 0x274F, "TXY": 0x275C, "TZY": 0x275E, "TSY": 0x275F,
    "TXZ": 0x276C, "TYZ": 0x276D, "TSZ": 0x276F,
    "COME": 0x2770, "NEGE": 0x2772, "ASLE": 0x2774, "LSLE": 0x2774, "CLRE": 0x2775, "TSTE": 0x2776, "RTI": 0x2777,
    "ADE": 0x2778, "SDE": 0x2779, "XGDE": 0x277A, "TDE": 0x277B, "ROLE": 0x277C, "ASRE": 0x277D, "RORE": 0x277E,
    "LSRE": 0x277F,
    "TEDM": 0x27B1, "TEM": 0x27B2, "TMXED": 0x27B3, "TMER": 0x27B4, "TMET": 0x27B5, "ASLM": 0x27B6, "CLRM": 0x27B7,
    "PSHMAC": 0x27B8, "PULMAC": 0x27B9, "ASRM": 0x27BA, "TEKB": 0x27BB,
    "COMD": 0x27F0, "LPSTOP": 0x27F1, "NEGD": 0x27F2, "WAI": 0x27F3, "ASLD": 0x27F4, "LSLD": 0x27F4, "CLRD": 0x27F5,
    "TSTD": 0x27F6, "RTS": 0x27F7, "SXT": 0x27F8, "TBEK": 0x27FA, "TED": 0x27FB, "ROLD": 0x27FC, "ASRD": 0x27FD,
    "RORD": 0x27FE, "LSRD": 0x27FF,
}

# M68HC11 mnemonics and their CPU16 replacement (CPU16RM, comparison of the instruction sets)
HC11 = {"CLC": (0x37, 0x3A, 0xFE, 0xFF), "CLI": (0x37, 0x3A, 0xFF, 0x1F), "CLV": (0x37, 0x3A, 0xFD, 0xFF),
        "SEC": (0x37, 0x3B, 0x01, 0x00), "SEI": (0x37, 0x3B, 0x00, 0xE0), "SEV": (0x37, 0x3B, 0x02, 0x00),
        "DES": (0x3F, 0xFF), "DEX": (0x3C, 0xFF), "DEY": (0x3D, 0xFF), "INS": (0x3F, 0x01), "INX": (0x3C, 0x01),
        "INY": (0x3D, 0x01), "PSHX": (0x34, 0x04), "PSHY": (0x34, 0x08), "PULX": (0x35, 0x10), "PULY": (0x35, 0x08)}


# KNOWN: MOVB/MOVW EXT to IXP (32 / 33 ff hhll: the 8-bit post-modify offset shares the opcode word, the address
# follows) is assembled as 32 hh ll ff and tests/t_6816 asserts that image (proposed/C14/hc16-mov-ext-ixp-operand-order.md):
# left out of the generated forms.
MOV_EXT_IXP = False
# KNOWN: BCLRW/BSETW (2708.. gggg mmmm / 2738.. hhll mmmm: address word, then mask word) are assembled mask first and
# tests/t_6816 asserts that image (proposed/C14/hc16-bclrw-bsetw-operand-order.md): left out of the generated forms.
WORD_BITOPS = False


def build():
    F = []

    def add(name, fmt, ops, enc, rel=None):
        F.append(Form(name, fmt, ops, enc, rel))

    def e8(code):
        return lambda pc, v: opc(code) + bytes([v[0] & 0xff])

    def e16(code):
        return lambda pc, v: opc(code) + be16(v[0])

    def fixed(code):
        return lambda pc, v: opc(code)

    def memforms(m, ind8, ind16, ext, eoff=None):
        """indexed and extended forms of a load/store/arithmetic mnemonic; opcodes of the X column"""
        for r, k in IDX:
            if ind8 is not None:
                add("%s ind8,%s" % (m, r), "%s {0},%s" % (m, r), [OFF8()], e8(ind8 + k))
                add("%s ind16,%s" % (m, r), "%s {0},%s" % (m, r), [OFF16()], e16(ind16 + k))
            else:
                add("%s ind16,%s" % (m, r), "%s {0},%s" % (m, r), [OFF16ALL()], e16(ind16 + k))
            if eoff is not None:
                add("%s E,%s" % (m, r), "%s E,%s" % (m, r), [], fixed(eoff + k))
        add(m + " ext", m + " {0}", [EXT()], e16(ext))

    # ---- 8-bit accumulators
    for acc, p0, p0imm, p1, p1ext, p2 in (("A", 0x40, 0x70, 0x1740, 0x1770, 0x2740),
                                          ("B", 0xC0, 0xF0, 0x17C0, 0x17F0, 0x27C0)):
        for row, stem in enumerate(ACC8):
            m = stem + acc
            if stem != "STA":
                add(m + " #imm8", m + " #{0}", [IMM8()], e8(p0imm + row))
            memforms(m, p0 + row, p1 + row, p1ext + row, p2 + row)

    # ---- accumulator D
    for m, row in ACCD.items():
        if m == "ADDD":
            add("ADDD #imm8", "ADDD #{0}", [Int(-128, 127, rej_lo=False, rej_hi=False)], e8(0xFC))
            add("ADDD #imm16", "ADDD #{0}", [Int(128, 32767, rej_lo=False, rej_from=65536)], e16(0x37B1))
            add("ADDD #imm16 neg", "ADDD #{0}", [Int(-32768, -129, rej_hi=False)], e16(0x37B1))
        elif m != "STD":
            add(m + " #imm16", m + " #{0}", [IMM16()], e16(0x37B0 + row))
        memforms(m, 0x80 + row, 0x37C0 + row, 0x37F0 + row, 0x2780 + row)

    # ---- accumulator E
    for m, row in ACCE.items():
        if m == "ADDE":
            add("ADDE #imm8", "ADDE #{0}", [Int(-128, 127, rej_lo=False, rej_hi=False)], e8(0x7C))
            add("ADDE #imm16", "ADDE #{0}", [Int(128, 32767, rej_lo=False, rej_from=65536)], e16(0x3731))
            add("ADDE #imm16 neg", "ADDE #{0}", [Int(-32768, -129, rej_hi=False)], e16(0x3731))
        elif m != "STE":
            add(m + " #imm16", m + " #{0}", [IMM16()], e16(0x3730 + row))
        memforms(m, None, 0x3740 + row, 0x3770 + row)

    # ---- index registers and stack pointer
    for i, r in enumerate("XYZS"):
        add("CP%s #imm16" % r, "CP%s #{0}" % r, [IMM16()], e16(0x377C + i))
        memforms("CP" + r, 0x4C + i, 0x174C + i, 0x177C + i)
        add("LD%s #imm16" % r, "LD%s #{0}" % r, [IMM16()], e16(0x37BC + i))
        memforms("LD" + r, 0xCC + i, 0x17CC + i, 0x17FC + i)
        memforms("ST" + r, 0x8C + i, 0x178C + i, 0x17BC + i)
        op8 = 0x3C + (i if r != "S" else 3)
        m = "AI" + r
        add(m + " #imm8", m + " #{0}", [Int(-128, 127, rej_lo=False, rej_hi=False)], e8(op8))
        add(m + " #imm16", m + " #{0}", [Int(128, 32767, rej_lo=False, rej_from=65536)], e16(0x3700 + op8))
        add(m + " #imm16 neg", m + " #{0}", [Int(-32768, -129, rej_hi=False)], e16(0x3700 + op8))

    # ---- read-modify-write
    for m, row in RMW.items():
        memforms(m, 0x00 + row, 0x1700 + row, 0x1730 + row)
        memforms(m + "W", None, 0x2700 + row, 0x2730 + row)

    # ---- bit set / clear
    for m, low in (("BCLR", 8), ("BSET", 9)):
        for r, k in IDX:
            add("%s ind8,%s,#m" % (m, r), "%s {0},%s,#{1}" % (m, r), [OFF8(), MASK8()],
                lambda pc, v, c=0x1700 + low + k: opc(c) + bytes([v[1], v[0]]))
            add("%s ind16,%s,#m" % (m, r), "%s {0},%s,#{1}" % (m, r), [OFF16(), MASK8()],
                lambda pc, v, c=low + k: opc(c) + bytes([v[1]]) + be16(v[0]))
            if WORD_BITOPS:
                add("%sW ind16,%s,#m" % (m, r), "%sW {0},%s,#{1}" % (m, r), [OFF16ALL(), MASK16()],
                    lambda pc, v, c=0x2700 + low + k: opc(c) + be16(v[0]) + be16(v[1]))
        add(m + " ext,#m", m + " {0},#{1}", [EXT(), MASK8()],
            lambda pc, v, c=0x30 + low: opc(c) + bytes([v[1]]) + be16(v[0]))
        if WORD_BITOPS:
            add(m + "W ext,#m", m + "W {0},#{1}", [EXT(), MASK16()],
                lambda pc, v, c=0x2730 + low: opc(c) + be16(v[0]) + be16(v[1]))

    # ---- bit test and branch
    r8 = lambda i: (i, lambda b: sx(b[3], 8) // 2)
    r16 = lambda i: (i, lambda b: sx(b[4] << 8 | b[5], 16) // 2)
    for m, short, long_ in (("BRCLR", 0xCB, 0x0A), ("BRSET", 0x8B, 0x0B)):
        for r, k in IDX:
            add("%s ind8,%s,#m,rel8" % (m, r), "%s {0},%s,#{1},{2}" % (m, r), [OFF8(), MASK8(), RelX(-64, 63, 6, scale=2)],
                lambda pc, v, c=short + k: bytes([c, v[1], v[0], (2 * v[2]) & 0xff]), r8(2))
            add("%s ind16,%s,#m,rel16" % (m, r), "%s {0},%s,#{1},{2}" % (m, r), [OFF16(), MASK8(), REL16()],
                lambda pc, v, c=long_ + k: bytes([c, v[1]]) + be16(v[0]) + be16(2 * v[2]), r16(2))
        add(m + " ext,#m,rel16", m + " {0},#{1},{2}", [EXT(), MASK8(), REL16()],
            lambda pc, v, c=long_ + 0x30: bytes([c, v[1]]) + be16(v[0]) + be16(2 * v[2]), r16(2))

    # ---- branches
    for m, n in BRANCH.items():
        add(m + " rel8", m + " {0}", [REL8()], lambda pc, v, c=0xB0 + n: bytes([c, (2 * v[0]) & 0xff]),
            (0, lambda b: sx(b[1], 8) // 2))
        add("L" + m + " rel16", "L" + m + " {0}", [REL16()], lambda pc, v, c=0x3780 + n: opc(c) + be16(2 * v[0]),
            (0, lambda b: sx(b[2] << 8 | b[3], 16) // 2))
    add("BSR rel8", "BSR {0}", [REL8()], lambda pc, v: bytes([0x36, (2 * v[0]) & 0xff]), (0, lambda b: sx(b[1], 8) // 2))
    for m, c in (("LBSR", 0x27F9), ("LBMV", 0x3790), ("LBEV", 0x3791)):
        add(m + " rel16", m + " {0}", [REL16()], lambda pc, v, c=c: opc(c) + be16(2 * v[0]),
            (0, lambda b: sx(b[2] << 8 | b[3], 16) // 2))

    # ---- jumps: 20-bit extended address / 20-bit index offset
    for m, ext20, ind20 in (("JMP", 0x7A, 0x4B), ("JSR", 0xFA, 0x89)):
        add(m + " ext20", m + " {0}", [Int(0, 0xfffff, rej_lo=False)],
            lambda pc, v, c=ext20: bytes([c, v[0] >> 16]) + be16(v[0]))
        for r, k in IDX:
            add("%s ind20,%s" % (m, r), "%s {0},%s" % (m, r), [Int(0, 0x7ffff, rej_lo=False, rej_from=0x100000)],
                lambda pc, v, c=ind20 + k: bytes([c, v[0] >> 16]) + be16(v[0]))
            add("%s -ind20,%s" % (m, r), "%s {0},%s" % (m, r), [Int(-0x80000, -1, rej_hi=False)],
                lambda pc, v, c=ind20 + k: bytes([c, (v[0] >> 16) & 15]) + be16(v[0]))

    # ---- moves
    for m, w in (("MOVB", 0), ("MOVW", 1)):
        add(m + " ext,ext", m + " {0},{1}", [EXT(), EXT()], lambda pc, v, c=0x37FE + w: opc(c) + be16(v[0]) + be16(v[1]))
        add(m + " ixp,ext", m + " {0},X,{1}", [Int(-128, 127), EXT()],
            lambda pc, v, c=0x30 + w: bytes([c, v[0] & 0xff]) + be16(v[1]))
        if MOV_EXT_IXP:
            add(m + " ext,ixp", m + " {0},{1},X", [EXT(), Int(-128, 127)],
                lambda pc, v, c=0x32 + w: bytes([c, v[1] & 0xff]) + be16(v[0]))

    # ---- miscellaneous
    add("ANDP #imm16", "ANDP #{0}", [IMM16()], e16(0x373A))
    add("ORP #imm16", "ORP #{0}", [IMM16()], e16(0x373B))
    add("LDED ext", "LDED {0}", [EXT()], e16(0x2771))
    add("STED ext", "STED {0}", [EXT()], e16(0x2773))
    add("LDHI ext", "LDHI {0}", [EXT()], e16(0x27B0))
    for m, c in (("MAC", 0x7B), ("RMAC", 0xFB)):
        add(m + " xo,yo", m + " {0},{1}", [Int(-8, 7, rej_from=16), Int(-8, 7, rej_from=16)],
            lambda pc, v, c=c: bytes([c, (v[0] & 15) << 4 | v[1] & 15]))
    add("PSHM list", "PSHM {0}", [RegMask(["D", "E", "X", "Y", "Z", "K", "CCR"])], lambda pc, v: bytes([0x34, v[0]]))
    add("PULM list", "PULM {0}", [RegMask(["CCR", "K", "Z", "Y", "X", "E", "D"])], lambda pc, v: bytes([0x35, v[0]]))

    for m, c in INH.items():
        add(m, m, [], fixed(c))
    for m, bs in HC11.items():
        add(m, m, [], lambda pc, v, bs=bs: bytes(bs))
    return F


ISAS = [Isa("68HC16", "68HC16", build(), "mot", pcsym="*", slot=16, base=0x28000, offsets=[0, 2, 6], maxaddr=0xfffff,
            golden=[("t_6816", {"68hc16": True})])]
